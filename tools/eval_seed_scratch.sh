#!/bin/bash
# usage: tools/eval_seed_scratch.sh <dir-with-patch.diff-and-demo.py> <name> [--confirm-only] [props...]
# like eval_seed.sh, but never touches /repo's working tree: the seed is confirmed in a fresh scratch worktree and the checks
# run against that worktree through PYVC_REPO (for use while other jobs read /repo)
set -u
SRC=$1; NAME=$2; shift 2
CONFIRM_ONLY=0; [ "${1:-}" = "--confirm-only" ] && { CONFIRM_ONLY=1; shift; }
PROPS=${@:-C01 C02 C03 C04 C05 C06 C07 C08 C09 C10 C11 C12 C13 C14 C15 C16 C17 C18 C19 C20}
WT=$(mktemp -d /tmp/seedwt_XXXX)
git -C /repo worktree add -q --detach $WT HEAD || exit 3
trap 'git -C /repo worktree remove --force $WT' EXIT
cd $WT
mkdir -p SEED; cp $SRC/demo.py SEED/ 2>/dev/null
echo "== demo on unchanged code"; PYTHONPATH=$WT timeout 300 /venv/bin/python SEED/demo.py > /tmp/seed_demo_clean_$NAME.txt 2>&1; echo "exit=$?"
git apply $SRC/patch.diff || { echo "PATCH DOES NOT APPLY"; exit 3; }
echo "== tests with the change"; /venv/bin/python -m pytest -q -p no:cacheprovider --timeout=900 --deselect tests/visualization 2>&1 | tail -1
echo "== demo with the change"; PYTHONPATH=$WT timeout 300 /venv/bin/python SEED/demo.py > /tmp/seed_demo_mut_$NAME.txt 2>&1; echo "exit=$?"; tail -3 /tmp/seed_demo_mut_$NAME.txt
[ $CONFIRM_ONLY = 1 ] && exit 0
cd /verif
echo "== checks against the scratch worktree"
for p in $PROPS; do echo $p; done | xargs -P 4 -I{} sh -c "PYVC_REPO=$WT PYVC_NO_EVIDENCE=1 ./check {} quick > /tmp/seed_${NAME}_{}.txt 2>&1; echo {} exit=\$?"
for p in $PROPS; do grep -h "VIOLATION\|UNDECIDED\|CHECKER" /tmp/seed_${NAME}_$p.txt | head -3 | cut -c1-260; grep -h "failed obligation" /tmp/seed_${NAME}_$p.txt | head -3 | cut -c1-260; done
