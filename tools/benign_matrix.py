#!/usr/bin/env python3
"""Runs the quick checks against every committed *behaviour-preserving* change (benign/*/patch.diff) on a scratch copy of /repo's
current tree (removed afterwards).  A VIOLATION (exit 1) on one of them is a false alarm of the machinery; exit 2 (UNDECIDED)
is reported separately.
usage: python3 tools/benign_matrix.py [ids...]   env JOBS (patches in parallel, default 3), PROPS (default: all 20)"""
import glob, json, os, shutil, subprocess, sys, tempfile
from concurrent.futures import ThreadPoolExecutor
VERIF = os.path.dirname(os.path.dirname(os.path.abspath(__file__)))
REPO = os.environ.get('PYVC_REPO', '/repo')
PROPS = os.environ.get('PROPS', ' '.join(f'C{i:02d}' for i in range(1, 21))).split()
want = set(sys.argv[1:])


def one(patch):
    bid = os.path.basename(os.path.dirname(patch))
    scratch = tempfile.mkdtemp(prefix='pyvc_benign_')
    res = {}
    try:
        for pkg in ('ml_pipeline_engine', 'ml_pipeline_viewer'):
            shutil.copytree(os.path.join(REPO, pkg), os.path.join(scratch, pkg))
        ap = subprocess.run(['patch', '-p1', '-s', '-d', scratch, '-i', patch], capture_output=True, text=True)
        if ap.returncode != 0:
            return bid, {'patch': ('does not apply', '')}
        env = dict(os.environ, PYVC_REPO=scratch, PYVC_NO_EVIDENCE='1')
        for p in PROPS:
            r = subprocess.run([os.path.join(VERIF, 'check'), p, 'quick'], capture_output=True, text=True, env=env, cwd=VERIF)
            first = [ln for ln in r.stdout.splitlines() if 'failed obligation' in ln or ln.startswith(('UNDECIDED', 'BOUNDED', 'CHECKER'))][:2]
            res[p] = (r.returncode, ' || '.join(x[:200] for x in first))
    finally:
        shutil.rmtree(scratch, ignore_errors=True)
    return bid, res


patches = [p for p in sorted(glob.glob(os.path.join(VERIF, 'benign', '*', 'patch.diff')))
           if not want or os.path.basename(os.path.dirname(p)) in want]
bad = 0
with ThreadPoolExecutor(int(os.environ.get('JOBS', '3'))) as ex:
    for bid, res in ex.map(one, patches):
        codes = {p: rc for p, (rc, _) in res.items()}
        viol = [p for p, rc in codes.items() if rc == 1]
        und = [p for p, rc in codes.items() if rc not in (0, 1)]
        bnd = [p for p, (rc, msg) in res.items() if rc == 0 and 'BOUNDED' in msg]
        bad += len(viol)
        print(bid, 'FALSE-ALARM ' + ','.join(viol) if viol else 'ok', ('undecided ' + ','.join(und)) if und else '',
              ('bounded ' + ','.join(bnd)) if bnd else '')
        for p in viol + und:
            print('     ', p, res[p][1][:330])
sys.exit(1 if bad else 0)
