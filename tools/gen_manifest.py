#!/usr/bin/env python3
"""regenerates MANIFEST.json from the table below (run from /verif)"""
import json

TECH = 'contract-based deductive verification: sidecar contracts on the real functions, VCs from the ast by symbolic execution, discharged by z3 (E-matching; MBQI/cvc5 second opinion)'
COMMON_NOTE = ('trusted base = library models of networkx/asyncio/stdlib and the user-code havoc (listed per run in evidence.trusted_base); '
               'Python subset and dropped constructs in DESIGN §2.2-2.3; a function the verifier cannot decide (contract no longer fits '
               'refactored code, unsupported construct, solver timeout) is UNDECIDED unless a registered BOUNDED stand-in (bounded/*.py: the real '
               'code on a stated finite family of inputs, DESIGN 9.8) takes over - reported as bounded in the evidence, never counted as proved; ')
BOUNDED_PROPS = {'bounded/builder.py': ['C03', 'C05', 'C09', 'C10', 'C11', 'C15', 'C16', 'C17'], 'bounded/fsstore.py': ['C18'], 'bounded/viewer.py': ['C20'],
                 'bounded/engine.py': ['C01', 'C02', 'C03', 'C04', 'C05', 'C06', 'C07', 'C08', 'C09', 'C10', 'C11', 'C12', 'C13', 'C14', 'C17', 'C19']}

P = {
 'C01': ('function contracts for run/_get_dag_result/_get_node_kwargs/sub-dag construction/_run_node proved for all graphs and states; '
         'the whole-run composition (well-founded induction over the dependency order) is a paper argument, and the unchanged tree is order-dependent for '
         'one-of scopes (known finding under C10)', '§4 C01, §7',
         'composition lemma and global progress assumed; deterministic node bodies; rely clauses r1/r3/r5/INV1 assumed at yields and guaranteed at exits'),
 'C02': ('lost-wake-up freedom as safety: every exit (normal, exceptional, cancelled) of every writer coroutine notifies the conditions its waiters read; wake-predicate '
         'adequacy; no lock held across a yield; loop measures. Global progress is NOT proved', '§2.9, §4 C02, §7',
         'global progress (every awaited location is eventually written) is a listed assumption; asyncio lock fast path axiom'),
 'C03': ('launch gate, readiness predicate, effective predecessors and kwargs routing proved per function for arbitrary graphs/storage states and arbitrary interference at yields', '§4 C03',
         'history lemma H1 (re-iterated nodes ran before) assumed; stability of results between gate and read relies on the rely clauses'),
 'C04': ('atomic check-then-claim in _execute_node (no yield between test and set), late arrivals execute nothing, order skips processed nodes, execution event set on every exit', '§4 C04', ''),
 'C05': ('exceptional postconditions: _get_first_error_in_tasks never raises, run raises only task-carried exceptions, chart.run turns exactly Exceptions into error results carrying the very object', '§4 C05', 'event managers assumed non-raising for the verdict clauses'),
 'C06': ('_run_dag blocks on nothing but the readiness of the node being launched; every node is its own task; order is depth-monotone', '§4 C06', 'generation order of nx.topological_sort is an axiom'),
 'C07': ('frame obligations: DAG.run hands the manager a private graph copy and modifies nothing reachable from the DAG / chart / caller input', '§4 C07', 'separation meta-argument C07.M on paper'),
 'C08': ('same frames plus per-run ownership of manager, storage, locks, tasks and context', '§4 C08', 'separation meta-argument on paper; user node classes sharing state are outside'),
 'C09': ('_add_case_result, routing through the selected case, case edges filtered from every sub-pipeline, single sub-pipeline per switch', '§4 C09', ''),
 'C10': ('_run_oneof loop contract (order, laziness, winner copy, exhaustion error), containment in _execute_node, early exit of failed scopes', '§4 C10', ''),
 'C11': ('_run_recurrent_subgraph loop contract (bound, data hand-over, default / error on exhaustion), hide frames, Recurrent results never release consumers', '§4 C11', ''),
 'C12': ('retry loop of __execute_node with invariant and measure: unbounded in attempts, all per-attempt outcome sequences', '§4 C12', 'validity preconditions on attempts/exceptions; get_default assumed not to raise'),
 'C13': ('cancellation injected at every yield of every engine coroutine: no new work, no blocking await, run() stops the whole registry on every exit', '§4 C13', 'asyncio cancellation delivery and Condition.wait re-acquire are axioms'),
 'C14': ('event traces of chart.run, _execute_node, __execute_node, _emit; result stored only after the completion event', '§4 C14', 'event managers assumed non-raising'),
 'C17': ('run_node dispatch transparency in all three modes, registry readiness, pool validation before the manager exists', '§4 C17', 'executors themselves trusted'),
 'C19': ('assertions at the single save site over the ghost effect log', '§4 C19', ''),
}

NOT_BUILT = {
 'C15': 'builder contracts not built yet at this commit (in progress)',
 'C16': 'builder validation contracts not built yet at this commit (in progress)',
 'C18': 'filesystem store contracts (strings) not built yet at this commit (in progress)',
 'C20': 'viewer contracts not built yet at this commit (in progress)',
}


def main():
    import os
    extra = {}
    if os.path.exists('tools/manifest_extra.json'):
        extra = json.load(open('tools/manifest_extra.json'))
    for k, v in extra.get('claimed', {}).items():
        P[k] = tuple(v)
        NOT_BUILT.pop(k, None)
    checks = []
    for pid in sorted(P):
        text, ref, note = P[pid]
        checks.append(dict(
            property_id=pid, quick_cmd=f'./check {pid} quick', thorough_cmd=f'./check {pid} thorough',
            evidence_file=f'evidence/{pid}.json', engine='pyvc', technique=TECH,
            level_claimed=dict(category='proof', text=text, design_ref=ref),
            level_note=COMMON_NOTE + note))
    m = dict(
        version=1,
        setup_cmd="python3-vt -c \"import z3, cvc5; print('pyvc tooling ok', z3.get_version_string())\"",
        hooks=dict(guard='ML_PIPELINE_ENGINE_VERIF',
                   enable='no hooks: contracts are sidecar files under /verif/contracts; /repo is parsed with ast on every run',
                   baseline_off_cmd='cd /repo && /venv/bin/python -m pytest -ra -q -p no:cacheprovider --timeout=900 --continue-on-collection-errors',
                   source_commits=[], add_only=True),
        engines=[dict(name='pyvc', path='pyvc/', serves_properties=sorted(P),
                      kind_free_text='home-built deductive verifier for a Python subset: ast -> symbolic execution against sidecar contracts -> z3/cvc5')]
        + [dict(name=k, path=k, serves_properties=v,
                kind_free_text='BOUNDED stand-in (not a proof): runs the real code under /venv on a stated finite family of inputs against the '
                               'property statement; used only for functions the verifier left undecided and as extra exploration in the thorough tier')
           for k, v in BOUNDED_PROPS.items()],
        checks=checks,
        notes='known findings (genuine defects recorded, with replays) and fixed defects in known_findings.json; fix: commits in /repo: '
              '9c45089 bf3654a 2c9fa39 c36aa6e 3a3f466 0a0e585 e9f543d 16ff58a e84cc41 4366881 3465b67 4f2a424 6714157 097ea28; seeded changes and catch matrix in seeded/ and DESIGN 9.5',
        not_applicable=[dict(property_id=k, reason=v) for k, v in sorted(NOT_BUILT.items())],
    )
    json.dump(m, open('MANIFEST.json', 'w'), indent=1)


if __name__ == '__main__':
    main()
