#!/usr/bin/env python3
"""usage: record_seed.py <seed-dir> <id> <property> <caught-by csv or '-'> <verdict: caught|undecided|missed> <needs...>"""
import json, os, shutil, sys
src, sid, prop, caught, verdict = sys.argv[1:6]
needs = ' '.join(sys.argv[6:])
dst = f'/verif/seeded/{sid}'
os.makedirs(dst, exist_ok=True)
for f in ('patch.diff', 'demo.py', 'notes.md'):
    if os.path.exists(os.path.join(src, f)):
        shutil.copy(os.path.join(src, f), os.path.join(dst, f))
meta = dict(id=sid, breaks_property=prop, needs_to_manifest=needs, origin='independent sub-agent given only the property text and a scratch worktree',
            confirmed=dict(how='tools/eval_seed.sh: fresh scratch worktree of /repo HEAD; demo exit 0 on the unchanged code, patch applies, 62 baseline tests pass with the change, demo exit 1 with the change; then the patch was applied to /repo, the checks were run and /repo was reverted',
                           tests_pass_with_change=True, demo_fails_with_change=True, demo_passes_without=True),
            checks=dict(verdict=verdict, violation_reported_by=[c for c in caught.split(',') if c and c != '-']))
json.dump(meta, open(os.path.join(dst, 'meta.json'), 'w'), indent=1)
print('recorded', dst)
