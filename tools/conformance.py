#!/usr/bin/env python3-vt
"""CPython cross-check of the encoding (bounded, run-time contract checking): for every storage contract, random small
concrete pre-states and arguments are run on the REAL method (under /venv's interpreter) and the *same* contract clauses that
are proved symbolically are evaluated on the observed pre-state / result / post-state.  A clause that is false on the real
code means the contract (or the model of Python it was proved against) disagrees with CPython.
usage: python3-vt tools/conformance.py [N per method, default 40] [seed]"""
import ast
import json
import os
import random
import sys

sys.path.insert(0, os.path.dirname(os.path.dirname(os.path.abspath(__file__))))
from pyvc.run import Repo, prepare_lattice, load_contracts       # noqa: E402
from replay.oracle import run_real, replay_storage               # noqa: E402

_pos = [x for x in sys.argv[1:] if not x.startswith('--') and (sys.argv[sys.argv.index(x) - 1] != '--json')]
N = int(_pos[0]) if _pos else 40
rnd = random.Random(int(_pos[1]) if len(_pos) > 1 else 1)
KEYS = [dict(t='str', v=x) for x in ('a', 'b', 'c')]
PAIRS = [dict(t='tup2', a=x, b=y) for x in KEYS[:2] for y in KEYS[:2]]
VALUES = [dict(t='none'), dict(t='int', v=0), dict(t='int', v=7), dict(t='str', v=''), dict(t='str', v='v'), dict(t='bool', v=False),
          dict(t='rec', d=dict(t='int', v=1)), dict(t='exc', cls='ValueError', id=1), dict(t='case', label=dict(t='str', v='l'), node=KEYS[0])]
STORAGE_FIELDS = None
DIS = []


def hd_state(keys):
    data = [[k, rnd.choice(VALUES)] for k in keys if rnd.random() < 0.6]
    hidden = [k for k in keys if rnd.random() < 0.35]
    return dict(data=data, hidden=hidden)


def arg_for(name, default):
    if name in ('with_hidden', 'exclude_none'):
        return dict(t='bool', v=rnd.random() < 0.5)
    if name in ('key', 'node_id', 'from_node_id', 'to_node_id', 'source', 'dest'):
        return rnd.choice(KEYS + (PAIRS if name == 'key' else []))
    if name in ('value', 'data'):
        return rnd.choice(VALUES)
    return None


def main():
    repo = Repo()
    prepare_lattice(repo)
    reg = load_contracts()
    from contracts.shapes import STORAGE_FIELDS as SF
    total = bad = skipped = 0
    for c in reg:
        if c.path != 'ml_pipeline_engine/dag/storage.py' or getattr(c, 'assumed', False) or c.name.endswith('__init__'):
            continue
        if c.name.endswith('.exists_result_type'):
            skipped += 1     # contracted only for the call shape exclude_type=(Recurrent,), inlined at its call sites
            continue
        fi = repo.function(c.path, c.name)
        if fi is None:
            continue
        cls, method = c.name.split('.')
        params = [a.arg for a in fi.node.args.args if a.arg != 'self']
        batch = []
        for _ in range(N):
            w = dict(kind='storage', cls=cls, method=method, contract=c.key)
            keys = KEYS + PAIRS
            if fi.node.args.vararg is not None:
                w['seq'] = [rnd.choice(KEYS) for _ in range(rnd.randint(0, 3))]
                w['pos'] = w['seq']
            else:
                args, ok = {}, True
                for p in params:
                    v = arg_for(p, None)
                    if v is None:
                        if p in ('target_type', 'exclude_type'):
                            continue          # defaults are used
                        ok = False
                    else:
                        args[p] = v
                if not ok:
                    skipped += 1
                    break
                w['args'] = args
            w['state'] = {'self': hd_state(keys)} if cls == 'HiddenDict' else {f: hd_state(keys) for f in SF}
            batch.append(w)
        if not batch:
            continue
        reals = run_real(batch)
        if isinstance(reals, dict) and 'error' in reals:
            print('ERROR', c.name, reals['error'][:300])
            bad += 1
            continue
        for w, real in zip(batch, reals):
            total += 1
            if 'error' in real:
                print('ERROR', c.name, real['error'])
                bad += 1
                continue
            if 'seq' in w:
                w.pop('pos', None)
            r = replay_storage(w, real)
            if r.get('reproduced'):
                bad += 1
                DIS.append(dict(function=c.name, failed=r['failed_clauses_on_the_real_code'], input=dict(args=w.get('args'), seq=w.get('seq'), state=w['state']), real_code_did=real))
                print('DISAGREE', c.name, r['failed_clauses_on_the_real_code'], json.dumps(dict(args=w.get("args"), seq=w.get("seq"), state=w["state"])),
                      '->', json.dumps(real))
    if '--json' in sys.argv:
        json.dump(dict(executions=total, disagreements=DIS, skipped=skipped), open(sys.argv[sys.argv.index('--json') + 1], 'w'), indent=1)
    print(f'conformance: {total} real executions of the storage methods checked against their contracts, {bad} disagreements, '
          f'{skipped} methods skipped (parameters outside the generator)')
    sys.exit(1 if bad else 0)


if __name__ == '__main__':
    main()
