#!/usr/bin/env python3-vt
"""CPython cross-check of the encoding (bounded, run-time contract checking): for every storage contract, random small
concrete pre-states and arguments are run on the REAL method (under /venv's interpreter) and the *same* contract clauses that
are proved symbolically are evaluated on the observed pre-state / result / post-state.  A clause that is false on the real
code means the contract (or the model of Python it was proved against) disagrees with CPython.
usage: python3-vt tools/conformance.py [N per method, default 40] [seed]"""
import ast
import json
import os
import random
import sys

sys.path.insert(0, os.path.dirname(os.path.dirname(os.path.abspath(__file__))))
from pyvc.run import Repo, prepare_lattice, load_contracts       # noqa: E402
from replay.oracle import run_real, replay_storage, replay_manager   # noqa: E402

_pos = [x for x in sys.argv[1:] if not x.startswith('--') and (sys.argv[sys.argv.index(x) - 1] not in ('--json', '--only'))]
N = int(_pos[0]) if _pos else 40
rnd = random.Random(int(_pos[1]) if len(_pos) > 1 else 1)
KEYS = [dict(t='str', v=x) for x in ('a', 'b', 'c')]
PAIRS = [dict(t='tup2', a=x, b=y) for x in KEYS[:2] for y in KEYS[:2]]
VALUES = [dict(t='none'), dict(t='int', v=0), dict(t='int', v=7), dict(t='str', v=''), dict(t='str', v='v'), dict(t='bool', v=False),
          dict(t='rec', d=dict(t='int', v=1)), dict(t='exc', cls='ValueError', id=1), dict(t='case', label=dict(t='str', v='l'), node=KEYS[0])]
STORAGE_FIELDS = None
DIS = []


def hd_state(keys):
    data = [[k, rnd.choice(VALUES)] for k in keys if rnd.random() < 0.6]
    hidden = [k for k in keys if rnd.random() < 0.35]
    return dict(data=data, hidden=hidden)


def arg_for(name, default):
    if name in ('with_hidden', 'exclude_none'):
        return dict(t='bool', v=rnd.random() < 0.5)
    if name in ('key', 'node_id', 'from_node_id', 'to_node_id', 'source', 'dest'):
        return rnd.choice(KEYS + (PAIRS if name == 'key' else []))
    if name in ('value', 'data'):
        return rnd.choice(VALUES)
    return None


# ------------------------------------------------------------------------------------------------------------------
# random small run-time states for the sequential manager helpers
# ------------------------------------------------------------------------------------------------------------------
def S(x):
    return dict(t='str', v=x)


def random_graph():
    """a small graph as the builder produces them: real nodes with keyword edges, optional synthetic switch node (decider edge
    + labelled case edges) and optional one-of head (ordered candidates, marked children)"""
    n_real = rnd.randint(2, 5)
    real = [f'n{i}' for i in range(n_real)]
    nodes = list(real)
    edges, na, ea = [], {}, {}
    for i in range(1, n_real):
        for j in range(i):
            if rnd.random() < 0.45 or j == i - 1 and rnd.random() < 0.5:
                edges.append((real[j], real[i]))
                ea.setdefault('kwarg_name', []).append([S(real[j]), S(real[i]), S(f'k_{real[j]}')])
    for i in range(1, n_real):
        if not any(v == real[i] for _u, v in edges):
            edges.append((real[0], real[i]))            # nodes without marks hang off the input
    if n_real >= 4 and rnd.random() < 0.6:
        sw, dec_, consumer = 'switch__s', real[1], real[-1]
        cases = rnd.sample(real[1:-1], k=min(2, len(real) - 2))
        nodes.append(sw)
        na.setdefault('is_switch', []).append([S(sw), dict(t='bool', v=True)])
        edges.append((dec_, sw))
        ea.setdefault('is_switch', []).append([S(dec_), S(sw), dict(t='bool', v=True)])
        for li, c in enumerate(cases):
            if c == dec_:
                continue
            edges.append((c, sw))
            ea.setdefault('case_branch', []).append([S(c), S(sw), S(f'l{li}')])
        edges.append((sw, consumer))
        ea.setdefault('kwarg_name', []).append([S(sw), S(consumer), S('k_switch')])
    if n_real >= 3 and rnd.random() < 0.5:
        head, consumer = 'input_one_of__0___x', real[-1]
        cands = rnd.sample(real[1:-1], k=min(2, len(real) - 2)) if len(real) > 2 else []
        if cands:
            nodes.append(head)
            na.setdefault('is_oneof', []).append([S(head), dict(t='bool', v=True)])
            na.setdefault('oneof_nodes', []).append([S(head), S('|'.join(cands))])     # placeholder: only its presence matters here
            edges.append((real[0], head))
            for c in cands:
                na.setdefault('is_oneof_child', []).append([S(c), dict(t='bool', v=rnd.random() < 0.7)])
                edges.append((c, head))
            edges.append((head, consumer))
            ea.setdefault('kwarg_name', []).append([S(head), S(consumer), S('k_oneof')])
    edges = list(dict.fromkeys(edges))
    return dict(nodes=[S(n) for n in nodes], edges=[[S(u), S(v)] for u, v in edges], na=na, ea=ea), nodes, real


def manager_witness(c, fi):
    g, nodes, real = random_graph()
    keys = [S(n) for n in nodes]
    results = [dict(t='none'), dict(t='int', v=0), dict(t='int', v=5), dict(t='str', v='l0'), dict(t='str', v='l1'),
               dict(t='rec', d=dict(t='int', v=1)), dict(t='exc', cls='ValueError', id=1)]
    storage = {}
    for f in STORAGE_FIELDS_:
        data, hidden = [], []
        for k in keys:
            if rnd.random() < 0.6:
                if f == 'switch_results':
                    data.append([k, dict(t='case', label=S(rnd.choice(['l0', 'l1'])), node=rnd.choice(keys))])
                elif f == 'processed_nodes':
                    data.append([k, dict(t='int', v=1)])
                else:
                    data.append([k, rnd.choice(results)])
            if rnd.random() < 0.25:
                hidden.append(k)
        storage[f] = dict(data=data, hidden=hidden)
    w = dict(kind='manager', method=c.name.split('.')[1], contract=c.key, graph=g, storage=storage,
             input=S(real[0]), output=S(real[-1]), input_kwargs=[[S('x'), dict(t='int', v=1)]], args={})
    params = [a.arg for a in fi.node.args.args if a.arg != 'self']
    for p in params:
        if p == 'dag':
            sub = [n for n in nodes if rnd.random() < 0.75] or nodes[:1]
            w['dag'] = dict(nodes=[S(n) for n in sub], is_recurrent=rnd.random() < 0.3, is_oneof=rnd.random() < 0.4,
                            is_nested_oneof=rnd.random() < 0.3, source=S(real[0]), dest=S(rnd.choice(sub)))
        elif p in ('node_id', 'switch_node_id', 'source', 'dest'):
            w['args'][p] = S(rnd.choice(nodes))
        elif p in ('is_recurrent', 'is_oneof', 'is_nested_oneof'):
            w['args'][p] = dict(t='bool', v=rnd.random() < 0.4)
        else:
            return None
    return w


STORAGE_FIELDS_ = ('node_results', 'processed_nodes', 'switch_results', 'recurrent_subgraph', 'waiting_list')


def main():
    repo = Repo()
    prepare_lattice(repo)
    reg = load_contracts()
    from contracts.shapes import STORAGE_FIELDS as SF
    total = bad = skipped = 0
    for c in reg:
        if c.path != 'ml_pipeline_engine/dag/storage.py' or getattr(c, 'assumed', False) or c.name.endswith('__init__'):
            continue
        if '--only' in sys.argv and sys.argv[sys.argv.index('--only') + 1] not in c.key:
            continue
        if c.name.endswith('.exists_result_type'):
            skipped += 1     # contracted only for the call shape exclude_type=(Recurrent,), inlined at its call sites
            continue
        fi = repo.function(c.path, c.name)
        if fi is None:
            continue
        cls, method = c.name.split('.')
        params = [a.arg for a in fi.node.args.args if a.arg != 'self']
        batch = []
        for _ in range(N):
            w = dict(kind='storage', cls=cls, method=method, contract=c.key)
            keys = KEYS + PAIRS
            if fi.node.args.vararg is not None:
                w['seq'] = [rnd.choice(KEYS) for _ in range(rnd.randint(0, 3))]
                w['pos'] = w['seq']
            else:
                args, ok = {}, True
                for p in params:
                    v = arg_for(p, None)
                    if v is None:
                        if p in ('target_type', 'exclude_type'):
                            continue          # defaults are used
                        ok = False
                    else:
                        args[p] = v
                if not ok:
                    skipped += 1
                    break
                w['args'] = args
            w['state'] = {'self': hd_state(keys)} if cls == 'HiddenDict' else {f: hd_state(keys) for f in SF}
            batch.append(w)
        if not batch:
            continue
        reals = run_real(batch)
        if isinstance(reals, dict) and 'error' in reals:
            print('ERROR', c.name, reals['error'][:300])
            bad += 1
            continue
        for w, real in zip(batch, reals):
            total += 1
            if 'error' in real:
                print('ERROR', c.name, real['error'])
                bad += 1
                continue
            if 'seq' in w:
                w.pop('pos', None)
            r = replay_storage(w, real)
            if r.get('reproduced'):
                bad += 1
                DIS.append(dict(function=c.name, failed=r['failed_clauses_on_the_real_code'], input=dict(args=w.get('args'), seq=w.get('seq'), state=w['state']), real_code_did=real))
                print('DISAGREE', c.name, r['failed_clauses_on_the_real_code'], json.dumps(dict(args=w.get("args"), seq=w.get("seq"), state=w["state"])),
                      '->', json.dumps(real))
    if '--json' in sys.argv:
        json.dump(dict(executions=total, disagreements=DIS, skipped=skipped), open(sys.argv[sys.argv.index('--json') + 1], 'w'), indent=1)
    # ---- the sequential manager helpers -----------------------------------------------------------------------
    only = sys.argv[sys.argv.index('--only') + 1] if '--only' in sys.argv else None
    m_total = m_spurious = 0
    for c in reg:
        if not getattr(c, 'replayable', False) or c.path != 'ml_pipeline_engine/dag/manager.py':
            continue
        if only and only not in c.key:
            continue
        fi = repo.function(c.path, c.name)
        if fi is None:
            continue
        batch = [w for w in (manager_witness(c, fi) for _ in range(N)) if w is not None]
        if not batch:
            skipped += 1
            continue
        reals = run_real(batch)
        if isinstance(reals, dict) and 'error' in reals:
            print('ERROR', c.name, reals['error'][:300])
            bad += 1
            continue
        for w, real in zip(batch, reals):
            if 'error' in real:
                m_spurious += 1          # the random state was not even constructible (e.g. a key error while building it)
                continue
            try:
                r = replay_manager(w, real)
            except Exception as e:   # noqa: BLE001
                m_spurious += 1
                continue
            if r.get('why'):
                m_spurious += 1          # precondition of the contract not met by the random state
                continue
            m_total += 1
            total += 1
            if r.get('reproduced'):
                bad += 1
                DIS.append(dict(function=c.name, failed=r['failed_clauses_on_the_real_code'], input=r.get('input'), real_code_did=real))
                print('DISAGREE', c.name, r['failed_clauses_on_the_real_code'], json.dumps(r.get('input'))[:600], '->', json.dumps(real)[:300])
    print(f'conformance (manager helpers): {m_total} real executions checked, {m_spurious} random states outside the preconditions')
    print(f'conformance: {total} real executions of the storage methods checked against their contracts, {bad} disagreements, '
          f'{skipped} methods skipped (parameters outside the generator)')
    sys.exit(1 if bad else 0)


if __name__ == '__main__':
    main()
