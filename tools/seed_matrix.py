#!/usr/bin/env python3
"""Runs every committed seeded change (seeded/*/patch.diff) against the checks of the properties it is recorded for, on a
scratch copy of /repo's current tree (removed afterwards), and prints the catch matrix.
usage: python3 tools/seed_matrix.py [S08 S11 ...]   (default: all)"""
import glob, json, os, shutil, subprocess, sys, tempfile
from concurrent.futures import ThreadPoolExecutor
VERIF = os.path.dirname(os.path.dirname(os.path.abspath(__file__)))
REPO = os.environ.get('PYVC_REPO', '/repo')
want = set(sys.argv[1:])


def one(meta_path):
    meta = json.load(open(meta_path))
    sid = meta['id']
    props = sorted(set([meta['breaks_property']] + meta['checks'].get('violation_reported_by', [])))
    scratch = tempfile.mkdtemp(prefix='pyvc_matrix_')
    res = {}
    try:
        for pkg in ('ml_pipeline_engine', 'ml_pipeline_viewer'):
            shutil.copytree(os.path.join(REPO, pkg), os.path.join(scratch, pkg))
        ap = subprocess.run(['patch', '-p1', '-s', '-d', scratch, '-i', os.path.join(os.path.dirname(meta_path), 'patch.diff')],
                            capture_output=True, text=True)
        if ap.returncode != 0:
            return sid, meta, {'patch': 'does not apply'}
        env = dict(os.environ, PYVC_REPO=scratch, PYVC_NO_EVIDENCE='1')
        for p in props:
            r = subprocess.run([os.path.join(VERIF, 'check'), p, 'quick'], capture_output=True, text=True, env=env, cwd=VERIF)
            first = [ln for ln in r.stdout.splitlines() if 'failed obligation' in ln or ln.startswith('UNDECIDED')][:1]
            res[p] = (r.returncode, first[0][:160] if first else '')
    finally:
        shutil.rmtree(scratch, ignore_errors=True)
    return sid, meta, res


metas = [m for m in sorted(glob.glob(os.path.join(VERIF, 'seeded', '*', 'meta.json')))
         if not want or os.path.basename(os.path.dirname(m)) in want]
with ThreadPoolExecutor(int(os.environ.get('JOBS', '4'))) as ex:
    for sid, meta, res in ex.map(one, metas):
        line = ' '.join(f'{p}:{v[0]}' for p, v in res.items() if p != 'patch') or str(res)
        print(sid, 'breaks', meta['breaks_property'], 'recorded', meta['checks']['verdict'], '|', line)
        for p, v in res.items():
            if p != 'patch' and v[1]:
                print('     ', p, v[1])
