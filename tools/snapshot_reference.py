#!/usr/bin/env python3
"""copies the /repo source files that have contracts into contracts/reference/ (the tree the contracts were written against;
used only for rename tolerance, see pyvc/alpha.py).  Run after changing a contract to follow a change of /repo."""
import os, shutil, sys
sys.path.insert(0, os.path.dirname(os.path.dirname(os.path.abspath(__file__))))
VERIF = os.path.dirname(os.path.dirname(os.path.abspath(__file__)))
REPO = os.environ.get('PYVC_REPO', '/repo')
dst = os.path.join(VERIF, 'contracts', 'reference')
shutil.rmtree(dst, ignore_errors=True)
n = 0
for pkg in ('ml_pipeline_engine', 'ml_pipeline_viewer'):
    for d, _ds, fs in os.walk(os.path.join(REPO, pkg)):
        for f in fs:
            if f.endswith('.py'):
                src = os.path.join(d, f)
                rel = os.path.relpath(src, REPO)
                os.makedirs(os.path.dirname(os.path.join(dst, rel)), exist_ok=True)
                shutil.copy(src, os.path.join(dst, rel) + '.txt')
                n += 1
print(n, 'files')
