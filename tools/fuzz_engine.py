#!/usr/bin/env python3
"""Exploratory differential fuzzing of the real engine against the reference interpreter of bounded/engine.py on *random*
acyclic pipeline descriptions (not a registered check; a way to meet defects no clause speaks about yet — what it finds is
then stated as a contract clause or recorded as a known finding).
usage: PYTHONPATH=/repo:/verif /venv/bin/python tools/fuzz_engine.py <n-specs> <seed> [--allow-known]"""
import asyncio
import collections
import json
import random
import sys

import bounded.engine as E

RAW = E.RAW


def ancestors(spec, n, acc=None):
    acc = set() if acc is None else acc
    for r in E.refs(spec, n):
        if r not in acc:
            acc.add(r)
            ancestors(spec, r, acc)
    return acc


def features(spec):
    f = set()
    used = collections.Counter()
    for n, ps in spec.items():
        if ps is RAW:
            continue
        for _p, m in ps:
            for r in E.refs({n: [(_p, m)]}, n):
                used[r] += 1
    cands = {n: [c for _p, m in ps if m[0] == 'oneof' for c in m[1]] for n, ps in spec.items() if ps is not RAW}
    all_cands = [(o, c) for o, cs in cands.items() for c in cs]
    for n, ps in spec.items():
        if ps is RAW:
            continue
        for _p, m in ps:
            if m[0] == 'sw':
                for _l, x in m[2]:
                    if used[x] > 1:
                        f.add('K2:case-node-used-elsewhere')
    for o, c in all_cands:
        anc = ancestors(spec, c) | {c}
        if any(m[0] == 'sw' for a in anc if spec[a] is not RAW for _p, m in spec[a]):
            f.add('K5:switch-inside-candidate')
        for o2, c2 in all_cands:
            if (o2, c2) != (o, c) and c2 in anc and o2 != o:
                f.add('K4:candidate-contains-candidate-of-another-oneof')
            if (o2, c2) != (o, c) and c2 == c:
                f.add('K4b:node-is-candidate-twice')
        if used[c] > 1:
            f.add('K6:candidate-used-elsewhere')
    return f


def random_spec(rng):
    k = rng.randint(3, 6)
    names = ['In'] + [f'N{i}' for i in range(1, k + 1)] + ['Out']
    spec = {'In': RAW}
    for i, n in enumerate(names[1:], start=1):
        earlier = names[:i]
        nparams = 1 if n != 'Out' and rng.random() < 0.6 else 2
        params, direct = [], set()
        for pi in range(nparams):
            kind = rng.choices(['in', 'sw', 'oneof'], [0.6, 0.2, 0.2])[0]
            non_in = [e for e in earlier if e != 'In']
            if kind == 'sw' and len(non_in) >= 3:
                d, a, b = rng.sample(non_in, 3)
                if {d, a, b} & direct:
                    continue
                direct |= {d, a, b}
                params.append((f'p{pi}', ('sw', d, [('l0', a), ('l1', b)])))
            elif kind == 'oneof' and len(non_in) >= 2:
                cs = rng.sample(non_in, rng.choice([2, 2, 3]) if len(non_in) >= 3 else 2)
                if set(cs) & direct:
                    continue
                direct |= set(cs)
                params.append((f'p{pi}', ('oneof', cs)))
            else:
                src = rng.choice(earlier)
                if src in direct:
                    continue
                direct.add(src)
                params.append((f'p{pi}', ('in', src)))
        if not params:
            params = [('p0', ('in', earlier[-1]))]
        spec[n] = params
    # keep only what the output needs (+ In)
    keep = ancestors(spec, 'Out') | {'Out', 'In'}
    return {n: ps for n, ps in spec.items() if n in keep}


def main():
    n, seed = int(sys.argv[1]), int(sys.argv[2])
    allow_known = '--allow-known' in sys.argv
    rng = random.Random(seed)
    specs = []
    while len(specs) < n:
        s = random_spec(rng)
        if 'In' not in ancestors(s, 'Out'):
            continue
        f = features(s)
        if f and not allow_known:
            continue
        specs.append((f'rnd{seed}_{len(specs)} {sorted(f)}', s))
    E.acyclic_templates = lambda: specs
    E.schedules = lambda order: iter([{}, {x: 0.002 * (len(order) - i) for i, x in enumerate(order)}])
    asyncio.run(E.acyclic())
    by = collections.defaultdict(list)
    for f_ in E.FAILURES:
        by[(f_['property'], f_['template'])].append(f_)
    print(f'{E.N_CASES[0]} cases over {len(specs)} random specs, {len(E.FAILURES)} failures in {len({t for _p, t in by})} specs')
    shown = set()
    for (p, t), fs in sorted(by.items()):
        spec = dict(specs)[t]
        if t not in shown:
            shown.add(t)
            print('\nSPEC', t, json.dumps({k: ('RAW' if v is RAW else v) for k, v in spec.items()}))
        print('  ', p, len(fs), 'x e.g.', fs[0]['case'], '|', str(fs[0]['observed'])[:160], '| expected', str(fs[0]['expected'])[:100])


if __name__ == '__main__':
    main()
