"""
Contracts for chart.py, dag/dag.py, context creation and the pool registries (C05, C07, C08, C14, C17).
"""
import z3
from pyvc.values import FA

from pyvc.contract import Contract, ExcCase, LoopSpec, contract, A, same_value
from pyvc.interp import CallArgs, attr_fn
from pyvc.state import SymMap, SymSet, SymSeq
from pyvc.values import (PyV, NONE, TRUE, FALSE, SymV, SymB, SymI, SymS, Ref, lift, lower, as_z3, subcls, LATTICE,
                         mk_str, truthy_term, IntS, BoolS, ClsRef)

from .shapes import (new_ctx, new_dag, new_obj, T, B, CTX_CLS, DAG_CLS, CHART_CLS, MV, GV, _new_ctx)
from .collab import user_calls, calls
from .manager_coro import (is_exception, graph_wf, switch_wf, base_requires, inv_no_result_for_switch, input_kwargs_wf,
                           EXC, CANCELLED)

CHART_PY = 'ml_pipeline_engine/chart.py'
DAG_PY = 'ml_pipeline_engine/dag/dag.py'
CONTEXT_PY = 'ml_pipeline_engine/context/dag.py'
THREADS_PY = 'ml_pipeline_engine/parallelism/threads.py'
PROCESSES_PY = 'ml_pipeline_engine/parallelism/processes.py'
BASIC_PY = 'ml_pipeline_engine/parallelism/basic.py'
RUNTIME = LATTICE.codes['RuntimeError']


def new_chart(it):
    st = it.st
    dag = new_dag(it)
    ch = new_obj(it, CHART_CLS, model_name=SymV(st.fresh_val('model_name')), entrypoint=dag,
                 artifact_store=SymV(st.fresh_val('store_cls')), event_managers=st.alloc('list', items=SymSeq.fresh(st, 'mgr_classes')))
    st.setf(ch, '__frozen__', True)
    return ch


# ======================================================================================
# context creation
# ======================================================================================
@contract
class CreateContext(Contract):
    path = CONTEXT_PY
    name = 'create_context_from_chart'
    returns = 'val'
    props = ('C14', 'C07', 'C08')
    doc = ('a fresh DAGPipelineContext per call, holding the given chart, pipeline id, the caller\'s input_kwargs object and '
           'meta, a store instance and fresh event-manager instances')

    def setup(self, it):
        st = it.st
        ch = new_chart(it)
        ik = st.alloc('dict', map=SymMap.fresh(st, 'input_kwargs'))
        return None, CallArgs([], dict(chart=ch, input_kwargs=ik, pipeline_id=SymV(st.fresh_val('pipeline_id')),
                                       meta=SymV(st.fresh_val('meta'))))

    def requires(self, it, pre, a):
        return [('caller-passes-a-pipeline-id (uuid generation is not modelled)', T(a.pipeline_id, it.st) != NONE),
                ('caller-passes-meta', T(a.meta, it.st) != NONE)]

    def raises(self, it, pre, a):
        return [ExcCase('collaborator-constructor-raised', None, may=True)]

    def ensures(self, it, pre, post, a, res):
        st = it.st
        ok = isinstance(res, Ref) and res.cls == CTX_CLS and res.id not in pre.heap
        out = [('a-fresh-context-object|C08', ok)]
        if ok:
            g = lambda f: post.getf(res, f)
            out += [('holds-the-chart', g('chart').id == a.chart.id),
                    ('holds-the-callers-input-dictionary-itself|C03,C07', isinstance(g('input_kwargs'), Ref) and g('input_kwargs').id == a.input_kwargs.id),
                    ('holds-pipeline-id-and-meta', z3.And(T(g('pipeline_id'), st) == T(a.pipeline_id, st), T(g('meta'), st) == T(a.meta, st))),
                    ('has-a-store-instance|C19', T(g('artifact_store'), st) != NONE)]
        return out

    def make_result(self, it, pre, a):
        st = it.st
        ems = st.alloc('list', items=SymSeq.fresh(st, 'event_managers'))
        store = st.fresh_val('store')
        st.assume(store != NONE)
        ik = a.input_kwargs if isinstance(a.input_kwargs, Ref) else st.alloc('dict', map={})
        ctx = _new_ctx(it, st, ik, ems, store)
        st.setf(ctx, 'chart', a.chart)
        st.setf(ctx, 'pipeline_id', a.pipeline_id)
        st.setf(ctx, 'meta', a.meta)
        st.emit('alloc', obj=ctx, cls='DAGPipelineContext')
        return ctx


# ======================================================================================
# pool registries
# ======================================================================================
def new_registry(it, path, hint):
    st = it.st
    ci = it.repo.klass(path, 'PoolExecutorRegistry')
    return new_obj(it, ci.key, _pool_executor=SymV(st.fresh_val(hint + '_pool')),
                   _process_manager=SymV(st.fresh_val(hint + '_manager')))


@contract
class ThreadsIsReady(Contract):
    path = THREADS_PY
    name = 'PoolExecutorRegistry.is_ready'
    returns = 'none'
    props = ('C17',)
    doc = 'raises RuntimeError iff no thread pool is registered or it has been shut down; read-only'

    def setup(self, it):
        return new_registry(it, THREADS_PY, 'thr'), CallArgs()

    def _not_ready(self, pre, a, st):
        ex = T(pre.getf(a.self, '_pool_executor'), st)
        return z3.Or(z3.Not(truthy_term(ex)), truthy_term(attr_fn('_shutdown')(ex)))

    def raises(self, it, pre, a):
        return [ExcCase('not-ready', 'RuntimeError', when=self._not_ready(pre, a, it.st))]


@contract
class ProcessesIsReady(Contract):
    path = PROCESSES_PY
    name = 'PoolExecutorRegistry.is_ready'
    returns = 'none'
    props = ('C17',)
    doc = 'raises RuntimeError iff no process pool / manager is registered or the pool has been shut down; read-only'

    def setup(self, it):
        return new_registry(it, PROCESSES_PY, 'proc'), CallArgs()

    def _not_ready(self, pre, a, st):
        ex = T(pre.getf(a.self, '_pool_executor'), st)
        mg = T(pre.getf(a.self, '_process_manager'), st)
        return z3.Or(z3.Not(truthy_term(ex)), truthy_term(attr_fn('_shutdown_thread')(ex)), z3.Not(truthy_term(mg)))

    def raises(self, it, pre, a):
        return [ExcCase('not-ready', 'RuntimeError', when=self._not_ready(pre, a, it.st))]


@contract
class GetPoolExecutor(Contract):
    path = BASIC_PY
    name = 'PoolExecutorRegistry.get_pool_executor'
    returns = 'val'
    inline_at_calls = True
    props = ('C17',)
    doc = 'returns the registered executor after the readiness check of the concrete registry'

    def setup(self, it):
        which = it.st.choose([True, True], 'registry-kind')
        return new_registry(it, THREADS_PY if which == 0 else PROCESSES_PY, 'reg'), CallArgs()

    def raises(self, it, pre, a):
        return [ExcCase('not-ready', 'RuntimeError', may=True)]

    def ensures(self, it, pre, post, a, res):
        return [('the-registered-executor', T(res, it.st) == T(pre.getf(a.self, '_pool_executor'), it.st))]

    def effects_spec(self, it, pre, post, a, outcome, value, effects):
        rd = calls(effects, 'is_ready')
        return [('readiness-checked-first', len(rd) == 1),
                ('not-ready-propagates', (rd[0].exc is not None) == (outcome == 'raise') if rd else False)]


@contract
class RegisterPoolExecutor(Contract):
    path = BASIC_PY
    name = 'PoolExecutorRegistry.register_pool_executor'
    returns = 'none'
    props = ('C17',)
    doc = 'first registration wins; later ones are ignored'

    def setup(self, it):
        return new_registry(it, THREADS_PY, 'reg'), CallArgs([SymV(it.st.fresh_val('new_pool'))])

    def modifies(self, it, pre, a):
        return [(a.self, '_pool_executor')]

    def ensures(self, it, pre, post, a, res):
        st = it.st
        old = T(pre.getf(a.self, '_pool_executor'), st)
        return [('first-registration-wins', T(post.getf(a.self, '_pool_executor'), st) == z3.If(
            truthy_term(old), old, T(a.pool_executor, st)))]


# ======================================================================================
# DAG.run
# ======================================================================================
def registries_of(it):
    regs = it.st.ghost.get('globals', {})
    proc = [v for (m, _d), v in regs.items() if m.endswith('parallelism.processes') and isinstance(v, Ref)]
    thr = [v for (m, _d), v in regs.items() if m.endswith('parallelism.threads') and isinstance(v, Ref)]
    return (thr[0] if thr else None), (proc[0] if proc else None)


@contract
class DagRun(Contract):
    path = DAG_PY
    name = 'DAG.run'
    returns = 'val'
    yields = True
    props = ('C17', 'C07', 'C08', 'C05', 'C01', 'C13')
    doc = ('validates the pools it needs before anything else; then runs a fresh manager for (self, ctx); nothing '
           'reachable from the DAG or the caller\'s input_kwargs is modified')

    def setup(self, it):
        from pyvc.libmodels import new_world
        new_world(it)
        return new_dag(it), CallArgs([new_ctx(it)])

    def requires(self, it, pre, a):
        m = FakeMV(pre, a.self, a.ctx)
        return [('graph-well-formed', graph_wf(m)), ('switch-nodes-well-formed', switch_wf(m)),
                ('end-points-in-graph', z3.And(m.G.node(m.input), m.G.node(m.output))),
                ('the-input-node-is-no-one-of-candidate', z3.Not(m.G.is_child(m.input))),
                ('input-kwargs-do-not-use-engine-names', input_kwargs_wf(m))]

    def raises(self, it, pre, a):
        return [ExcCase('pool-missing-or-run-failed-or-cancelled', None, may=True)]

    def modifies(self, it, pre, a):
        # the event loop's task table (not part of the DAG, the chart or the caller's data)
        w = it.st.ghost.get('world')
        return [(w, '*')] if w is not None else []

    def effects_spec(self, it, pre, post, a, outcome, value, effects):
        st = it.st
        out = []
        need_thr, need_proc = B(pre.getf(a.self, 'is_thread_pool_needed')), B(pre.getf(a.self, 'is_process_pool_needed'))
        checks = calls(effects, 'is_ready')
        allocs = [e for e in effects if e.kind == 'alloc' and e.cls == 'DAGRunConcurrentManager']
        runs = calls(effects, 'DAGRunConcurrentManager.run')
        first_work = min([effects.index(e) for e in allocs + runs] or [len(effects)])
        out.append(('pool-validation-precedes-the-manager|C17', all(effects.index(c) < first_work for c in checks)))
        thr_checks = [c for c in checks if c.a.self.cls.startswith('ml_pipeline_engine/parallelism/threads.py')]
        proc_checks = [c for c in checks if c.a.self.cls.startswith('ml_pipeline_engine/parallelism/processes.py')]
        failed = [c for c in checks if c.exc is not None]
        if not failed:
            out.append(('thread-pool-validated-iff-needed|C17', need_thr if thr_checks else z3.Not(need_thr)))
            out.append(('process-pool-validated-iff-needed|C17', need_proc if proc_checks else z3.Not(need_proc)))
        else:
            out.append(('a-missing-pool-fails-before-anything-runs|C17', not allocs and not runs and outcome == 'raise'
                        and z3.simplify(value.t == failed[0].exc.t)))
            return out
        if outcome == 'raise' and not allocs and not runs:
            return out      # the call ended before any manager existed: nothing of C07/C08 to say about this path
        ok = len(allocs) == 1 and len(runs) == 1
        out.append(('a-fresh-manager-per-run|C08', ok))
        if ok:
            mgr = runs[0].a.self
            out.append(('the-manager-that-runs-is-the-fresh-one|C08', mgr.id == allocs[0].obj.id))
            snap = runs[0].pre_call
            mdag = snap.getf(mgr, 'dag')
            out.append(('manager-gets-this-context|C08', snap.getf(mgr, 'ctx').id == a.ctx.id))
            # C07 / C08: the graph the run writes to (is_oneof_child, additional_data) must be the run's own
            g = snap.getf(mdag, 'graph')
            out.append(('the-run-gets-a-private-copy-of-the-graph|C07,C08', g.id not in pre.heap))
            out.append(('the-run-sees-the-same-pipeline|C01', z3.And(
                T(snap.getf(mdag, 'input_node'), st) == T(pre.getf(a.self, 'input_node'), st),
                T(snap.getf(mdag, 'output_node'), st) == T(pre.getf(a.self, 'output_node'), st),
                z3.BoolVal(snap.getf(mdag, 'node_map').id == pre.getf(a.self, 'node_map').id))))
            if runs[0].exc is None:
                out.append(('returns-the-manager-result|C01', outcome == 'return' and z3.simplify(T(value, st) == T(runs[0].res, st))))
            else:
                out.append(('manager-failure-propagates-unchanged|C05', outcome == 'raise' and z3.simplify(value.t == runs[0].exc.t)))
        return out


class FakeMV:
    """the manager view a DAG.run call will construct (dag + ctx), for stating preconditions"""

    def __init__(self, snap, dag, ctx):
        self.snap = snap
        self.G = GV(snap, snap.getf(dag, 'graph'))
        self.input = T(snap.getf(dag, 'input_node'), snap.state)
        self.output = T(snap.getf(dag, 'output_node'), snap.state)
        self.node_map = snap.getf(snap.getf(dag, 'node_map'), 'map')
        ik = ctx.ik if isinstance(ctx, _CtxLike) else snap.getf(ctx, 'input_kwargs')
        self.input_kwargs = snap.getf(ik, 'map')
        if not isinstance(self.input_kwargs, SymMap):
            sm = SymMap.empty()
            for k, v in self.input_kwargs.items():
                sm = sm.store(lift(k, snap.state), lift(v, snap.state))
            self.input_kwargs = sm


# ======================================================================================
# PipelineChart.run
# ======================================================================================
@contract
class ChartRun(Contract):
    path = CHART_PY
    name = 'PipelineChart.run'
    returns = 'val'
    yields = True
    props = ('C14', 'C05', 'C07', 'C08', 'C01', 'C13')
    doc = ('pipeline_start, the entry point, pipeline_complete carrying the very result that is returned; an Exception '
           'becomes an error result, anything else propagates; chart, DAG and the caller\'s input_kwargs are not modified')
    options = {}

    def setup(self, it):
        st = it.st
        from pyvc.libmodels import new_world
        new_world(it)
        ch = new_chart(it)
        ik = st.alloc('dict', map=SymMap.fresh(st, 'input_kwargs'))
        self._ik = ik
        return ch, CallArgs([], dict(pipeline_id=SymV(st.fresh_val('pipeline_id')), input_kwargs=ik, meta=SymV(st.fresh_val('meta'))))

    def requires(self, it, pre, a):
        dag = pre.getf(a.self, 'entrypoint')
        ik = pre.getf(a.input_kwargs, 'map')
        m = FakeMV(pre, dag, _CtxLike(a.input_kwargs))
        return [('graph-well-formed', graph_wf(m)), ('switch-nodes-well-formed', switch_wf(m)),
                ('end-points-in-graph', z3.And(m.G.node(m.input), m.G.node(m.output))),
                ('the-input-node-is-no-one-of-candidate', z3.Not(m.G.is_child(m.input))),
                ('input-kwargs-do-not-use-engine-names', input_kwargs_wf(m)),
                ('caller-passes-a-pipeline-id (uuid generation is not modelled)', T(a.pipeline_id, it.st) != NONE)]

    def raises(self, it, pre, a):
        return [ExcCase('non-Exception-or-manager-failure', None, may=True)]

    def modifies(self, it, pre, a):
        w = it.st.ghost.get('world')
        return [(w, '*')] if w is not None else []

    def effects_spec(self, it, pre, post, a, outcome, value, effects):
        st = it.st
        out = []
        ctxs = calls(effects, 'create_context_from_chart')
        starts = calls(effects, 'emit_on_pipeline_start')
        completes = calls(effects, 'emit_on_pipeline_complete')
        runs = calls(effects, 'DAG.run')
        ok = len(ctxs) == 1
        out.append(('one-context-per-run|C08', ok))
        if not ok:
            return out
        c = ctxs[0]
        if c.exc is not None:
            return out + [('collaborator-constructor-failure-propagates', outcome == 'raise')]
        out.append(('context-holds-this-chart-and-the-callers-input|C03,C07', (c.a.chart is a.self or c.a.chart.id == a.self.id)
                    and isinstance(c.a.input_kwargs, Ref) and c.a.input_kwargs.id == a.input_kwargs.id))
        managers_ok = all(e.exc is None for e in starts + completes)
        out.append(('pipeline_start-exactly-once|C14', len(starts) == 1))
        if starts and starts[0].exc is not None:
            return out + [('event-manager-failure-propagates', outcome == 'raise')]
        ok = len(runs) == 1 and bool(starts) and effects.index(starts[0]) < effects.index(runs[0])
        out.append(('entry-point-runs-once-after-pipeline_start|C14', ok))
        if not ok:
            return out
        r = runs[0]
        out.append(('entry-point-is-the-charts-dag-with-the-fresh-context|C08', r.a.self.id == pre.getf(a.self, 'entrypoint').id
                    and r.a.ctx.id == c.res.id))
        if r.exc is not None and outcome == 'raise' and managers_ok:
            e = r.exc.t
            out.append(('only-non-Exception-failures-escape|C05', z3.And(value.t == e, z3.Not(is_exception(e)))))
            out.append(('no-pipeline_complete-for-an-escaping-BaseException|C14', not completes))
            return out
        ok = len(completes) >= 1 and effects.index(completes[0]) > effects.index(r)
        out.append(('pipeline_complete-after-the-entry-point-finished|C14', ok))
        if not ok:
            return out
        if managers_ok:
            out.append(('pipeline_complete-exactly-once|C14', len(completes) == 1))
            out.append(('run-returns-a-result-when-managers-do-not-raise|C05', outcome == 'return'))
        if outcome == 'return' and isinstance(value, Ref):
            res_obj = completes[-1].a.result
            out.append(('pipeline_complete-carries-the-returned-result|C14', isinstance(res_obj, Ref) and res_obj.id == value.id))
            val, err = T(post.getf(value, 'value'), st), T(post.getf(value, 'error'), st)
            out.append(('result-carries-the-pipeline-id|C14', T(post.getf(value, 'pipeline_id'), st) == T(a.pipeline_id, st)))
            if not managers_ok:
                pass
            elif r.exc is None:
                out.append(('value-result-is-the-entry-point-value-with-no-error|C01,C05', z3.And(val == T(r.res, st), err == NONE)))
            else:
                e = r.exc.t
                out.append(('error-result-carries-the-very-exception-that-ended-the-run|C05', z3.And(err == e, val == NONE)))
                out.append(('only-Exceptions-become-error-results|C05', is_exception(e)))
        elif outcome == 'return':
            out.append(('returns-a-PipelineResult|C05', False))
        return out


class _CtxLike:
    def __init__(self, ik):
        self.ik = ik


# ======================================================================================
# DAGPipelineContext.__init__ (replaces the assumed summary of context creation)
# ======================================================================================
@contract
class ContextInit(Contract):
    path = CONTEXT_PY
    name = 'DAGPipelineContext.__init__'
    returns = 'none'
    props = ('C14', 'C07', 'C08', 'C19')
    doc = ('the context holds the given chart, pipeline id, the caller\'s input_kwargs object and meta; one store instance built '
           'from the chart\'s store class (NoOp by default) for this context; one fresh event-manager instance per manager class')

    def setup(self, it):
        st = it.st
        ch = new_chart(it)
        ctx = new_obj(it, CTX_CLS)
        ik = st.alloc('dict', map=SymMap.fresh(st, 'input_kwargs'))
        return ctx, CallArgs([], dict(chart=ch, pipeline_id=SymV(st.fresh_val('pipeline_id')), input_kwargs=ik,
                                      meta=SymV(st.fresh_val('meta'))))

    def requires(self, it, pre, a):
        return [('caller-passes-a-pipeline-id (uuid generation is not modelled)', T(a.pipeline_id, it.st) != NONE),
                ('caller-passes-meta', T(a.meta, it.st) != NONE)]

    def raises(self, it, pre, a):
        return [ExcCase('collaborator-constructor-raised', None, may=True)]

    def modifies(self, it, pre, a):
        return [(a.self, '*')]

    def ensures(self, it, pre, post, a, res):
        st = it.st
        g = lambda f: post.getf(a.self, f)
        ems = g('_event_managers')
        classes = pre.getf(pre.getf(a.chart, 'event_managers'), 'items')
        return [('holds-the-chart', g('chart').id == a.chart.id),
                ('holds-the-callers-input-dictionary-itself|C03,C07', isinstance(g('input_kwargs'), Ref) and g('input_kwargs').id == a.input_kwargs.id),
                ('holds-pipeline-id-and-meta', z3.And(T(g('pipeline_id'), st) == T(a.pipeline_id, st), T(g('meta'), st) == T(a.meta, st))),
                ('one-event-manager-instance-per-manager-class|C14', isinstance(ems, Ref) and z3.simplify(
                    post.getf(ems, 'items').len == classes.len))]

    def apply_at_call(self, it, fi, self_val, ca):
        # constructor: the fields do not exist before the call; allocate them as the postcondition describes
        st = it.st
        a = self.bind(it, fi, self_val, ca)
        pre = st.snapshot()
        for n, f in self.requires(it, pre, a):
            st.oblige(f'{it.call_stack[-1] if it.call_stack else "<entry>"}#call:{self.name}.pre[{n}]', f)
            st.assume(as_z3(f))
        if st.choose([True, True], f'call:{self.name}') == 1:
            exc = SymV(PyV.exc(st.fresh_int('ecls'), st.fresh_int('eid')))
            st.assume(PyV.eid(exc.t) >= 0)
            from pyvc.interp import PyRaise
            raise PyRaise(exc, 'collaborator constructor raised')
        classes = st.getf(st.getf(a.chart, 'event_managers'), 'items')
        ems_items = SymSeq.fresh(st, 'event_managers')
        st.assume(ems_items.len == (classes.len if isinstance(classes, SymSeq) else len(classes)))
        store = st.fresh_val('store')
        st.assume(store != NONE)
        for k, v in dict(chart=a.chart, pipeline_id=a.pipeline_id, input_kwargs=a.input_kwargs, meta=a.meta,
                         artifact_store=SymV(store), _event_managers=st.alloc('list', items=ems_items)).items():
            st.setf(self_val, k, v)
        st.emit('call', fn=self.name, a=a, res=None, exc=None, pre=pre, post=st.snapshot(), case=None, pre_call=pre)
        return None

    def effects_spec(self, it, pre, post, a, outcome, value, effects):
        st = it.st
        ucs = user_calls(effects)
        out = []
        if outcome == 'return':
            store_cls = T(pre.getf(a.chart, 'artifact_store'), st)
            noop = [e for e in effects if e.kind == 'alloc' and e.cls == 'NoOpArtifactStore']
            ok = len(ucs) == 1 and not noop
            if not ucs:
                out.append(('the-default-store-is-used-only-when-the-chart-names-none|C19', z3.And(
                    z3.BoolVal(len(noop) == 1), z3.Not(truthy_term(store_cls)))))
            else:
                out.append(('one-store-instance-per-context|C19,C08', ok))
            if ok:
                out.append(('store-built-from-the-charts-store-class-with-this-context|C19', z3.And(
                    z3.Or(T(ucs[0].fn, st) == store_cls, T(ucs[0].fn, st) == attr_fn('default_factory')(store_cls)),
                    z3.BoolVal(ucs[0].kwargs.get('ctx') is a.self or getattr(ucs[0].kwargs.get('ctx'), 'id', None) == a.self.id))))
            over = [e for e in effects if e.kind == 'user_calls_over']
            out.append(('event-managers-instantiated-from-the-charts-manager-classes|C14', len(over) == 1))
        return out
