"""
Shape conformance: the contracts of the methods of a class are verified from a hand-written *shape* of its instances
(contracts/shapes.py: which fields exist and what kind of container each one is).  These lemmas run the class's real
constructor (the `__init__`, or the one `@dataclass` generates from the field declarations: defaults, default_factory,
`__post_init__`) symbolically and compare the object it builds with the shape: every field of the shape must exist and be
of the same kind.  A constructor that starts to build something else (a set that becomes a dict or a WeakSet, a list that
becomes a dict) is then a failed — or, if the new container has no model, undecided — obligation of every property
that relies on the shape, instead of going unnoticed.
"""
from pyvc.contract import lemma, Lemma
from pyvc.interp import CallArgs
from pyvc.state import SymMap, SymSeq, SymSet
from pyvc.values import ClsRef, Ref, SymV, Unsupported

from . import shapes
from .builder import BUILDER, new_builder


def kind_of(st, v):
    if isinstance(v, Ref):
        return f'object:{v.cls}'
    if isinstance(v, (SymMap, dict)):
        return 'map'
    if isinstance(v, (SymSet, frozenset, set)):
        return 'set'
    if isinstance(v, (SymSeq, tuple, list)):
        return 'seq'
    return 'value'


def compare(it, shape_obj, real_obj, path, out, depth=0):
    st = it.st
    for f, sv in st.heap[shape_obj.id].items():
        if f.startswith('__') or f.startswith(('g_', 'na:', 'ea:')):
            continue
        if f not in st.heap[real_obj.id]:
            raise Unsupported(f'{path}.{f}: the constructor no longer creates this field (renamed or removed): the shape the '
                              f'method contracts start from is out of date')
        rv = st.heap[real_obj.id][f]
        ks, kr = kind_of(st, sv), kind_of(st, rv)
        if ks == 'value' or kr == 'value':
            continue            # scalars / opaque values: nothing about the representation
        if ks != kr:
            # a changed representation is not by itself a violation (the methods may have been adapted with it): the
            # contracts that assume the old one cannot decide, a bounded stand-in may
            raise Unsupported(f'{path}.{f}: the constructor builds a {kr.split(":")[-1].split("::")[-1]}, the contracts of the methods '
                              f'assume a {ks.split(":")[-1].split("::")[-1]}')
        out.append((f'{path}.{f}: {ks.split(":")[-1].split("::")[-1]}', True))
        if ks == kr and isinstance(sv, Ref) and isinstance(rv, Ref) and '::' in sv.cls and depth < 2:
            compare(it, sv, rv, f'{path}.{f}', out, depth + 1)


class ShapeLemma(Lemma):
    cls_key = None
    file = None

    @property
    def key(self):
        return f'{self.file}::{self.cls_key.split("::")[-1]}#constructor'

    def build_shape(self, it):
        raise NotImplementedError

    def construct(self, it, shape):
        raise NotImplementedError

    def obligations(self, it):
        shape = self.build_shape(it)
        real = self.construct(it, shape)
        if not isinstance(real, Ref):
            raise Unsupported(f'constructor of {self.cls_key} returned {real!r}')
        out = []
        compare(it, shape, real, self.cls_key.split('::')[-1], out)
        if not out:
            out.append(('shape-has-fields', False))
        return out

    def _cls(self, it):
        path, name = self.cls_key.split('::')
        return ClsRef(self.cls_key, it.repo.klass(path, name))


ENGINE_PROPS = ('C01', 'C02', 'C03', 'C04', 'C05', 'C06', 'C09', 'C10', 'C11', 'C12', 'C13', 'C14', 'C19')


@lemma
class ManagerShape(ShapeLemma):
    name = 'shape:DAGRunConcurrentManager-as-its-constructor-builds-it'
    props = ENGINE_PROPS + ('C07', 'C08')
    cls_key, file = shapes.MGR, shapes.MANAGER_PY
    doc = 'DAGRunConcurrentManager(ctx=, dag=): storage, lock manager, memo dict and task registry are what the method contracts assume'

    def build_shape(self, it):
        return shapes.new_manager(it)

    def construct(self, it, shape):
        st = it.st
        return it.instantiate(self._cls(it), CallArgs([], dict(ctx=st.getf(shape, 'ctx'), dag=st.getf(shape, 'dag'))))


@lemma
class StorageShape(ShapeLemma):
    name = 'shape:DAGNodeStorage-as-its-constructor-builds-it'
    props = ENGINE_PROPS
    cls_key, file = shapes.STORAGE, shapes.STORAGE_PY
    doc = 'DAGNodeStorage(): five HiddenDicts (a mapping plus a set of hidden keys each)'

    def build_shape(self, it):
        return shapes.new_storage(it)

    def construct(self, it, shape):
        return it.instantiate(self._cls(it), CallArgs())


@lemma
class BuilderShape(ShapeLemma):
    name = 'shape:AnnotationDAGBuilder-as-its-constructor-builds-it'
    props = ('C15', 'C16', 'C17')
    cls_key, file = BUILDER, 'ml_pipeline_engine/dag_builders/annotation/builder.py'
    doc = 'AnnotationDAGBuilder(): a graph, a node map (dict), the recurrent pairs (list), the synthetic nodes (list)'

    def build_shape(self, it):
        return new_builder(it)

    def construct(self, it, shape):
        return it.instantiate(self._cls(it), CallArgs())
