"""
Contracts for ml_pipeline_engine/dag/storage.py — data structure against an abstract view
(DESIGN §3.1).  HiddenDict ↦ (data: Key ⇀ Val, hidden: Set[Key]); DAGNodeStorage ↦ five such views.
Every postcondition is stated over the *whole* view, and every method has a frame clause.
"""
import z3
from pyvc.values import FA

from pyvc.contract import Contract, ExcCase, LoopSpec, contract
from pyvc.interp import CallArgs
from pyvc.state import SymMap, SymSet, SymSeq
from pyvc.values import PyV, NONE, TRUE, FALSE, SymV, SymB, SymI, lift, lower, as_z3, subcls, LATTICE

from .shapes import (STORAGE_PY, HD, STORAGE, STORAGE_FIELDS, new_hidden_dict, new_storage, HDView, StorageView, T, B)

ALL_NODE_PROPS = ('C01', 'C03', 'C04', 'C09', 'C10', 'C11', 'C19')


# ======================================================================================
# HiddenDict
# ======================================================================================
def _arg_terms(a, st, skip=('self', 'seq', 'node_ids')):
    out = {}
    for name, val in vars(a).items():
        if name in skip:
            continue
        try:
            out[name] = T(val, st)
        except Exception:
            pass
    return out


def _hd_state(model, v, keys):
    from pyvc.concretize import map_to_json, set_to_json
    return {'data': map_to_json(model, v.data, keys), 'hidden': set_to_json(model, v.hidden, keys)}


class HDContract(Contract):
    path = STORAGE_PY
    props = ALL_NODE_PROPS

    def hd(self, snap, a):
        return HDView(snap, a.self)

    def witness(self, model, ctx):
        from pyvc.concretize import universe, to_json, ev
        pre, a = ctx['pre'], ctx['a']
        st = ctx['it'].st
        args = _arg_terms(a, st)
        keys = universe(model, extra=list(args.values()))
        return {'kind': 'storage', 'cls': 'HiddenDict', 'method': self.name.split('.')[1],
                'args': {k: to_json(ev(model, t)) for k, t in args.items()},
                'state': {'self': _hd_state(model, self.hd(pre, a), keys)}}


@contract
class HiddenDict_init(HDContract):
    name = 'HiddenDict.__init__'
    returns = 'none'

    def setup(self, it):
        from .shapes import new_obj
        obj = new_obj(it, HD)
        return obj, CallArgs()

    def bind(self, it, fi, self_val, ca):
        from pyvc.contract import A
        return A(self=self_val, args=tuple(ca.args), kwargs=dict(ca.kwargs))

    def requires(self, it, pre, a):
        return [('no-initial-data', not a.args and not a.kwargs)]

    def modifies(self, it, pre, a):
        return [(a.self, '*')]

    def ensures(self, it, pre, post, a, res):
        v = HDView(post, a.self)
        k = z3.Const('k', PyV)
        return [('empty', FA([k], z3.And(z3.Not(v.data.has(k)), z3.Not(v.hidden.contains(k)))))]

    def apply_at_call(self, it, fi, self_val, ca):
        # constructor: allocate the fields (they do not exist before the call)
        st = it.st
        hk = st.alloc('set', elems=frozenset())
        st.setf(self_val, 'data', SymMap.empty())
        st.setf(self_val, '_hidden_keys', hk)
        st.emit('call', fn=self.name, a=None, res=None, exc=None, pre=None, post=None, case=None)
        return None


@contract
class HiddenDict_get(HDContract):
    name = 'HiddenDict.get'
    returns = 'val'

    def setup(self, it):
        st = it.st
        return new_hidden_dict(it, 'hd'), CallArgs([SymV(st.fresh_val('key')), SymB(st.fresh_bool('wh'))])

    def result_term(self, it, pre, a):
        return self.hd(pre, a).get(T(a.key, it.st), B(a.with_hidden))

    def ensures(self, it, pre, post, a, res):
        return [('result', T(res, it.st) == self.result_term(it, pre, a))]


@contract
class HiddenDict_exists(HDContract):
    name = 'HiddenDict.exists'
    returns = 'bool'

    def setup(self, it):
        st = it.st
        return new_hidden_dict(it, 'hd'), CallArgs([SymV(st.fresh_val('key')), SymB(st.fresh_bool('wh'))])

    def result_term(self, it, pre, a):
        return self.hd(pre, a).exists(T(a.key, it.st), B(a.with_hidden))

    def ensures(self, it, pre, post, a, res):
        return [('result', B(res) == self.result_term(it, pre, a))]


@contract
class HiddenDict_set(HDContract):
    name = 'HiddenDict.set'
    returns = 'none'

    def setup(self, it):
        st = it.st
        return new_hidden_dict(it, 'hd'), CallArgs([SymV(st.fresh_val('key')), SymV(st.fresh_val('value'))])

    def modifies(self, it, pre, a):
        return self.hd(pre, a).locs()

    def ensures(self, it, pre, post, a, res):
        v0, v1 = self.hd(pre, a), self.hd(post, a)
        k, val = T(a.key, it.st), T(a.value, it.st)
        return [('data', v1.data.eq(v0.data.store(k, val))),
                ('unhidden', v1.hidden.mem == v0.hidden.remove(k).mem)]


@contract
class HiddenDict_hide(HDContract):
    name = 'HiddenDict.hide'
    returns = 'none'

    def setup(self, it):
        return new_hidden_dict(it, 'hd'), CallArgs([SymV(it.st.fresh_val('key'))])

    def modifies(self, it, pre, a):
        return [(self.hd(pre, a).hidden_ref, 'elems')]

    def ensures(self, it, pre, post, a, res):
        v0, v1 = self.hd(pre, a), self.hd(post, a)
        return [('hidden', v1.hidden.mem == v0.hidden.add(T(a.key, it.st)).mem),
                ('data-unchanged', v1.data.eq(v0.data))]


@contract
class HiddenDict_delete(HDContract):
    name = 'HiddenDict.delete'
    returns = 'none'

    def setup(self, it):
        return new_hidden_dict(it, 'hd'), CallArgs([SymV(it.st.fresh_val('key'))])

    def modifies(self, it, pre, a):
        return [(a.self, 'data')]

    def ensures(self, it, pre, post, a, res):
        v0, v1 = self.hd(pre, a), self.hd(post, a)
        return [('removed', v1.data.same_view(v0.data.drop(T(a.key, it.st)))),
                ('hidden-unchanged', v1.hidden.mem == v0.hidden.mem)]

    def raises(self, it, pre, a):
        v0 = self.hd(pre, a)
        return [ExcCase('absent', 'KeyError', when=z3.Not(v0.data.has(T(a.key, it.st))), modifies=lambda it_, p, a_: [],
                        ensures=lambda post, exc: [])]


# ======================================================================================
# DAGNodeStorage
# ======================================================================================
class StContract(Contract):
    path = STORAGE_PY
    props = ALL_NODE_PROPS
    field = None            # which HiddenDict the method acts on

    def sv(self, snap, a):
        return StorageView(snap, a.self)

    def witness(self, model, ctx):
        from pyvc.concretize import universe, to_json, ev, seq_to_json
        pre, a = ctx['pre'], ctx['a']
        st = ctx['it'].st
        args = _arg_terms(a, st)
        extra = list(args.values())
        w = {'kind': 'storage', 'cls': 'DAGNodeStorage', 'method': self.name.split('.')[1]}
        if hasattr(a, 'seq'):
            w['seq'] = seq_to_json(model, a.seq)
            from pyvc.concretize import from_json
            extra += [from_json(j) for j in w['seq']]
        else:
            w['args'] = {k: to_json(ev(model, t)) for k, t in args.items()}
        vals = list(extra)
        extra = extra + [PyV.tup2(x, y) for x in vals for y in vals]      # the (source, dest) marker keys
        keys = universe(model, extra=extra)
        s = self.sv(pre, a)
        w['state'] = {f: _hd_state(model, getattr(s, f), keys) for f in STORAGE_FIELDS}
        return w

    def fresh(self, it, *kinds):
        st = it.st
        out = []
        for k in kinds:
            out.append(SymV(st.fresh_val('x')) if k == 'v' else SymB(st.fresh_bool('wh')))
        return out


def _getter(name_, field_, props_=ALL_NODE_PROPS):
    class C(StContract):
        name = f'DAGNodeStorage.{name_}'
        returns = 'val'
        field = field_
        props = props_

        def setup(self, it):
            return new_storage(it), CallArgs(self.fresh(it, 'v', 'b'))

        def result_term(self, it, pre, a):
            return getattr(self.sv(pre, a), self.field).get(T(a.node_id, it.st), B(a.with_hidden))

        def ensures(self, it, pre, post, a, res):
            return [('result', T(res, it.st) == self.result_term(it, pre, a))]
    C.__name__ = f'Storage_{name_}'
    return contract(C)


def _exists(name_, field_):
    class C(StContract):
        name = f'DAGNodeStorage.{name_}'
        returns = 'bool'
        field = field_

        def setup(self, it):
            return new_storage(it), CallArgs(self.fresh(it, 'v', 'b'))

        def result_term(self, it, pre, a):
            return getattr(self.sv(pre, a), self.field).exists(T(a.node_id, it.st), B(a.with_hidden))

        def ensures(self, it, pre, post, a, res):
            return [('result', B(res) == self.result_term(it, pre, a))]
    C.__name__ = f'Storage_{name_}'
    return contract(C)


def _setter(name_, field_, value_of):
    class C(StContract):
        name = f'DAGNodeStorage.{name_}'
        returns = 'none'
        field = field_

        def setup(self, it):
            n = 2 if value_of is None else 1
            return new_storage(it), CallArgs(self.fresh(it, *(['v'] * n)))

        def modifies(self, it, pre, a):
            return getattr(self.sv(pre, a), self.field).locs()

        def ensures(self, it, pre, post, a, res):
            s0, s1 = self.sv(pre, a), self.sv(post, a)
            v0, v1 = getattr(s0, self.field), getattr(s1, self.field)
            k = T(a.node_id, it.st)
            val = T(a.data, it.st) if value_of is None else value_of
            return [('data', v1.data.eq(v0.data.store(k, val))),
                    ('unhidden', v1.hidden.mem == v0.hidden.remove(k).mem),
                    ('others-unchanged', s1.others_same(s0, self.field))]
    C.__name__ = f'Storage_{name_}'
    return contract(C)


def _hider(name_, field_):
    class C(StContract):
        name = f'DAGNodeStorage.{name_}'
        returns = 'none'
        field = field_

        def setup(self, it):
            return new_storage(it), CallArgs(self.fresh(it, 'v'))

        def modifies(self, it, pre, a):
            return [(getattr(self.sv(pre, a), self.field).hidden_ref, 'elems')]

        def ensures(self, it, pre, post, a, res):
            s0, s1 = self.sv(pre, a), self.sv(post, a)
            v0, v1 = getattr(s0, self.field), getattr(s1, self.field)
            return [('hidden', v1.hidden.mem == v0.hidden.add(T(a.node_id, it.st)).mem),
                    ('data-unchanged', v1.data.eq(v0.data)),
                    ('others-unchanged', s1.others_same(s0, self.field))]
    C.__name__ = f'Storage_{name_}'
    return contract(C)


from pyvc.values import mk_int

_getter('get_node_result', 'node_results')
_getter('get_switch_result', 'switch_results')
_exists('exists_node_result', 'node_results')
_exists('exists_processed_node', 'processed_nodes')
_setter('set_node_result', 'node_results', None)
_setter('set_switch_result', 'switch_results', None)
_setter('set_node_as_processed', 'processed_nodes', mk_int(1))
_hider('hide_node_result', 'node_results')
_hider('hide_processed_node', 'processed_nodes')


@contract
class Storage_copy_node_result(StContract):
    name = 'DAGNodeStorage.copy_node_result'
    returns = 'none'

    def setup(self, it):
        return new_storage(it), CallArgs(self.fresh(it, 'v', 'v'))

    def modifies(self, it, pre, a):
        return self.sv(pre, a).R.locs()

    def ensures(self, it, pre, post, a, res):
        s0, s1 = self.sv(pre, a), self.sv(post, a)
        src, dst = T(a.from_node_id, it.st), T(a.to_node_id, it.st)
        return [('copied', s1.R.data.eq(s0.R.data.store(dst, s0.R.val(src)))),
                ('unhidden', s1.R.hidden.mem == s0.R.hidden.remove(dst).mem),
                ('others-unchanged', s1.others_same(s0, 'node_results'))]


@contract
class Storage_exists_node_error(StContract):
    name = 'DAGNodeStorage.exists_node_error'
    returns = 'bool'

    def setup(self, it):
        return new_storage(it), CallArgs(self.fresh(it, 'v', 'b'))

    def result_term(self, it, pre, a):
        return PyV.is_exc(self.sv(pre, a).R.get(T(a.node_id, it.st), B(a.with_hidden)))

    def ensures(self, it, pre, post, a, res):
        return [('result', B(res) == self.result_term(it, pre, a))]


@contract
class Storage_exists_result_type(StContract):
    """Left without a functional contract on purpose: it is inlined at its call shapes
    (concrete class tuples).  The clause below is the frame only."""
    name = 'DAGNodeStorage.exists_result_type'
    returns = 'bool'
    inline_at_calls = True

    def setup(self, it):
        from pyvc.values import ClsRef
        st = it.st
        rec = ClsRef('ml_pipeline_engine/types.py::Recurrent', it.repo.find_class('Recurrent'))
        return new_storage(it), CallArgs([SymV(st.fresh_val('n'))],
                                         dict(exclude_type=(rec,), exclude_none=SymB(st.fresh_bool('en')),
                                              with_hidden=SymB(st.fresh_bool('wh'))))

    def ensures(self, it, pre, post, a, res):
        r = self.sv(pre, a).R.get(T(a.node_id, it.st), B(a.with_hidden))
        return [('oneof-shape', B(res) == z3.And(z3.Not(z3.And(B(a.exclude_none), PyV.is_none(r))),
                                                 z3.Not(PyV.is_rec(r))))]


def _pair(a, it):
    return PyV.tup2(T(a.source, it.st), T(a.dest, it.st))


@contract
class Storage_set_active_rec_subgraph(StContract):
    name = 'DAGNodeStorage.set_active_rec_subgraph'
    returns = 'none'
    props = ('C04', 'C11')

    def setup(self, it):
        return new_storage(it), CallArgs(self.fresh(it, 'v', 'v'))

    def modifies(self, it, pre, a):
        return self.sv(pre, a).P.locs()

    def ensures(self, it, pre, post, a, res):
        s0, s1 = self.sv(pre, a), self.sv(post, a)
        k = _pair(a, it)
        return [('marker-set', s1.P.data.eq(s0.P.data.store(k, mk_int(1)))),
                ('unhidden', s1.P.hidden.mem == s0.P.hidden.remove(k).mem),
                ('others-unchanged', s1.others_same(s0, 'processed_nodes'))]


@contract
class Storage_delete_active_rec_subgraph(StContract):
    name = 'DAGNodeStorage.delete_active_rec_subgraph'
    returns = 'none'
    props = ('C04', 'C11')

    def setup(self, it):
        return new_storage(it), CallArgs(self.fresh(it, 'v', 'v'))

    def modifies(self, it, pre, a):
        return [(self.sv(pre, a).P.ref, 'data')]

    def ensures(self, it, pre, post, a, res):
        s0, s1 = self.sv(pre, a), self.sv(post, a)
        return [('marker-removed', s1.P.data.same_view(s0.P.data.drop(_pair(a, it)))),
                ('hidden-unchanged', s1.P.hidden.mem == s0.P.hidden.mem),
                ('others-unchanged', s1.others_same(s0, 'processed_nodes'))]

    def raises(self, it, pre, a):
        s0 = self.sv(pre, a)
        return [ExcCase('absent', 'KeyError', when=z3.Not(s0.P.data.has(_pair(a, it))),
                        modifies=lambda it_, p, a_: [])]


@contract
class Storage_exists_active_rec_subgraph(StContract):
    name = 'DAGNodeStorage.exists_active_rec_subgraph'
    returns = 'bool'
    props = ('C04', 'C11')

    def setup(self, it):
        return new_storage(it), CallArgs(self.fresh(it, 'v', 'v'))

    def result_term(self, it, pre, a):
        # exists(key) is called with the default with_hidden=True
        return self.sv(pre, a).P.data.has(_pair(a, it))

    def ensures(self, it, pre, post, a, res):
        return [('result', B(res) == self.result_term(it, pre, a))]


@contract
class Storage_hide_last_execution(StContract):
    name = 'DAGNodeStorage.hide_last_execution'
    returns = 'none'
    props = ('C03', 'C04', 'C11')

    def setup(self, it):
        st = it.st
        seq = SymSeq.fresh(st, 'ns')
        self._seq = seq
        from pyvc.interp import StarSeq
        return new_storage(it), CallArgs([StarSeq(seq)])

    def bind(self, it, fi, self_val, ca):
        from pyvc.contract import A
        from pyvc.interp import StarSeq
        if len(ca.args) == 1 and isinstance(ca.args[0], StarSeq):
            seq = ca.args[0].seq
        else:
            seq = SymSeq.empty()
            for x in ca.args:
                if isinstance(x, StarSeq):
                    raise Exception('mixed star args')
                seq = seq.append(lift(x, it.st))
        lst = it.st.alloc('tuple', items=seq)
        return A(self=self_val, node_ids=lst, seq=seq)

    def modifies(self, it, pre, a):
        s = self.sv(pre, a)
        return [(s.P.hidden_ref, 'elems'), (s.R.hidden_ref, 'elems')]

    def _post(self, s0, s1, seq, upto):
        k = z3.Const('k', PyV)
        j = z3.Int('j')
        member = lambda kk: z3.Exists([j], z3.And(j >= 0, j < upto, seq.at(j) == kk))
        return [
            ('P-hidden', FA([k], s1.P.hidden.contains(k) == z3.Or(s0.P.hidden.contains(k), member(k)))),
            ('R-hidden', FA([k], s1.R.hidden.contains(k) == z3.Or(s0.R.hidden.contains(k), member(k)))),
            ('data-unchanged', z3.And(s1.P.data.eq(s0.P.data), s1.R.data.eq(s0.R.data))),
            ('others-unchanged', s1.others_same(s0, 'processed_nodes', 'node_results')),
        ]

    def ensures(self, it, pre, post, a, res):
        return self._post(self.sv(pre, a), self.sv(post, a), a.seq, a.seq.len)

    @property
    def loops(self):
        outer = self

        def inv(ctx):
            s0 = StorageView(ctx.pre, ctx.a.self)
            s1 = StorageView(ctx.now(), ctx.a.self)
            return outer._post(s0, s1, ctx.a.seq, ctx.i)

        def heap_havoc(it, env):
            s = StorageView(it.st.snapshot(), it.entry_args.self)
            return [(s.P.hidden_ref, 'elems'), (s.R.hidden_ref, 'elems')]

        return [LoopSpec(text='node_ids', inv=inv, heap_havoc=heap_havoc)]
