"""
Contracts for the collaborator-facing code: events.py, context/dag.py, node/node.py (run_node & co),
module_loading.get_instance.  At engine call sites these are the assumed behaviour of user code reached
through them: a yield, then an arbitrary value or an arbitrary exception, engine state untouched.
"""
import z3
from pyvc.values import FA

from pyvc.contract import Contract, ExcCase, LoopSpec, contract, A, same_value
from pyvc.interp import CallArgs, attr_fn
from pyvc.state import SymMap, SymSet, SymSeq
from pyvc.values import (PyV, NONE, TRUE, FALSE, SymV, SymB, SymI, SymS, Ref, lift, lower, as_z3, subcls, LATTICE,
                         mk_str, truthy_term, IntS, BoolS, ClsRef)
from pyvc.libmodels2 import HAS_ATTR, IS_CORO_FN, IS_CALLABLE, TAG_IN

from .shapes import (new_ctx, new_obj, T, B, CTX_CLS)

EVENTS_PY = 'ml_pipeline_engine/events.py'
CONTEXT_PY = 'ml_pipeline_engine/context/dag.py'
NODE_PY = 'ml_pipeline_engine/node/node.py'

EVENT_SIGS = {
    'on_node_start': ('node_id',),
    'on_node_complete': ('node_id', 'error'),
    'on_pipeline_start': (),
    'on_pipeline_complete': ('result',),
}


def user_calls(effects):
    return [e for e in effects if e.kind == 'user_call']


def calls(effects, fn_suffix):
    out = [e for e in effects if e.kind == 'call' and e.fn.endswith(fn_suffix)]
    if not out:
        # a clause that counts calls of a contracted function cannot be evaluated once that function was renamed or removed
        # (its work is then inlined, not a call effect): undecided, not "zero calls"
        from pyvc.contract import MISSING_FUNCTIONS
        from pyvc.values import Unsupported
        short = fn_suffix.split('.')[-1]
        if short in MISSING_FUNCTIONS:
            raise Unsupported(f'a clause refers to calls of {short}, which no longer exists in this tree (renamed or removed)')
    return out


def kwargs_equal(it, eff, expected):
    """formula: the keyword arguments of a user_call effect equal the python-side mapping ``expected`` (str -> value)"""
    st = it.st
    if eff.starmaps:
        return False
    if set(eff.kwargs) != set(expected):
        return False
    out = []
    for k, v in expected.items():
        out.append(same_value(eff.kwargs[k], v, st))
    from pyvc.values import z3_and
    return z3_and(*out)


# ======================================================================================
# events.py
# ======================================================================================
@contract
class Emit(Contract):
    path = EVENTS_PY
    name = 'EventSourceMixin._emit'
    returns = 'none'
    yields = True
    props = ('C14', 'C02')
    doc = 'managers are called in list order with ctx=self and the event arguments; absent callbacks are skipped'

    def setup(self, it):
        st = it.st
        ctx = new_ctx(it)
        names = list(EVENT_SIGS)
        which = st.choose([True] * len(names), 'event-kind')
        name = names[which]
        kwargs = {k: SymV(st.fresh_val(k)) for k in EVENT_SIGS[name]}
        return ctx, CallArgs([name], kwargs)

    def bind(self, it, fi, self_val, ca):
        name = ca.args[0] if ca.args else ca.kwargs['event_name']
        kw = {k: v for k, v in ca.kwargs.items() if k != 'event_name'}
        return A(self=self_val, event_name=name, kwargs=kw)

    def raises(self, it, pre, a):
        return [ExcCase('manager-raised', None, may=True)]

    @property
    def loops(self):
        def body_post(ctx):
            it = ctx.it
            a = ctx.a
            mgr = ctx.seq.at(ctx.i_before)
            ucs = user_calls(ctx.iter_effects)
            has = z3.And(HAS_ATTR(mgr, z3.StringVal(a.event_name)), truthy_term(attr_fn(a.event_name)(mgr)))
            out = [('at-most-one-callback-per-manager', len(ucs) <= 1)]
            if ucs:
                e = ucs[0]
                expected = dict(a.kwargs)
                expected['ctx'] = a.self
                out.append(('callback-of-this-manager', T(e.fn, it.st) == attr_fn(a.event_name)(mgr)))
                out.append(('callback-gets-ctx-and-event-arguments', kwargs_equal(it, e, expected)))
                out.append(('callback-awaited', bool(e.awaited) and not e.args))
                out.append(('only-present-callbacks-called', has))
            else:
                out.append(('present-callback-not-skipped', z3.Not(has)))
            return out
        return [LoopSpec(text='self._get_event_managers()', body_post=body_post)]

    def effects_spec(self, it, pre, post, a, outcome, value, effects):
        return []


def _emitter(method, event, argnames):
    class C(Contract):
        path = EVENTS_PY
        name = f'EventSourceMixin.{method}'
        returns = 'none'
        yields = True
        props = ('C14', 'C02', 'C13', 'C04', 'C12')
        doc = f'exactly one _emit({event!r}, ...) with the given arguments'

        def setup(self, it):
            st = it.st
            return new_ctx(it), CallArgs([], {k: SymV(st.fresh_val(k)) for k in argnames})

        def raises(self, it, pre, a):
            return [ExcCase('manager-raised', None, may=True)]

        def effects_spec(self, it, pre, post, a, outcome, value, effects):
            es = calls(effects, '._emit')
            ok = len(es) == 1 and es[0].a.event_name == event and set(es[0].a.kwargs) == set(argnames)
            out = [('exactly-one-emit-of-this-event', ok)]
            if ok:
                for k in argnames:
                    out.append((f'argument-{k}-passed-through', same_value(es[0].a.kwargs[k], getattr(a, k), it.st)))
            return out
    C.__name__ = f'Emit_{method}'
    return contract(C)


_emitter('emit_on_node_start', 'on_node_start', ('node_id',))
_emitter('emit_on_node_complete', 'on_node_complete', ('node_id', 'error'))
_emitter('emit_on_pipeline_start', 'on_pipeline_start', ())
_emitter('emit_on_pipeline_complete', 'on_pipeline_complete', ('result',))


# ======================================================================================
# context/dag.py
# ======================================================================================
@contract
class SaveNodeResult(Contract):
    path = CONTEXT_PY
    name = 'DAGPipelineContext.save_node_result'
    returns = 'none'
    yields = True
    props = ('C19', 'C02')
    doc = 'exactly one artifact_store.save(node_id=node_id, data=data)'

    def setup(self, it):
        st = it.st
        return new_ctx(it), CallArgs([SymV(st.fresh_val('node_id')), SymV(st.fresh_val('data'))])

    def requires(self, it, pre, a):
        # DAGPipelineContext.__init__ always installs a store instance (NoOpArtifactStore by default)
        return [('store-instance-present', T(pre.getf(a.self, 'artifact_store'), it.st) != NONE)]

    def raises(self, it, pre, a):
        return [ExcCase('store-raised', None, may=True)]

    def effects_spec(self, it, pre, post, a, outcome, value, effects):
        ucs = user_calls(effects)
        ok = len(ucs) == 1
        out = [('exactly-one-store-call', ok)]
        if ok:
            store = pre.getf(a.self, 'artifact_store')
            out.append(('it-is-the-store-save-method', T(ucs[0].fn, it.st) == attr_fn('save')(T(store, it.st))))
            out.append(('save-gets-node-id-and-data', kwargs_equal(it, ucs[0], dict(node_id=a.node_id, data=a.data))))
            out.append(('save-awaited', bool(ucs[0].awaited)))
        return out


# ======================================================================================
# node/node.py
# ======================================================================================
def fresh_kwargs(it, hint='kwargs'):
    return it.st.alloc('dict', map=SymMap.fresh(it.st, hint))


def starmap_of(eff):
    """the single ** mapping of a user_call effect (None when the call shape differs)"""
    if eff.kwargs or eff.args or len(eff.kwmaps) != 1:
        return None
    return eff.kwmaps[0]


class NodeCallContract(Contract):
    path = NODE_PY

    def bind(self, it, fi, self_val, ca):
        if len(ca.starmaps) > 1:
            raise Exception('several ** mappings')
        kw = dict(ca.kwargs)
        node = ca.args[0] if ca.args else kw.pop('node')
        node_id = kw.pop('node_id', None)
        if kw:
            # concrete keyword arguments: fold into a mapping
            sm = it.dict_sym(ca.starmaps[0]) if ca.starmaps else SymMap.empty()
            for k, v in kw.items():
                sm = sm.store(lift(k, it.st), lift(v, it.st))
        else:
            sm = it.dict_sym(ca.starmaps[0]) if ca.starmaps else SymMap.empty()
        return A(node=node, node_id=node_id, kwmap=sm, n_pos=len(ca.args) - 1 if ca.args else 0)


@contract
class RunNode(NodeCallContract):
    name = 'run_node'
    returns = 'val'
    yields = True
    props = ('C17', 'C12', 'C01', 'C03', 'C08')
    doc = ('in every execution mode the outcome (value or exception) is that of exactly one call '
           'instance.process(**kwargs); the pool branch takes the executor of the right registry')

    def setup(self, it):
        st = it.st
        node = SymV(st.fresh_val('node'))
        st.assume(node.t != NONE)
        return None, CallArgs([], dict(node=node, node_id=SymV(st.fresh_val('node_id'))), [fresh_kwargs(it)])

    def raises(self, it, pre, a):
        return [ExcCase('any', None, may=True)]

    def effects_spec(self, it, pre, post, a, outcome, value, effects):
        st = it.st
        ucs = user_calls(effects)
        node = T(a.node, st)
        out = []
        # which user calls are the node body?
        insts = [e for e in ucs if e.result is not None or e.exc is not None]
        body = []
        for e in ucs[1:]:
            body.append(e)
        if ucs:
            first = ucs[0]
            fac = attr_fn('default_factory')(node)
            out.append(('a-new-instance-is-created-from-the-node-class-for-this-invocation|C08,C17', z3.Or(T(first.fn, st) == node, T(first.fn, st) == fac)))
        out.append(('at-most-one-body-invocation', len(body) <= 1))
        if outcome == 'return':
            ok = len(body) == 1 and body[0].result is not None
            out.append(('body-invoked-exactly-once', ok))
            if ok:
                e = body[0]
                out.append(('result-is-the-body-result', T(value, st) == T(e.result, st)))
        for e in body:
            inst = ucs[0].result
            if inst is not None:
                out.append(('body-is-process-of-the-instance', T(e.fn, st) == attr_fn('process')(T(inst, st))))
            sm = starmap_of(e)
            out.append(('body-gets-exactly-the-keyword-arguments', sm is not None and sm.eq(a.kwmap)))
            if e.exc is not None and outcome == 'raise':
                out.append(('body-exception-propagates-unchanged', value.t == e.exc.t))
            is_coro = IS_CORO_FN(attr_fn('process')(T(inst, st))) if inst is not None else None
            rie = [x for x in effects if x.kind == 'run_in_executor']
            tags = attr_fn('tags')(node)
            tags_eff = z3.If(truthy_term(tags), tags, NONE)
            if rie:
                world = None
                regs = it.st.ghost.get('globals', {})
                proc = [v for (m, _d), v in regs.items() if m.endswith('parallelism.processes') and isinstance(v, Ref)]
                thr = [v for (m, _d), v in regs.items() if m.endswith('parallelism.threads') and isinstance(v, Ref)]
                in_proc = z3.And(truthy_term(tags), TAG_IN(tags, z3.StringVal('process')))
                ex = T(rie[0].executor, st)
                if proc:
                    out.append(('process-tag-uses-process-pool', z3.Implies(in_proc, ex == T(post.getf(proc[0], '_pool_executor'), st))))
                if thr:
                    out.append(('other-sync-nodes-use-thread-pool', z3.Implies(z3.Not(in_proc), ex == T(post.getf(thr[0], '_pool_executor'), st))))
                out.append(('executor-only-for-sync-nodes-without-non_async', z3.And(
                    z3.Not(is_coro), z3.Not(z3.And(truthy_term(tags), TAG_IN(tags, z3.StringVal('non_async')))))))
            else:
                out.append(('inline-only-for-coroutines-or-non_async', z3.Or(
                    is_coro, z3.And(truthy_term(tags), TAG_IN(tags, z3.StringVal('non_async'))))))
                out.append(('coroutine-bodies-are-awaited', z3.Implies(is_coro, z3.BoolVal(bool(e.awaited)))))
        return out


@contract
class RunNodeDefault(NodeCallContract):
    name = 'run_node_default'
    returns = 'val'
    props = ('C12', 'C11', 'C08')
    doc = 'the default is instance.get_default(**kwargs): one call, same keyword arguments'

    def setup(self, it):
        st = it.st
        node = SymV(st.fresh_val('node'))
        st.assume(node.t != NONE)
        return None, CallArgs([node], {}, [fresh_kwargs(it)])

    def raises(self, it, pre, a):
        if not it.opt.get('default_raises', True):
            return []
        return [ExcCase('any', None, may=True)]

    def effects_spec(self, it, pre, post, a, outcome, value, effects):
        st = it.st
        ucs = user_calls(effects)
        out = [('at-most-instance-creation-and-one-get_default', len(ucs) <= 2)]
        if outcome == 'return':
            ok = len(ucs) == 2 and ucs[1].result is not None and ucs[0].result is not None
            out.append(('get_default-called-once', ok))
            if ok:
                out.append(('it-is-get_default-of-the-instance',
                            T(ucs[1].fn, st) == attr_fn('get_default')(T(ucs[0].result, st))))
                sm = starmap_of(ucs[1])
                out.append(('same-keyword-arguments', sm is not None and sm.eq(a.kwmap)))
                out.append(('result-is-its-result', T(value, st) == T(ucs[1].result, st)))
                out.append(('not-awaited', not ucs[1].awaited))
        return out
