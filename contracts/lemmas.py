"""
Property-level lemmas over the *statements* of verified contracts (DESIGN §4: C01.L, C06.b, C18.f).
"""
import z3
from pyvc.values import FA

from pyvc.contract import lemma, Lemma
from pyvc.state import SymMap
from pyvc.values import PyV, NONE, mk_str, IntS, BoolS, StrS, truthy_term
from pyvc.libmodels import GraphOps

from .shapes import new_manager, new_subdag, MV, SubV, T, B
from .manager_seq import READY, SUBST, BASE_PRED, M_is_ready_to_execute, M_get_node_kwargs, node_in_dag


@lemma
class ReadyOncePredecessorDepthsAreDone(Lemma):
    name = 'C06.b-ready-when-smaller-depths-are-done'
    props = ('C06',)
    doc = ('in a dag of plain dependencies, once every node of depth < k has a visible non-Recurrent result, the readiness '
           'predicate of every depth-k node is true (so the launcher of C06.a does not block on it)')

    def obligations(self, it):
        st = it.st
        m_ref = new_manager(it)
        dag = new_subdag(it, m_ref)
        snap = st.snapshot()
        m = MV(snap, m_ref)
        sub = SubV(snap, dag)
        ops = GraphOps(it)
        depth = ops.depth_fn(m.G.g)
        n = st.fresh_val('n')
        x = z3.Const('lx', PyV)
        k = st.fresh_int('k')
        a = type('A', (), {})()
        a.self, a.dag, a.node_id = m_ref, dag, lower_(n)
        ready = M_is_ready_to_execute().result_term(it, snap, a)
        plain = z3.And(z3.Not(sub.is_recurrent), FA([x], z3.Not(m.G.is_switch(x))), z3.Not(m.G.is_head(n)))
        done_below = FA([x], z3.Implies(z3.And(m.G.node(x), depth(x) < k), READY(m, x)), patterns=[depth(x)])
        return [('depth-k-node-is-ready', z3.Implies(z3.And(plain, done_below, m.G.node(n), depth(n) == k), ready))]


def lower_(t):
    from pyvc.values import SymV
    return SymV(t)


@lemma
class StoreDirectoriesDisjoint(Lemma):
    name = 'C18.f-distinct-contexts-use-distinct-files'
    props = ('C18',)
    doc = 'stores of distinct (model, pipeline) under one artifact_dir never touch the same file (names without "/")'
    cvc5_first = True     # pure word equations

    def obligations(self, it):
        a, m1, p1, m2, p2, k1, k2 = z3.Strings('a m1 p1 m2 p2 k1 k2')
        sl = z3.StringVal('/')
        noslash = lambda s: z3.Not(z3.Contains(s, sl))
        d1 = z3.Concat(a, sl, m1, sl, p1)
        d2 = z3.Concat(a, sl, m2, sl, p2)
        ok = z3.And(noslash(m1), noslash(p1), noslash(m2), noslash(p2), noslash(k1), noslash(k2))
        return [('same-directory-implies-same-context', z3.Implies(z3.And(ok, d1 == d2), z3.And(m1 == m2, p1 == p2))),
                ('same-file-implies-same-context-and-key', z3.Implies(
                    z3.And(ok, z3.Concat(d1, sl, k1, z3.StringVal('.pickle')) == z3.Concat(d2, sl, k2, z3.StringVal('.pickle'))),
                    z3.And(m1 == m2, p1 == p2, k1 == k2))),
                # the property speaks of arbitrary ids: without the restriction the statement is false (known finding)
                ('arbitrary-names: same-file-implies-same-context-and-key', z3.Implies(
                    z3.Concat(d1, sl, k1, z3.StringVal('.pickle')) == z3.Concat(d2, sl, k2, z3.StringVal('.pickle')),
                    z3.And(m1 == m2, p1 == p2, k1 == k2)))]


@lemma
class DataflowInductionStep(Lemma):
    name = 'C01.L-dataflow-induction-step'
    props = ('C01',)
    doc = ('if every declared source of node n stores its reference value, the keyword arguments _get_node_kwargs builds are '
           'the reference arguments, hence a deterministic body stores the reference value of n (plain and switch parameters)')

    def obligations(self, it):
        st = it.st
        m_ref = new_manager(it)
        snap = st.snapshot()
        m = MV(snap, m_ref)
        n = st.fresh_val('n')
        REF = z3.Function('ref_value', PyV, PyV)                    # the dataflow semantics
        p, key = z3.Consts('lp lkey', PyV)
        # what the verified contract of _get_node_kwargs says about the dictionary D it returns for n != input
        D = SymMap.fresh(st, 'D')
        c = M_get_node_kwargs()
        value = c._value(m, p)
        declared = lambda k_: z3.Exists([p], z3.And(m.G.edge(p, n), m.G.kw(p, n) == k_, k_ != NONE))
        contract_says = z3.And(
            FA([key], D.has(key) == declared(key)),
            FA([p], z3.Implies(z3.And(m.G.edge(p, n), m.G.kw(p, n) != NONE), D.at(m.G.kw(p, n)) == value), patterns=[m.G.edge(p, n)]))
        # reference arguments: each declared parameter gets the reference value of its source (the selected case for a switch)
        RD = SymMap.fresh(st, 'RD')
        sw = m.S.SW.get(p, z3.BoolVal(False))
        src = z3.If(m.G.is_switch(p), PyV.cnode(sw), p)
        ref_args = z3.And(
            FA([key], RD.has(key) == declared(key)),
            FA([p], z3.Implies(z3.And(m.G.edge(p, n), m.G.kw(p, n) != NONE), RD.at(m.G.kw(p, n)) == REF(src)), patterns=[m.G.edge(p, n)]))
        hyp = FA([p], z3.Implies(z3.And(m.G.edge(p, n), m.G.kw(p, n) != NONE), m.S.R.val(src) == REF(src)), patterns=[m.G.edge(p, n)])
        no_addl = m.G.addl(n) == NONE
        distinct = FA([p, z3.Const('lp2', PyV)], z3.Implies(z3.And(
            m.G.edge(p, n), m.G.edge(z3.Const('lp2', PyV), n), m.G.kw(p, n) == m.G.kw(z3.Const('lp2', PyV), n), m.G.kw(p, n) != NONE),
            p == z3.Const('lp2', PyV)))
        k2 = z3.Const('lk2', PyV)
        same_view = FA([k2], z3.And(D.has(k2) == RD.has(k2), z3.Implies(D.has(k2), D.at(k2) == RD.at(k2))))
        return [('the-node-is-invoked-with-the-reference-arguments', z3.Implies(
            z3.And(n != m.input, no_addl, distinct, contract_says, ref_args, hyp), same_view))]
