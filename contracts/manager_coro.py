"""
Contracts for the coroutines of ml_pipeline_engine/dag/manager.py (DESIGN §3.4): trace (ghost effect log)
specifications per atomic segment, notification discipline, cancellation posts.
"""
import z3
from pyvc.values import FA

from pyvc.contract import Contract, ExcCase, LoopSpec, contract, A, same_value, havoc_location
from pyvc.interp import CallArgs, StarSeq, attr_fn, TMATCH
from pyvc.state import SymMap, SymSet, SymSeq
from pyvc.values import (PyV, NONE, TRUE, FALSE, SymV, SymB, SymI, SymS, Ref, lift, lower, as_z3, subcls, LATTICE,
                         mk_str, mk_int, truthy_term, IntS, BoolS, z3_and, z3_or, z3_not)
from pyvc.libmodels import GraphOps, T_PENDING, T_OK, T_EXC, T_CANCELLED, Arr

from .shapes import (MANAGER_PY, MGR, new_manager, new_subdag, MV, GV, SubV, StorageView, T, B, new_obj, GRAPH_CLS)
from .manager_seq import MgrContract, node_in_dag, NOTIF, notif_axioms, READY, SUBST, BASE_PRED
from .collab import user_calls, calls, fresh_kwargs

EXC = LATTICE.codes['Exception']
CANCELLED = LATTICE.codes['CancelledError']


def is_exception(e):
    """the value is an instance of Exception (not merely BaseException)"""
    return z3.And(PyV.is_exc(e), subcls(PyV.ecls(e), z3.IntVal(EXC)))


def tail_after_loop(effects):
    """effects of the last (current) loop iteration: everything after the last loop_summary marker"""
    idx = -1
    for i, e in enumerate(effects):
        if e.kind == 'loop_summary':
            idx = i
    return effects[idx + 1:]


class MgrCoroContract(MgrContract):
    """coroutines of the manager: interference at every yield = havoc of the shared state under the rely"""

    def shared_locs(self, it):
        st = it.st
        m = it.entry_args.self if it.entry_args is not None else None
        snap = st.snapshot()
        mv = MV(snap, m)
        locs = []
        for hd in (mv.S.R, mv.S.P, mv.S.SW):
            locs += hd.locs()
        w = mv.world
        locs += [(w, 'task_st'), (w, 'task_exc'), (w, 'task_cancel'), (w, 'event_set'), (w, 'next_task'),
                 (mv.tasks_ref, 'elems'), (mv.G.g, 'na:is_oneof_child'), (mv.G.g, 'na:additional_data')]
        return locs

    def rely(self, it, m0, m1):
        """what other coroutines of the same run may do between two segments (each clause is also a guarantee
        obligation on the writers, see C03/C04 contracts)"""
        t = z3.Int('rt')
        v = z3.Const('rv', PyV)
        k = z3.Const('rk', PyV)
        nt0 = m0.snap.getf(m0.world, 'next_task').t
        nt1 = m1.snap.getf(m1.world, 'next_task').t
        return [
            # r5: tasks only grow, states only move pending -> done, cancel requests stay
            nt1 >= nt0,
            FA([v], z3.Implies(m0.tasks.contains(v), m1.tasks.contains(v)), patterns=[m0.tasks.contains(v)]),
            FA([v], z3.Implies(m1.tasks.contains(v), z3.And(PyV.is_task(v), PyV.tid(v) >= 0, PyV.tid(v) < nt1)),
               patterns=[m1.tasks.contains(v)]),
            FA([t], z3.Implies(m0.task_st(t) != T_PENDING, z3.And(m1.task_st(t) == m0.task_st(t),
                                                                 m1.task_exc(t) == m0.task_exc(t))),
               patterns=[m1.task_st(t)]),
            FA([t], z3.Implies(m0.task_cancel(t), m1.task_cancel(t)), patterns=[m1.task_cancel(t)]),
            FA([t], z3.Implies(m1.task_st(t) == T_EXC, PyV.is_exc(m1.task_exc(t))), patterns=[m1.task_exc(t)]),
            # events are never cleared
            FA([k], z3.Implies(m0.event_set(k), m1.event_set(k)), patterns=[m1.event_set(k)]),
            # r3: a recorded switch decision stays a CaseResult (it may be replaced inside a recurrent re-iteration)
            FA([k], z3.Implies(PyV.is_case(m0.S.SW.get(k, z3.BoolVal(False))), PyV.is_case(m1.S.SW.get(k, z3.BoolVal(False)))),
               patterns=[m1.S.SW.data.at(k)]),
        ]

    def modifies(self, it, pre, a):
        # interference: what *other* coroutines may write while this one is suspended.  The function's own writes
        # are pinned down by its trace specification (which storage operations it performs, on which keys).
        saved = it.entry_args
        it.entry_args = a
        try:
            return self.shared_locs(it)
        finally:
            it.entry_args = saved

    def on_yield(self, it, label):
        if it.entry_args is None or not hasattr(it.entry_args, 'self') or it.entry_args.self is None:
            return
        st = it.st
        m0 = MV(st.snapshot(), it.entry_args.self)
        for ref, field in self.shared_locs(it):
            havoc_location(st, ref, field, field.replace(':', '_'))
        m1 = MV(st.snapshot(), it.entry_args.self)
        for f in self.rely(it, m0, m1):
            st.assume(f)


# ======================================================================================
# __execute_node  (C12)
# ======================================================================================
def eff_attempts(node):
    raw = attr_fn('attempts')(node)
    return z3.If(truthy_term(raw), raw, mk_int(1))


def eff_delay(node):
    raw = attr_fn('delay')(node)
    return z3.If(truthy_term(raw), raw, mk_int(0))


def exc_matches_policy(node, e):
    raw = attr_fn('exceptions')(node)
    return z3.If(truthy_term(raw), TMATCH(raw, PyV.ecls(e)), subcls(PyV.ecls(e), z3.IntVal(EXC)))


@contract
class M_execute_node_inner(MgrCoroContract):
    name = 'DAGRunConcurrentManager.__execute_node'
    returns = 'val'
    yields = True
    props = ('C12', 'C14', 'C03', 'C04')
    doc = 'retry loop: the configured attempts/delay/exceptions/use_default policy, unbounded in attempts'
    # the property says nothing about a get_default() that itself raises: assumed not to (listed assumption)
    options = {'default_raises': False}

    def setup(self, it):
        st = it.st
        m = new_manager(it)
        return m, CallArgs([], dict(node_id=SymV(st.fresh_val('node_id')), force_default=SymB(st.fresh_bool('fd'))),
                           [fresh_kwargs(it)])

    def bind(self, it, fi, self_val, ca):
        kw = dict(ca.kwargs)
        node_id = ca.args[0] if ca.args else kw.pop('node_id')
        fd = kw.pop('force_default', False)
        if kw or len(ca.starmaps) > 1:
            raise Exception('unexpected call shape for __execute_node')
        sm = it.dict_sym(ca.starmaps[0]) if ca.starmaps else SymMap.empty()
        return A(self=self_val, node_id=node_id, force_default=fd, kwmap=sm)

    def node(self, it, pre, a):
        return MV(pre, a.self).node_map.at(T(a.node_id, it.st))

    def requires(self, it, pre, a):
        m = MV(pre, a.self)
        node = self.node(it, pre, a)
        att = attr_fn('attempts')(node)
        exs = attr_fn('exceptions')(node)
        c = z3.Int('vc')
        return [
            ('node-in-node-map', m.node_map.has(T(a.node_id, it.st))),
            ('node-class-present', node != NONE),
            # validity of the configuration (the property statement presupposes it)
            ('attempts-is-None-or-natural', z3.Or(att == NONE, z3.And(PyV.is_int_(att), PyV.i(att) >= 0))),
            ('retried-classes-are-Exceptions', z3.Implies(truthy_term(exs), FA([c], z3.Implies(
                TMATCH(exs, c), subcls(c, z3.IntVal(EXC))), patterns=[TMATCH(exs, c)]))),
            ('engine-parameter-names-not-used-as-kwargs', z3.And(
                z3.Not(a.kwmap.has(mk_str('node'))), z3.Not(a.kwmap.has(mk_str('node_id'))),
                z3.Not(a.kwmap.has(mk_str('force_default'))))),
        ]

    def raises(self, it, pre, a):
        return [ExcCase('node-failure-or-collaborator', None, may=True)]

    # ---- loop -----------------------------------------------------------------------
    @property
    def loops(self):
        outer = self

        def ghost_init(it, env):
            it.st.ghost['ghost:calls'] = 0

        def A_of(ctx):
            return PyV.i(eff_attempts(outer.node(ctx.it, ctx.pre, ctx.a)))

        def inv(ctx):
            n = ctx.it.as_int(ctx.var('n_attempts'))
            calls_ = ctx.it.as_int(ctx.var('ghost:calls'))
            return [('attempt-counter-in-range', z3.And(n >= 1, n <= A_of(ctx))),
                    ('invocations-so-far', calls_ == n - 1)]

        def measure(ctx):
            return A_of(ctx) - ctx.it.as_int(ctx.var('n_attempts'))

        def ghost_update(ctx):
            rn = calls(ctx.iter_effects, 'run_node')
            cur = ctx.it.as_int(ctx.st.ghost['ghost:calls'])
            ctx.st.ghost['ghost:calls'] = SymI(z3.simplify(cur + len(rn)))

        def body_post(ctx):
            it, a, st = ctx.it, ctx.a, ctx.st
            node = outer.node(it, ctx.pre, a)
            evs = [e for e in ctx.iter_effects if e.kind in ('call', 'sleep', 'user_call')]
            shape = (len(evs) == 3 and evs[0].kind == 'call' and evs[0].fn == 'run_node' and evs[0].exc is not None
                     and evs[1].kind == 'call' and evs[1].fn.endswith('emit_on_node_complete') and evs[2].kind == 'sleep')
            out = [('a-retry-is-exactly: failed invocation, completion event with that error, sleep', shape)]
            if shape:
                rn, em, sl = evs
                e = rn.exc.t
                out += outer.invocation_clauses(it, ctx.pre, a, rn)
                out.append(('retried-only-for-matching-exceptions', exc_matches_policy(node, e)))
                out.append(('event-reports-the-attempt-error', z3.And(T(em.a.error, st) == e,
                                                                      T(em.a.node_id, st) == T(a.node_id, st))))
                out.append(('sleeps-the-configured-delay', T(sl.delay, st) == eff_delay(node)))
            return out

        return [LoopSpec(text='True', havoc={'n_attempts': 'int', 'ghost:calls': 'int'}, inv=inv, measure=measure,
                         ghost_init=ghost_init, ghost_update=ghost_update, body_post=body_post)]

    def invocation_clauses(self, it, pre, a, rn):
        st = it.st
        node = self.node(it, pre, a)
        return [('invoked-with-the-node-class', T(rn.a.node, st) == node),
                ('invoked-with-the-node-id', T(rn.a.node_id, st) == T(a.node_id, st)),
                ('invoked-with-the-same-kwargs', rn.a.kwmap.eq(a.kwmap)),
                ('no-positional-arguments', rn.a.n_pos == 0)]

    def effects_spec(self, it, pre, post, a, outcome, value, effects):
        st = it.st
        node = self.node(it, pre, a)
        tail = tail_after_loop(effects)
        rn = calls(tail, 'run_node')
        df = calls(tail, 'run_node_default')
        em = calls(tail, 'emit_on_node_complete')
        sl = [e for e in tail if e.kind == 'sleep']
        fd = B(a.force_default)
        use_default = truthy_term(attr_fn('use_default')(node))
        A_ = PyV.i(eff_attempts(node))
        n_calls_before = it.as_int(st.ghost.get('ghost:calls', 0))
        out = [('at-most-one-invocation-per-iteration', len(rn) <= 1),
               ('at-most-one-default-call', len(df) <= 1),
               ('never-more-than-attempts-invocations', n_calls_before + len(rn) <= A_)]
        for r in rn:
            out += self.invocation_clauses(it, pre, a, r)
        for d in df:
            out.append(('default-from-the-node-class', T(d.a.node, st) == node))
            out.append(('default-gets-the-same-kwargs', d.a.kwmap.eq(a.kwmap)))
        out.append(('force_default-invokes-nothing', z3.Implies(fd, z3.BoolVal(len(rn) == 0))))
        out.append(('without-force_default-the-node-is-invoked', z3.Implies(z3.Not(fd), z3.BoolVal(len(rn) == 1))))
        if outcome == 'return':
            res = T(value, st)
            if rn and rn[0].exc is None:
                out.append(('value-of-the-successful-attempt', z3.And(res == T(rn[0].res, st), z3.BoolVal(not df))))
                out.append(('no-event-or-sleep-after-success', not em and not sl))
            elif rn:
                e = rn[0].exc.t
                n_now = n_calls_before + 1
                ok = bool(df) and df[0].exc is None
                out.append(('a-failed-last-attempt-yields-the-default', ok))
                if ok:
                    out.append(('default-value-returned', res == T(df[0].res, st)))
                    out.append(('default-only-if-opted-in', use_default))
                    out.append(('default-only-when-exhausted-or-not-retryable', z3.Or(
                        z3.And(exc_matches_policy(node, e), n_now == A_),
                        z3.And(z3.Not(exc_matches_policy(node, e)), is_exception(e)))))
            else:
                ok = bool(df) and df[0].exc is None
                out.append(('forced-default-value-returned', ok and res == T(df[0].res, st)))
                out.append(('forced-default-only-when-asked', fd))
        else:
            x = value.t
            if df and df[0].exc is not None:
                out.append(('get_default-failure-propagates', x == df[0].exc.t))
                if rn:
                    e = rn[0].exc.t
                    out.append(('default-only-if-opted-in', use_default))
                    out.append(('default-only-when-exhausted-or-not-retryable', z3.Or(
                        z3.And(exc_matches_policy(node, e), n_calls_before + 1 == A_),
                        z3.And(z3.Not(exc_matches_policy(node, e)), is_exception(e)))))
            elif em and em[0].exc is not None:
                out.append(('event-manager-failure-propagates', x == em[0].exc.t))
            elif rn and rn[0].exc is not None:
                e = rn[0].exc.t
                out.append(('the-node-exception-itself-is-raised', x == e))
                out.append(('no-default-was-computed', not df))
                out.append(('raised-only-when-policy-says-so', z3.Or(
                    z3.And(exc_matches_policy(node, e), n_calls_before + 1 == A_, z3.Not(use_default)),
                    z3.And(z3.Not(exc_matches_policy(node, e)), is_exception(e), z3.Not(use_default)),
                    z3.And(z3.Not(exc_matches_policy(node, e)), z3.Not(is_exception(e))))))
            else:
                out.append(('exception-has-a-known-origin', False))
        return out


# ======================================================================================
# common clauses of every manager coroutine
# ======================================================================================
WORK_KINDS = ('spawn', 'user_call', 'sleep')
WORK_CALLS = ('run_node', 'run_node_default', 'emit_on_node_start', 'emit_on_node_complete', 'save_node_result',
              '_create_task', '__execute_node', '_execute_node', '_run_node', '_run_dag', '_run_switch', '_run_oneof',
              '_run_recurrent_subgraph')


def is_work(e):
    if e.kind in WORK_KINDS:
        return True
    if e.kind == 'call':
        short = e.fn.split('.')[-1]
        return short in WORK_CALLS
    return False


def common_clauses(effects):
    out = []
    # C02.L: no lock is held across a yield (Condition.wait releases it)
    bad = [e for e in effects if e.kind == 'yield' and e.held]
    out.append(('no-lock-held-across-a-yield|C02,C13', not bad))
    # C13.c: once cancelled, the coroutine starts no new work and blocks on nothing
    idx = [i for i, e in enumerate(effects) if e.kind == 'cancelled']
    if idx:
        after = effects[idx[0] + 1:]
        out.append(('after-cancellation-no-new-work|C13', not any(is_work(e) for e in after)))
        out.append(('after-cancellation-no-blocking-await|C13', not any(e.kind == 'yield' for e in after)))
    return out


def was_cancelled(effects):
    return any(e.kind == 'cancelled' for e in effects)


def notified_conds(effects):
    """python list of condition-name terms notified directly (notify effects) on this path"""
    return [e.cond for e in effects if e.kind == 'notify']


def notifies(it, effects, cond):
    """formula: condition ``cond`` is notified on this path (directly or through a contracted unlock helper)"""
    st = it.st
    c = T(cond, st)
    alts = []
    for e in effects:
        if e.kind == 'notify':
            alts.append(e.cond == c)
        elif e.kind == 'call' and e.exc is None:
            short = e.fn.split('.')[-1]
            if short == '__unlock_itself':
                alts.append(T(e.a.node_id, st) == c)
            elif short == '__unlock_run_method':
                alts.append(c == mk_str('run'))
            elif short == '__unlock_descendants':
                alts.append(NOTIF(T(e.a.node_id, st), c))
    return z3_or(*alts) if alts else False


RUN = mk_str('run')


class CoroBase(MgrCoroContract):
    options = {'inject_cancel': True}

    def raises(self, it, pre, a):
        return [ExcCase('cancelled', 'CancelledError', may=True)] + self.other_raises(it, pre, a)

    def other_raises(self, it, pre, a):
        return []

    def effects_spec(self, it, pre, post, a, outcome, value, effects):
        out = common_clauses(effects)
        if was_cancelled(effects):
            if outcome == 'raise':
                out.append(('cancellation-surfaces-as-CancelledError|C13',
                            subcls(PyV.ecls(value.t), z3.IntVal(CANCELLED)) if self.cancel_propagates else True))
            return out + list(self.cancel_trace(it, pre, post, a, outcome, value, effects))
        return out + list(self.trace(it, pre, post, a, outcome, value, effects))

    cancel_propagates = True

    def trace(self, it, pre, post, a, outcome, value, effects):
        return []

    def cancel_trace(self, it, pre, post, a, outcome, value, effects):
        return []


# ======================================================================================
# lock manager and unlock helpers
# ======================================================================================
LOCK_KEY = 'DAGConcurrentManagerLock'


def new_lock(it):
    from .shapes import new_lock_manager
    from pyvc.libmodels import new_world
    new_world(it)
    return new_lock_manager(it)


@contract
class L_unlock_condition(Contract):
    path = MANAGER_PY
    name = 'DAGConcurrentManagerLock.unlock_condition'
    returns = 'none'
    inline_at_calls = True
    props = ('C02', 'C13')
    doc = 'notifies exactly that condition, holding its lock; never yields (lock fast path)'

    def setup(self, it):
        return new_lock(it), CallArgs([SymV(it.st.fresh_val('cond'))])

    def effects_spec(self, it, pre, post, a, outcome, value, effects):
        ns = [e for e in effects if e.kind == 'notify']
        c = T(a.condition_name, it.st)
        return [('exactly-one-notification', len(ns) == 1),
                ('of-the-named-condition', ns[0].cond == c if len(ns) == 1 else False),
                ('does-not-yield', not any(e.kind == 'yield' for e in effects)),
                ('lock-released-at-exit', not it.st.ghost.get('held'))]


@contract
class L_wait_for_condition(Contract):
    path = MANAGER_PY
    name = 'DAGConcurrentManagerLock.wait_for_condition'
    returns = 'none'
    inline_at_calls = True
    props = ('C02', 'C13', 'C03')
    doc = 'returns only in a state where the predicate holds; holds no lock at any yield'

    def setup(self, it):
        st = it.st
        lock = new_lock(it)
        flag = st.alloc('dict', map=SymMap.fresh(st, 'flags'))
        self._flag = flag
        from pyvc.interp import LibFn
        from pyvc.values import wrap_bool
        # an arbitrary predicate over some shared state that may change while waiting
        key = SymV(st.fresh_val('k'))
        pred = LibFn('some-predicate', lambda it_, ca: wrap_bool(it_.dict_sym(flag).has(T(key, st))))
        self._key = key
        return lock, CallArgs([SymV(st.fresh_val('cond')), pred])

    def on_yield(self, it, label):
        havoc_location(it.st, self._flag, 'map', 'flags')

    def modifies(self, it, pre, a):
        return [(self._flag, 'map')]      # interference only

    def ensures(self, it, pre, post, a, res):
        return [('predicate-holds-at-return', post.getf(self._flag, 'map').has(T(self._key, it.st)))]

    def effects_spec(self, it, pre, post, a, outcome, value, effects):
        ws = [e for e in effects if e.kind == 'wait']
        return [('waits-on-the-named-condition', len(ws) == 1 and z3.simplify(ws[0].cond == T(a.condition_name, it.st))),
                ('no-lock-held-across-a-yield', not [e for e in effects if e.kind == 'yield' and e.held]),
                ('lock-released-at-exit', not it.st.ghost.get('held'))]


def _unlocker(method, target, doc_):
    class C(MgrContract):
        name = f'DAGRunConcurrentManager.{method}'
        returns = 'none'
        props = ('C02', 'C13')
        doc = doc_

        def setup(self, it):
            args = [SymV(it.st.fresh_val('n'))] if target != 'run' else []
            return new_manager(it), CallArgs(args)

        def effects_spec(self, it, pre, post, a, outcome, value, effects):
            ns = [e for e in effects if e.kind == 'notify']
            want = RUN if target == 'run' else T(a.node_id, it.st)
            return [('exactly-one-notification', len(ns) == 1),
                    ('of-the-right-condition', ns[0].cond == want if len(ns) == 1 else False),
                    ('does-not-yield', not any(e.kind == 'yield' for e in effects))]
    C.__name__ = f'M_{method}'
    return contract(C)


_unlocker('__unlock_itself', 'node', 'notifies the node\'s own condition; no yield')
_unlocker('__unlock_run_method', 'run', 'notifies the RUN condition; no yield')


@contract
class M_unlock_execution_lock(MgrContract):
    name = 'DAGRunConcurrentManager.__unlock_execution_lock'
    returns = 'none'
    props = ('C04', 'C02')
    doc = 'sets the node\'s execution event'

    def setup(self, it):
        return new_manager(it), CallArgs([SymV(it.st.fresh_val('n'))])

    def modifies(self, it, pre, a):
        return [(it.st.ghost['world'], 'event_set')]

    def ensures(self, it, pre, post, a, res):
        w = it.st.ghost['world']
        return [('event-set', post.getf(w, 'event_set').mem == pre.getf(w, 'event_set').add(T(a.node_id, it.st)).mem)]


@contract
class M_unlock_descendants(MgrContract):
    name = 'DAGRunConcurrentManager.__unlock_descendants'
    returns = 'none'
    props = ('C02', 'C09', 'C13')
    doc = 'every condition in notifset(n) is notified; no yield'

    def setup(self, it):
        m = new_manager(it)
        return m, CallArgs([SymV(it.st.fresh_val('n'))])

    def effects_spec(self, it, pre, post, a, outcome, value, effects):
        return [('does-not-yield', not any(e.kind == 'yield' for e in effects)),
                ('descendants-computed-for-this-node', [T(e.a.node_id, it.st) for e in calls(effects, '__get_descendants')]
                 and z3.simplify(T(calls(effects, '__get_descendants')[0].a.node_id, it.st) == T(a.node_id, it.st)))]

    @property
    def loops(self):
        def body_post(ctx):
            ns = [e for e in ctx.iter_effects if e.kind == 'notify']
            want = ctx.seq.at(ctx.i_before)
            return [('each-descendant-notified-once', len(ns) == 1),
                    ('the-iterated-descendant', ns[0].cond == want if len(ns) == 1 else False),
                    ('no-yield', not any(e.kind == 'yield' for e in ctx.iter_effects))]
        return [LoopSpec(text='descendants', body_post=body_post)]


@contract
class M_raise_exc(MgrContract):
    name = 'DAGRunConcurrentManager.__raise_exc'
    returns = 'none'
    props = ('C02', 'C05', 'C13')
    doc = 'notifies RUN, then raises exactly the given exception, with no yield in between'

    def setup(self, it):
        st = it.st
        exc = SymV(PyV.exc(st.fresh_int('ecls'), st.fresh_int('eid')))
        return new_manager(it), CallArgs([exc])

    def requires(self, it, pre, a):
        return [('is-an-exception', PyV.is_exc(T(a.exc, it.st)))]

    def ensures(self, it, pre, post, a, res):
        return [('never-returns', False)]

    def raises(self, it, pre, a):
        e = T(a.exc, it.st)
        return [ExcCase('the-given-exception', None, when=True,
                        ensures=lambda post, exc: [('same-object', exc.t == e)])]

    def effects_spec(self, it, pre, post, a, outcome, value, effects):
        return [('RUN-notified-before-raising', notifies(it, effects, 'run')),
                ('does-not-yield', not any(e.kind == 'yield' for e in effects))]


# ======================================================================================
# well-formedness of the (immutable) graph and of the node configuration — established by the builder (C15/C16)
# and by the validity of the user's retry settings; precondition of every manager coroutine
# ======================================================================================
ENGINE_NAMES = ('node', 'node_id', 'force_default')
ADDL = mk_str('additional_data')


def wf_node(m, n):
    """per-node facts the coroutines need about a node they are about to run"""
    p, p2 = z3.Consts('wp wp2', PyV)
    c = z3.Int('wc')
    node = m.node_map.at(n)
    att = attr_fn('attempts')(node)
    exs = attr_fn('exceptions')(node)
    return z3.And(
        m.G.node(n),
        FA([p, p2], z3.Implies(z3.And(m.G.edge(p, n), m.G.edge(p2, n), m.G.kw(p, n) == m.G.kw(p2, n),
                                      m.G.kw(p, n) != NONE), p == p2)),
        FA([p], z3.Implies(m.G.edge(p, n), z3.And(m.G.kw(p, n) != ADDL, *[m.G.kw(p, n) != mk_str(x) for x in ENGINE_NAMES]))),
        z3.Implies(z3.And(z3.Not(m.G.is_switch(n)), z3.Not(m.G.is_head(n))), z3.And(
            m.node_map.has(n), node != NONE,
            z3.Or(att == NONE, z3.And(PyV.is_int_(att), PyV.i(att) >= 0)),
            z3.Implies(truthy_term(exs), FA([c], z3.Implies(TMATCH(exs, c), subcls(c, z3.IntVal(EXC))),
                                            patterns=[TMATCH(exs, c)])))),
    )


def inv_no_result_for_switch(m):
    """INV1: synthetic switch nodes never get a stored result"""
    s = z3.Const('is1', PyV)
    return FA([s], z3.Implies(m.G.is_switch(s), z3.Not(m.S.R.data.has(s))), patterns=[m.S.R.data.has(s)])


def switch_preds_resolved(m, n):
    p = z3.Const('sp', PyV)
    return FA([p], z3.Implies(z3.And(n != m.input, m.G.edge(p, n), m.G.kw(p, n) != NONE, m.G.is_switch(p)),
                              PyV.is_case(m.S.SW.get(p, z3.BoolVal(False)))))


def input_kwargs_wf(m):
    return z3.And(*[z3.Not(m.input_kwargs.has(mk_str(x))) for x in ENGINE_NAMES])


# ======================================================================================
# _execute_node  (C04, C14, C10, C03)
# ======================================================================================
@contract
class M_execute_node(CoroBase):
    name = 'DAGRunConcurrentManager._execute_node'
    returns = 'val'
    yields = True
    props = ('C04', 'C14', 'C10', 'C03', 'C13', 'C02', 'C12', 'C19')
    doc = ('first arrival: claims the node atomically, start event, kwargs read once and handed unchanged to the retry '
           'loop, completion event, value / contained failure / re-raised failure; late arrival: waits for the '
           'execution event and returns the stored result, nothing else')

    def setup(self, it):
        st = it.st
        m = new_manager(it)
        d = new_subdag(it, m)
        return m, CallArgs([d, SymV(st.fresh_val('n')), SymB(st.fresh_bool('fd'))])

    def requires(self, it, pre, a):
        m = self.mv(pre, a)
        n = T(a.node_id, it.st)
        return [('node-well-formed', wf_node(m, n)),
                ('a-real-node', z3.And(z3.Not(m.G.is_switch(n)), z3.Not(m.G.is_head(n)))),
                ('switch-inputs-resolved|C03,C09', switch_preds_resolved(m, n)),
                ('input-kwargs-do-not-use-engine-names', input_kwargs_wf(m))]

    def other_raises(self, it, pre, a):
        return [ExcCase('node-failure-or-collaborator', None, may=True)]

    def call_effects(self, it, pre, post, a, res):
        m = self.mv(pre, a)
        it.st.emit('executed', node=a.node_id, first_arrival=z3.Not(m.S.P.vis(T(a.node_id, it.st))))

    def _classify(self, effects):
        ex = calls(effects, 'exists_processed_node')
        claim = calls(effects, 'set_node_as_processed')
        return ex, claim

    def trace(self, it, pre, post, a, outcome, value, effects):
        st = it.st
        m0 = self.mv(pre, a)
        n = T(a.node_id, st)
        sub = SubV(pre, a.dag)
        first = z3.Not(m0.S.P.vis(n))
        claim = calls(effects, 'set_node_as_processed')
        starts = calls(effects, 'emit_on_node_start')
        completes = calls(effects, 'emit_on_node_complete')
        inner = calls(effects, '__execute_node')
        kws = calls(effects, '_get_node_kwargs')
        ewaits = [e for e in effects if e.kind == 'event_wait']
        yields = [i for i, e in enumerate(effects) if e.kind == 'yield']
        out = []
        if not claim:
            # ---------------- late arrival ------------------------------------------------
            out.append(('late-arrival-only-if-already-claimed|C04', z3.Not(first)))
            out.append(('late-arrival-executes-nothing|C04,C14', not starts and not completes and not inner
                        and not user_calls(effects)))
            out.append(('late-arrival-waits-for-the-execution-event|C04', len(ewaits) == 1 and
                        z3.simplify(ewaits[0].event == n)))
            if outcome == 'return':
                gets = calls(effects, 'get_node_result')
                ok = len(gets) == 1
                if ok:
                    at_wake = self.mv(gets[0].pre, a)
                    out.append(('late-arrival-returns-the-current-visible-result|C04,C03', z3.And(
                        T(gets[0].a.node_id, st) == n, T(value, st) == at_wake.S.R.get(n, z3.BoolVal(False)))))
                else:
                    out.append(('late-arrival-returns-the-current-visible-result|C04,C03', False))
            else:
                out.append(('late-arrival-does-not-fail|C04', False))
            return out
        # -------------------- first arrival ----------------------------------------------
        ci = effects.index(claim[0])
        out.append(('first-arrival-only-if-unclaimed|C04', first))
        out.append(('claim-is-atomic-with-the-test: no yield before set_node_as_processed|C04',
                    not [y for y in yields if y < ci]))
        out.append(('claims-this-node|C04', z3.And(T(claim[0].a.node_id, st) == n, z3.BoolVal(len(claim) == 1))))
        collab_failed = any(e.exc is not None for e in starts + completes)
        out.append(('one-start-event-for-this-node|C14', len(starts) == 1 and
                    z3.simplify(T(starts[0].a.node_id, st) == n)))
        if starts and starts[0].exc is not None:
            out.append(('event-manager-failure-propagates|C02', outcome == 'raise' and z3.simplify(value.t == starts[0].exc.t)))
            return out
        out.append(('start-event-after-the-claim|C04,C14', bool(starts) and effects.index(starts[0]) > ci))
        ok = len(kws) == 1 and len(inner) == 1
        out.append(('kwargs-read-once-and-retry-loop-entered-once|C03,C12', ok))
        if not ok:
            return out
        kw, inn = kws[0], inner[0]
        out.append(('kwargs-of-this-node|C03', T(kw.a.node_id, st) == n))
        out.append(('kwargs-read-after-the-start-event|C14', effects.index(kw) > effects.index(starts[0])))
        out.append(('kwargs-handed-unchanged-to-every-attempt|C03,C12', inn.a.kwmap.eq(kw.post.getf(kw.res, 'map'))))
        out.append(('no-yield-between-reading-kwargs-and-entering-the-retry-loop|C03',
                    not [y for y in yields if effects.index(kw) < y < effects.index(inn)
                         and effects[y].label != inn.fn]))
        out.append(('retry-loop-for-this-node-and-flag|C12', z3.And(T(inn.a.node_id, st) == n,
                                                                    B(inn.a.force_default) == B(a.force_default))))
        if inn.exc is None:
            # value produced
            okc = len(completes) >= 1 and effects.index(completes[0]) > effects.index(inn)
            out.append(('completion-event-after-a-produced-value|C14', okc))
            if okc:
                c0 = completes[0]
                out.append(('completion-event-reports-success|C14', z3.And(T(c0.a.node_id, st) == n, T(c0.a.error, st) == NONE)))
                if c0.exc is None:
                    out.append(('exactly-one-final-completion-event|C14', len(completes) == 1))
                    out.append(('returns-the-produced-value|C01,C14', outcome == 'return' and
                                z3.simplify(T(value, st) == T(inn.res, st))))
        else:
            e = inn.exc.t
            is_exc = is_exception(e)
            if completes:
                c0 = completes[0]
                out.append(('completion-event-only-for-Exceptions|C14', is_exc))
                out.append(('completion-event-reports-the-raised-exception|C14', z3.And(
                    T(c0.a.node_id, st) == n, T(c0.a.error, st) == e)))
                if c0.exc is None:
                    out.append(('exactly-one-final-completion-event|C14', len(completes) == 1))
                    if outcome == 'return':
                        out.append(('failure-contained-only-inside-a-one-of-dag|C10', sub.is_oneof))
                        out.append(('contained-failure-is-returned-as-a-value|C10', T(value, st) == e))
                    else:
                        out.append(('failure-raised-outside-one-of|C05,C10', z3.Not(sub.is_oneof)))
                        out.append(('the-node-exception-itself-is-re-raised|C05', value.t == e))
            else:
                out.append(('non-Exception-failures-propagate-without-event|C12,C14', z3.And(
                    z3.Not(is_exc), z3.BoolVal(outcome == 'raise'), value.t == e if outcome == 'raise' else False)))
        return out

    def cancel_trace(self, it, pre, post, a, outcome, value, effects):
        return [('cancelled-coroutine-exits-by-raising|C13', outcome == 'raise')]
