"""
Contracts for the coroutines of ml_pipeline_engine/dag/manager.py (DESIGN §3.4): trace (ghost effect log)
specifications per atomic segment, notification discipline, cancellation posts.
"""
import z3
from pyvc.values import FA, mark

from pyvc.contract import Contract, ExcCase, LoopSpec, contract, A, same_value, havoc_location, At
from pyvc.interp import CallArgs, StarSeq, attr_fn, TMATCH
from pyvc.values import Unsupported
from pyvc.state import SymMap, SymSet, SymSeq
from pyvc.values import (PyV, NONE, TRUE, FALSE, SymV, SymB, SymI, SymS, Ref, lift, lower, as_z3, subcls, LATTICE,
                         mk_str, mk_int, truthy_term, IntS, BoolS, z3_and, z3_or, z3_not)
from pyvc.libmodels import GraphOps, T_PENDING, T_OK, T_EXC, T_CANCELLED, Arr

from .shapes import (MANAGER_PY, MGR, new_manager, new_subdag, MV, GV, SubV, StorageView, T, B, new_obj, GRAPH_CLS)
from .manager_seq import MgrContract, node_in_dag, NOTIF, notif_axioms, READY, SUBST, BASE_PRED
from .collab import user_calls, calls, fresh_kwargs

EXC = LATTICE.codes['Exception']
CANCELLED = LATTICE.codes['CancelledError']


def is_exception(e):
    """the value is an instance of Exception (not merely BaseException)"""
    return z3.And(PyV.is_exc(e), subcls(PyV.ecls(e), z3.IntVal(EXC)))


def tail_after_loop(effects):
    """effects of the last (current) loop iteration: everything after the last loop_summary marker"""
    idx = -1
    for i, e in enumerate(effects):
        if e.kind == 'loop_summary':
            idx = i
    return effects[idx + 1:]


class MgrCoroContract(MgrContract):
    """coroutines of the manager: interference at every yield = havoc of the shared state under the rely"""

    def shared_locs(self, it):
        st = it.st
        m = it.entry_args.self if it.entry_args is not None else None
        snap = st.snapshot()
        mv = MV(snap, m)
        locs = []
        for hd in (mv.S.R, mv.S.P, mv.S.SW):
            locs += hd.locs()
        w = mv.world
        locs += [(w, 'task_st'), (w, 'task_exc'), (w, 'task_cancel'), (w, 'event_set'), (w, 'next_task'),
                 (mv.tasks_ref, 'elems'), (mv.G.g, 'na:is_oneof_child'), (mv.G.g, 'na:additional_data')]
        return locs

    def rely(self, it, m0, m1):
        """what other coroutines of the same run may do between two segments (each clause is also a guarantee
        obligation on the writers, see C03/C04 contracts)"""
        t = z3.Int('rt')
        v = z3.Const('rv', PyV)
        k = z3.Const('rk', PyV)
        nt0 = m0.snap.getf(m0.world, 'next_task').t
        nt1 = m1.snap.getf(m1.world, 'next_task').t
        return [f for _n, f in self.rely_named(it, m0, m1)]

    def rely_named(self, it, m0, m1):
        t = z3.Int('rt')
        v = z3.Const('rv', PyV)
        k = z3.Const('rk', PyV)
        nt0 = m0.snap.getf(m0.world, 'next_task').t
        nt1 = m1.snap.getf(m1.world, 'next_task').t
        return [
            # r5: tasks only grow, states only move pending -> done, cancel requests stay
            ('r5-task-counter-monotone', nt1 >= nt0),
            ('r5-registry-grows', FA([v], z3.Implies(m0.tasks.contains(v), m1.tasks.contains(v)),
                                     patterns=[m0.tasks.contains(v), m1.tasks.contains(v)])),
            ('r5-registry-holds-created-tasks', FA([v], z3.Implies(m1.tasks.contains(v), z3.And(
                PyV.is_task(v), PyV.tid(v) >= 0, PyV.tid(v) < nt1)), patterns=[m1.tasks.contains(v)])),
            ('r5-finished-tasks-stay-finished', FA([t], z3.Implies(
                z3.And(t >= 0, t < nt0, m0.task_st(t) != T_PENDING),
                z3.And(m1.task_st(t) == m0.task_st(t), m1.task_exc(t) == m0.task_exc(t))),
                patterns=[m1.task_st(t), m0.task_st(t), m1.task_exc(t)])),
            ('r5-cancel-requests-stay', FA([t], z3.Implies(z3.And(t >= 0, t < nt0, m0.task_cancel(t)), m1.task_cancel(t)),
                                           patterns=[m1.task_cancel(t), m0.task_cancel(t)])),
            ('r5-failed-tasks-carry-exceptions', FA([t], z3.Implies(m1.task_st(t) == T_EXC, PyV.is_exc(m1.task_exc(t))),
                                                   patterns=[m1.task_exc(t)])),
            # events are never cleared
            ('events-stay-set', FA([k], z3.Implies(m0.event_set(k), m1.event_set(k)), patterns=[m1.event_set(k), m0.event_set(k)])),
            # r3: a recorded switch decision stays a CaseResult (it may be replaced inside a recurrent re-iteration)
            ('r3-switch-decisions-stay', FA([k], z3.Implies(PyV.is_case(m0.S.SW.get(k, z3.BoolVal(False))),
                                                            PyV.is_case(m1.S.SW.get(k, z3.BoolVal(False)))),
                                            patterns=[m1.S.SW.data.at(k), m0.S.SW.data.at(k)])),
            # r1: the only structural flag the engine changes is is_oneof_child, and only from set to cleared
            ('r1-candidates-only-get-unmarked', FA([k], z3.Implies(z3.Not(m0.G.is_child(k)), z3.Not(m1.G.is_child(k))),
                                                   patterns=[m1.G.na('is_oneof_child', k), m0.G.na('is_oneof_child', k)])),
            # INV1: no result is ever stored for a synthetic switch node (guarantee side: every set_node_result site)
            ('INV1-no-result-for-switch-nodes', FA([k], z3.Implies(m1.G.is_switch(k), z3.Not(m1.S.R.data.has(k))),
                                                   patterns=[m1.S.R.data.has(k)])),
        ]

    def modifies(self, it, pre, a):
        # interference: what *other* coroutines may write while this one is suspended.  The function's own writes
        # are pinned down by its trace specification (which storage operations it performs, on which keys).
        saved = it.entry_args
        it.entry_args = a
        try:
            return self.shared_locs(it)
        finally:
            it.entry_args = saved

    def guarantee(self, it, pre, post, a):
        # guarantee side of the rely: whatever happened between entry and exit (this coroutine's own writes and the
        # interference it tolerated) respects every rely clause; INV1 is an invariant (kept if it held at entry)
        m0, m1 = MV(pre, a.self), MV(post, a.self)
        out = []
        for n, f in self.rely_named(it, m0, m1):
            if n.startswith('INV1'):
                f = z3.Implies(inv_no_result_for_switch(m0), f)
            out.append((f'guarantee:{n}', f))
        return out

    def ensures(self, it, pre, post, a, res):
        return self.guarantee(it, pre, post, a) + list(self.extra_ensures(it, pre, post, a, res))

    def with_guarantee(self, it, pre, a, cases):
        """exceptional exits owe the same guarantee"""
        for c in cases:
            if c.ensures is None:
                c.ensures = (lambda post, exc, _pre=pre, _a=a: self.guarantee(it, _pre, post, _a))
        return cases

    def extra_ensures(self, it, pre, post, a, res):
        return []

    def on_yield(self, it, label):
        if it.entry_args is None or not hasattr(it.entry_args, 'self') or it.entry_args.self is None:
            return
        st = it.st
        m0 = MV(st.snapshot(), it.entry_args.self)
        for ref, field in self.shared_locs(it):
            havoc_location(st, ref, field, field.replace(':', '_'))
        m1 = MV(st.snapshot(), it.entry_args.self)
        for f in self.rely(it, m0, m1):
            st.assume(f)


# ======================================================================================
# __execute_node  (C12)
# ======================================================================================
def eff_attempts(node):
    raw = attr_fn('attempts')(node)
    return z3.If(truthy_term(raw), raw, mk_int(1))


def eff_delay(node):
    raw = attr_fn('delay')(node)
    return z3.If(truthy_term(raw), raw, mk_int(0))


def exc_matches_policy(node, e):
    raw = attr_fn('exceptions')(node)
    return z3.If(truthy_term(raw), TMATCH(raw, PyV.ecls(e)), subcls(PyV.ecls(e), z3.IntVal(EXC)))


@contract
class M_execute_node_inner(MgrCoroContract):
    name = 'DAGRunConcurrentManager.__execute_node'
    returns = 'val'
    yields = True
    props = ('C12', 'C14', 'C03', 'C04', 'C13')
    doc = 'retry loop: the configured attempts/delay/exceptions/use_default policy, unbounded in attempts'
    # the property says nothing about a get_default() that itself raises: assumed not to (listed assumption)
    options = {'default_raises': False}

    def setup(self, it):
        st = it.st
        m = new_manager(it)
        return m, CallArgs([], dict(node_id=SymV(st.fresh_val('node_id')), force_default=SymB(st.fresh_bool('fd'))),
                           [fresh_kwargs(it)])

    def bind(self, it, fi, self_val, ca):
        kw = dict(ca.kwargs)
        node_id = ca.args[0] if ca.args else kw.pop('node_id')
        fd = kw.pop('force_default', False)
        if kw or len(ca.starmaps) > 1:
            raise Exception('unexpected call shape for __execute_node')
        sm = it.dict_sym(ca.starmaps[0]) if ca.starmaps else SymMap.empty()
        return A(self=self_val, node_id=node_id, force_default=fd, kwmap=sm)

    def node(self, it, pre, a):
        return MV(pre, a.self).node_map.at(T(a.node_id, it.st))

    def requires(self, it, pre, a):
        m = MV(pre, a.self)
        node = self.node(it, pre, a)
        att = attr_fn('attempts')(node)
        exs = attr_fn('exceptions')(node)
        c = z3.Int('vc')
        return [
            ('node-in-node-map', m.node_map.has(T(a.node_id, it.st))),
            ('node-class-present', node != NONE),
            # validity of the configuration (the property statement presupposes it)
            ('attempts-is-None-or-natural', z3.Or(att == NONE, z3.And(PyV.is_int_(att), PyV.i(att) >= 0))),
            ('retried-classes-are-Exceptions', z3.Implies(truthy_term(exs), FA([c], z3.Implies(
                TMATCH(exs, c), subcls(c, z3.IntVal(EXC))), patterns=[TMATCH(exs, c)]))),
            ('engine-parameter-names-not-used-as-kwargs', z3.And(
                z3.Not(a.kwmap.has(mk_str('node'))), z3.Not(a.kwmap.has(mk_str('node_id'))),
                z3.Not(a.kwmap.has(mk_str('force_default'))))),
        ]

    def raises(self, it, pre, a):
        return self.with_guarantee(it, pre, a, [ExcCase('node-failure-or-collaborator', None, may=True)])

    # ---- loop -----------------------------------------------------------------------
    @property
    def loops(self):
        outer = self

        def ghost_init(it, env):
            it.st.ghost['ghost:calls'] = 0

        def A_of(ctx):
            return PyV.i(eff_attempts(outer.node(ctx.it, ctx.pre, ctx.a)))

        def inv(ctx):
            n = ctx.it.as_int(ctx.var('n_attempts'))
            calls_ = ctx.it.as_int(ctx.var('ghost:calls'))
            return [('attempt-counter-in-range', z3.And(n >= 1, n <= A_of(ctx))),
                    ('invocations-so-far', calls_ == n - 1)]

        def measure(ctx):
            return A_of(ctx) - ctx.it.as_int(ctx.var('n_attempts'))

        def ghost_update(ctx):
            rn = calls(ctx.iter_effects, 'run_node')
            cur = ctx.it.as_int(ctx.st.ghost['ghost:calls'])
            ctx.st.ghost['ghost:calls'] = SymI(z3.simplify(cur + len(rn)))

        def body_post(ctx):
            it, a, st = ctx.it, ctx.a, ctx.st
            node = outer.node(it, ctx.pre, a)
            evs = [e for e in ctx.iter_effects if e.kind in ('call', 'sleep', 'user_call')]
            shape = (len(evs) == 3 and evs[0].kind == 'call' and evs[0].fn == 'run_node' and evs[0].exc is not None
                     and evs[1].kind == 'call' and evs[1].fn.endswith('emit_on_node_complete') and evs[2].kind == 'sleep')
            out = [('a-retry-is-exactly: failed invocation, completion event with that error, sleep', shape)]
            if shape:
                rn, em, sl = evs
                e = rn.exc.t
                out += outer.invocation_clauses(it, ctx.pre, a, rn)
                out.append(('retried-only-for-matching-exceptions', exc_matches_policy(node, e)))
                out.append(('event-reports-the-attempt-error', z3.And(T(em.a.error, st) == e,
                                                                      T(em.a.node_id, st) == T(a.node_id, st))))
                out.append(('sleeps-the-configured-delay', T(sl.delay, st) == eff_delay(node)))
            return out

        return [LoopSpec(text='True', havoc={'n_attempts': 'int', 'ghost:calls': 'int'}, inv=inv, measure=measure,
                         ghost_init=ghost_init, ghost_update=ghost_update, body_post=body_post)]

    def invocation_clauses(self, it, pre, a, rn):
        st = it.st
        node = self.node(it, pre, a)
        return [('invoked-with-the-node-class', T(rn.a.node, st) == node),
                ('invoked-with-the-node-id', T(rn.a.node_id, st) == T(a.node_id, st)),
                ('invoked-with-the-same-kwargs', rn.a.kwmap.eq(a.kwmap)),
                ('no-positional-arguments', rn.a.n_pos == 0)]

    def effects_spec(self, it, pre, post, a, outcome, value, effects):
        st = it.st
        node = self.node(it, pre, a)
        tail = tail_after_loop(effects)
        rn = calls(tail, 'run_node')
        df = calls(tail, 'run_node_default')
        em = calls(tail, 'emit_on_node_complete')
        sl = [e for e in tail if e.kind == 'sleep']
        fd = B(a.force_default)
        use_default = truthy_term(attr_fn('use_default')(node))
        A_ = PyV.i(eff_attempts(node))
        n_calls_before = it.as_int(st.ghost.get('ghost:calls', 0))
        out = [('at-most-one-invocation-per-iteration', len(rn) <= 1),
               ('at-most-one-default-call', len(df) <= 1),
               ('never-more-than-attempts-invocations', n_calls_before + len(rn) <= A_)]
        for r in rn:
            out += self.invocation_clauses(it, pre, a, r)
        for d in df:
            out.append(('default-from-the-node-class', T(d.a.node, st) == node))
            out.append(('default-gets-the-same-kwargs', d.a.kwmap.eq(a.kwmap)))
        out.append(('force_default-invokes-nothing', z3.Implies(fd, z3.BoolVal(len(rn) == 0))))
        out.append(('without-force_default-the-node-is-invoked', z3.Implies(z3.Not(fd), z3.BoolVal(len(rn) == 1))))
        if outcome == 'return':
            res = T(value, st)
            if rn and rn[0].exc is None:
                out.append(('value-of-the-successful-attempt', z3.And(res == T(rn[0].res, st), z3.BoolVal(not df))))
                out.append(('no-event-or-sleep-after-success', not em and not sl))
            elif rn:
                e = rn[0].exc.t
                n_now = n_calls_before + 1
                ok = bool(df) and df[0].exc is None
                out.append(('a-failed-last-attempt-yields-the-default', ok))
                if ok:
                    out.append(('default-value-returned', res == T(df[0].res, st)))
                    out.append(('default-only-if-opted-in', use_default))
                    out.append(('default-only-when-exhausted-or-not-retryable', z3.Or(
                        z3.And(exc_matches_policy(node, e), n_now == A_),
                        z3.And(z3.Not(exc_matches_policy(node, e)), is_exception(e)))))
            else:
                ok = bool(df) and df[0].exc is None
                out.append(('forced-default-value-returned', ok and res == T(df[0].res, st)))
                out.append(('forced-default-only-when-asked', fd))
        else:
            x = value.t
            if df and df[0].exc is not None:
                out.append(('get_default-failure-propagates', x == df[0].exc.t))
                if rn:
                    e = rn[0].exc.t
                    out.append(('default-only-if-opted-in', use_default))
                    out.append(('default-only-when-exhausted-or-not-retryable', z3.Or(
                        z3.And(exc_matches_policy(node, e), n_calls_before + 1 == A_),
                        z3.And(z3.Not(exc_matches_policy(node, e)), is_exception(e)))))
            elif em and em[0].exc is not None:
                out.append(('event-manager-failure-propagates', x == em[0].exc.t))
            elif rn and rn[0].exc is not None:
                e = rn[0].exc.t
                out.append(('the-node-exception-itself-is-raised', x == e))
                out.append(('no-default-was-computed', not df))
                out.append(('raised-only-when-policy-says-so', z3.Or(
                    z3.And(exc_matches_policy(node, e), n_calls_before + 1 == A_, z3.Not(use_default)),
                    z3.And(z3.Not(exc_matches_policy(node, e)), is_exception(e), z3.Not(use_default)),
                    z3.And(z3.Not(exc_matches_policy(node, e)), z3.Not(is_exception(e))))))
            else:
                out.append(('exception-has-a-known-origin', False))
        return out


# ======================================================================================
# common clauses of every manager coroutine
# ======================================================================================
WORK_KINDS = ('spawn', 'user_call', 'sleep')
WORK_CALLS = ('run_node', 'run_node_default', 'emit_on_node_start', 'emit_on_node_complete', 'save_node_result',
              '_create_task', '__execute_node', '_execute_node', '_run_node', '_run_dag', '_run_switch', '_run_oneof',
              '_run_recurrent_subgraph')


def is_work(e):
    if e.kind in WORK_KINDS:
        return True
    if e.kind == 'call':
        short = e.fn.split('.')[-1]
        return short in WORK_CALLS
    return False


def common_clauses(effects):
    out = []
    # C02.L: no lock is held across a yield (Condition.wait releases it)
    bad = [e for e in effects if e.kind == 'yield' and e.held]
    out.append(('no-lock-held-across-a-yield|C02,C13', not bad))
    # C13.c: once cancelled, the coroutine starts no new work and blocks on nothing
    idx = [i for i, e in enumerate(effects) if e.kind == 'cancelled']
    if idx:
        after = effects[idx[0] + 1:]
        out.append(('after-cancellation-no-new-work|C13', not any(is_work(e) for e in after)))
        out.append(('after-cancellation-no-blocking-await|C13', not any(e.kind == 'yield' for e in after)))
    return out


def was_cancelled(effects):
    return any(e.kind == 'cancelled' for e in effects)


def notified_conds(effects):
    """python list of condition-name terms notified directly (notify effects) on this path"""
    return [e.cond for e in effects if e.kind == 'notify']


def notifies(it, effects, cond):
    """formula: condition ``cond`` is notified on this path (directly or through a contracted unlock helper)"""
    st = it.st
    c = T(cond, st)
    alts = []
    for e in effects:
        if e.kind == 'notify':
            alts.append(e.cond == c)
        elif e.kind == 'call' and e.exc is None:
            short = e.fn.split('.')[-1]
            if short == '__unlock_itself':
                alts.append(T(e.a.node_id, st) == c)
            elif short == '__unlock_run_method':
                alts.append(c == mk_str('run'))
            elif short == '__unlock_descendants':
                alts.append(NOTIF(T(e.a.node_id, st), c))
    return z3_or(*alts) if alts else False


RUN = mk_str('run')


class CoroBase(MgrCoroContract):
    options = {'inject_cancel': True}

    def raises(self, it, pre, a):
        return self.with_guarantee(it, pre, a, [ExcCase('cancelled', 'CancelledError', may=True)] + self.other_raises(it, pre, a))

    def other_raises(self, it, pre, a):
        return []

    def effects_spec(self, it, pre, post, a, outcome, value, effects):
        out = common_clauses(effects)
        if was_cancelled(effects):
            if outcome == 'raise':
                out.append(('cancellation-surfaces-as-CancelledError|C13',
                            subcls(PyV.ecls(value.t), z3.IntVal(CANCELLED)) if self.cancel_propagates else True))
            return out + list(self.cancel_trace(it, pre, post, a, outcome, value, effects))
        return out + list(self.trace(it, pre, post, a, outcome, value, effects))

    cancel_propagates = True

    def trace(self, it, pre, post, a, outcome, value, effects):
        return []

    def cancel_trace(self, it, pre, post, a, outcome, value, effects):
        return []


# ======================================================================================
# lock manager and unlock helpers
# ======================================================================================
LOCK_KEY = 'DAGConcurrentManagerLock'


def new_lock(it):
    from .shapes import new_lock_manager
    from pyvc.libmodels import new_world
    new_world(it)
    return new_lock_manager(it)


@contract
class L_unlock_condition(Contract):
    path = MANAGER_PY
    name = 'DAGConcurrentManagerLock.unlock_condition'
    returns = 'none'
    inline_at_calls = True
    props = ('C02', 'C13')
    doc = 'notifies exactly that condition, holding its lock; never yields (lock fast path)'

    def setup(self, it):
        return new_lock(it), CallArgs([SymV(it.st.fresh_val('cond'))])

    def effects_spec(self, it, pre, post, a, outcome, value, effects):
        ns = [e for e in effects if e.kind == 'notify']
        c = T(a.condition_name, it.st)
        return [('exactly-one-notification', len(ns) == 1),
                ('of-the-named-condition', ns[0].cond == c if len(ns) == 1 else False),
                ('does-not-yield', not any(e.kind == 'yield' for e in effects)),
                ('lock-released-at-exit', not it.st.ghost.get('held'))]


@contract
class L_wait_for_condition(Contract):
    path = MANAGER_PY
    name = 'DAGConcurrentManagerLock.wait_for_condition'
    returns = 'none'
    inline_at_calls = True
    props = ('C02', 'C13', 'C03')
    doc = 'returns only in a state where the predicate holds; holds no lock at any yield'

    def setup(self, it):
        st = it.st
        lock = new_lock(it)
        flag = st.alloc('dict', map=SymMap.fresh(st, 'flags'))
        self._flag = flag
        from pyvc.interp import LibFn
        from pyvc.values import wrap_bool
        # an arbitrary predicate over some shared state that may change while waiting
        key = SymV(st.fresh_val('k'))
        pred = LibFn('some-predicate', lambda it_, ca: wrap_bool(it_.dict_sym(flag).has(T(key, st))))
        self._key = key
        return lock, CallArgs([SymV(st.fresh_val('cond')), pred])

    def on_yield(self, it, label):
        havoc_location(it.st, self._flag, 'map', 'flags')

    def modifies(self, it, pre, a):
        return [(self._flag, 'map')]      # interference only

    def ensures(self, it, pre, post, a, res):
        return [('predicate-holds-at-return', post.getf(self._flag, 'map').has(T(self._key, it.st)))]

    def effects_spec(self, it, pre, post, a, outcome, value, effects):
        ws = [e for e in effects if e.kind == 'wait']
        return [('waits-on-the-named-condition', len(ws) == 1 and z3.simplify(ws[0].cond == T(a.condition_name, it.st))),
                ('no-lock-held-across-a-yield', not [e for e in effects if e.kind == 'yield' and e.held]),
                ('lock-released-at-exit', not it.st.ghost.get('held'))]


def _unlocker(method, target, doc_):
    class C(MgrContract):
        name = f'DAGRunConcurrentManager.{method}'
        returns = 'none'
        props = ('C02', 'C13')
        doc = doc_

        def setup(self, it):
            args = [SymV(it.st.fresh_val('n'))] if target != 'run' else []
            return new_manager(it), CallArgs(args)

        def effects_spec(self, it, pre, post, a, outcome, value, effects):
            ns = [e for e in effects if e.kind == 'notify']
            want = RUN if target == 'run' else T(a.node_id, it.st)
            return [('exactly-one-notification', len(ns) == 1),
                    ('of-the-right-condition', ns[0].cond == want if len(ns) == 1 else False),
                    ('does-not-yield', not any(e.kind == 'yield' for e in effects))]
    C.__name__ = f'M_{method}'
    return contract(C)


_unlocker('__unlock_itself', 'node', 'notifies the node\'s own condition; no yield')
_unlocker('__unlock_run_method', 'run', 'notifies the RUN condition; no yield')


@contract
class M_unlock_execution_lock(MgrContract):
    name = 'DAGRunConcurrentManager.__unlock_execution_lock'
    returns = 'none'
    props = ('C04', 'C02')
    doc = 'sets the node\'s execution event'

    def setup(self, it):
        return new_manager(it), CallArgs([SymV(it.st.fresh_val('n'))])

    def modifies(self, it, pre, a):
        return [(it.st.ghost['world'], 'event_set')]

    def ensures(self, it, pre, post, a, res):
        w = it.st.ghost['world']
        return [('event-set', post.getf(w, 'event_set').mem == pre.getf(w, 'event_set').add(T(a.node_id, it.st)).mem)]


@contract
class M_unlock_descendants(MgrContract):
    name = 'DAGRunConcurrentManager.__unlock_descendants'
    returns = 'none'
    props = ('C02', 'C09', 'C13')
    doc = 'every condition in notifset(n) is notified; no yield'

    def setup(self, it):
        m = new_manager(it)
        return m, CallArgs([SymV(it.st.fresh_val('n'))])

    def effects_spec(self, it, pre, post, a, outcome, value, effects):
        return [('does-not-yield', not any(e.kind == 'yield' for e in effects)),
                ('descendants-computed-for-this-node', [T(e.a.node_id, it.st) for e in calls(effects, '__get_descendants')]
                 and z3.simplify(T(calls(effects, '__get_descendants')[0].a.node_id, it.st) == T(a.node_id, it.st)))]

    @property
    def loops(self):
        def body_post(ctx):
            ns = [e for e in ctx.iter_effects if e.kind == 'notify']
            want = ctx.seq.at(ctx.i_before)
            return [('each-descendant-notified-once', len(ns) == 1),
                    ('the-iterated-descendant', ns[0].cond == want if len(ns) == 1 else False),
                    ('no-yield', not any(e.kind == 'yield' for e in ctx.iter_effects))]
        return [LoopSpec(text='descendants', body_post=body_post)]


@contract
class M_raise_exc(MgrContract):
    name = 'DAGRunConcurrentManager.__raise_exc'
    returns = 'none'
    props = ('C02', 'C05', 'C13')
    doc = 'notifies RUN, then raises exactly the given exception, with no yield in between'
    never_returns = True

    def setup(self, it):
        st = it.st
        exc = SymV(PyV.exc(st.fresh_int('ecls'), st.fresh_int('eid')))
        return new_manager(it), CallArgs([exc])

    def requires(self, it, pre, a):
        return [('is-an-exception', PyV.is_exc(T(a.exc, it.st)))]

    def ensures(self, it, pre, post, a, res):
        return [('never-returns', False)]

    def raises(self, it, pre, a):
        e = T(a.exc, it.st)
        return [ExcCase('the-given-exception', None, when=True,
                        ensures=lambda post, exc: [('same-object', exc.t == e)])]

    def effects_spec(self, it, pre, post, a, outcome, value, effects):
        return [('RUN-notified-before-raising', notifies(it, effects, 'run')),
                ('does-not-yield', not any(e.kind == 'yield' for e in effects))]


# ======================================================================================
# well-formedness of the (immutable) graph and of the node configuration — established by the builder (C15/C16)
# and by the validity of the user's retry settings; precondition of every manager coroutine
# ======================================================================================
from pyvc.libmodels2 import SEQ_AT, SEQ_LEN      # noqa: E402
ENGINE_NAMES = ('node', 'node_id', 'force_default')
ADDL = mk_str('additional_data')


def wf_node(m, n):
    """per-node facts the coroutines need about a node they are about to run"""
    p, p2 = z3.Consts('wp wp2', PyV)
    c = z3.Int('wc')
    node = m.node_map.at(n)
    att = attr_fn('attempts')(node)
    exs = attr_fn('exceptions')(node)
    return z3.And(
        m.G.node(n),
        FA([p, p2], z3.Implies(z3.And(m.G.edge(p, n), m.G.edge(p2, n), m.G.kw(p, n) == m.G.kw(p2, n),
                                      m.G.kw(p, n) != NONE), p == p2)),
        FA([p], z3.Implies(m.G.edge(p, n), z3.And(m.G.kw(p, n) != ADDL, *[m.G.kw(p, n) != mk_str(x) for x in ENGINE_NAMES]))),
        z3.Implies(m.G.is_head(n), FA([c], z3.Implies(
            z3.And(c >= 0, c < SEQ_LEN(m.G.na('oneof_nodes', n))), m.G.node(SEQ_AT(m.G.na('oneof_nodes', n), c))),
            patterns=[SEQ_AT(m.G.na('oneof_nodes', n), c)])),
        z3.Implies(z3.And(z3.Not(m.G.is_switch(n)), z3.Not(m.G.is_head(n))), z3.And(
            m.node_map.has(n), node != NONE,
            z3.Or(att == NONE, z3.And(PyV.is_int_(att), PyV.i(att) >= 0)),
            z3.Implies(truthy_term(exs), FA([c], z3.Implies(TMATCH(exs, c), subcls(c, z3.IntVal(EXC))),
                                            patterns=[TMATCH(exs, c)])))),
    )


def inv_no_result_for_switch(m):
    """INV1: synthetic switch nodes never get a stored result"""
    s = z3.Const('is1', PyV)
    return FA([s], z3.Implies(m.G.is_switch(s), z3.Not(m.S.R.data.has(s))), patterns=[m.S.R.data.has(s)])


def switch_preds_resolved(m, n):
    p = z3.Const('sp', PyV)
    return FA([p], z3.Implies(z3.And(n != m.input, m.G.edge(p, n), m.G.kw(p, n) != NONE, m.G.is_switch(p)),
                              PyV.is_case(m.S.SW.get(p, z3.BoolVal(False)))))


def input_kwargs_wf(m):
    return z3.And(*[z3.Not(m.input_kwargs.has(mk_str(x))) for x in ENGINE_NAMES])


# ======================================================================================
# _execute_node  (C04, C14, C10, C03)
# ======================================================================================
@contract
class M_execute_node(CoroBase):
    name = 'DAGRunConcurrentManager._execute_node'
    returns = 'val'
    yields = True
    props = ('C04', 'C14', 'C10', 'C03', 'C13', 'C02', 'C12', 'C19')
    doc = ('first arrival: claims the node atomically, start event, kwargs read once and handed unchanged to the retry '
           'loop, completion event, value / contained failure / re-raised failure; late arrival: waits for the '
           'execution event and returns the stored result, nothing else')

    def setup(self, it):
        st = it.st
        m = new_manager(it)
        d = new_subdag(it, m)
        return m, CallArgs([d, SymV(st.fresh_val('n')), SymB(st.fresh_bool('fd'))])

    def requires(self, it, pre, a):
        m = self.mv(pre, a)
        n = T(a.node_id, it.st)
        return [('node-well-formed', wf_node(m, n)),
                ('a-real-node', z3.And(z3.Not(m.G.is_switch(n)), z3.Not(m.G.is_head(n)))),
                ('switch-inputs-resolved|C03,C09', switch_preds_resolved(m, n)),
                ('input-kwargs-do-not-use-engine-names', input_kwargs_wf(m))]

    def other_raises(self, it, pre, a):
        return [ExcCase('node-failure-or-collaborator', None, may=True)]

    def call_effects(self, it, pre, post, a, res):
        m = self.mv(pre, a)
        it.st.emit('executed', node=a.node_id, first_arrival=z3.Not(m.S.P.vis(T(a.node_id, it.st))))

    def _classify(self, effects):
        ex = calls(effects, 'exists_processed_node')
        claim = calls(effects, 'set_node_as_processed')
        return ex, claim

    def trace(self, it, pre, post, a, outcome, value, effects):
        st = it.st
        m0 = self.mv(pre, a)
        n = T(a.node_id, st)
        sub = SubV(pre, a.dag)
        first = z3.Not(m0.S.P.vis(n))
        claim = calls(effects, 'set_node_as_processed')
        starts = calls(effects, 'emit_on_node_start')
        completes = calls(effects, 'emit_on_node_complete')
        inner = calls(effects, '__execute_node')
        kws = calls(effects, '_get_node_kwargs')
        ewaits = [e for e in effects if e.kind == 'event_wait']
        yields = [i for i, e in enumerate(effects) if e.kind == 'yield']
        out = []
        if not claim:
            # ---------------- late arrival ------------------------------------------------
            out.append(('late-arrival-only-if-already-claimed|C04', z3.Not(first)))
            out.append(('late-arrival-executes-nothing|C04,C14', not starts and not completes and not inner
                        and not user_calls(effects)))
            out.append(('late-arrival-waits-for-the-execution-event|C04', len(ewaits) == 1 and
                        z3.simplify(ewaits[0].event == n)))
            if outcome == 'return':
                gets = calls(effects, 'get_node_result')
                ok = len(gets) == 1
                if ok:
                    at_wake = self.mv(gets[0].pre, a)
                    out.append(('late-arrival-returns-the-current-visible-result|C04,C03', z3.And(
                        T(gets[0].a.node_id, st) == n, T(value, st) == at_wake.S.R.get(n, z3.BoolVal(False)))))
                else:
                    out.append(('late-arrival-returns-the-current-visible-result|C04,C03', False))
            else:
                out.append(('late-arrival-does-not-fail|C04', False))
            return out
        # -------------------- first arrival ----------------------------------------------
        ci = effects.index(claim[0])
        out.append(('first-arrival-only-if-unclaimed|C04', first))
        out.append(('claim-is-atomic-with-the-test: no yield before set_node_as_processed|C04',
                    not [y for y in yields if y < ci]))
        out.append(('claims-this-node|C04', z3.And(T(claim[0].a.node_id, st) == n, z3.BoolVal(len(claim) == 1))))
        collab_failed = any(e.exc is not None for e in starts + completes)
        out.append(('one-start-event-for-this-node|C14', len(starts) == 1 and
                    z3.simplify(T(starts[0].a.node_id, st) == n)))
        if starts and starts[0].exc is not None:
            out.append(('event-manager-failure-propagates|C02', outcome == 'raise' and z3.simplify(value.t == starts[0].exc.t)))
            return out
        out.append(('start-event-after-the-claim|C04,C14', bool(starts) and effects.index(starts[0]) > ci))
        ok = len(kws) == 1 and len(inner) == 1
        out.append(('kwargs-read-once-and-retry-loop-entered-once|C03,C12', ok))
        if not ok:
            return out
        kw, inn = kws[0], inner[0]
        out.append(('kwargs-of-this-node|C03', T(kw.a.node_id, st) == n))
        out.append(('kwargs-read-after-the-start-event|C14', effects.index(kw) > effects.index(starts[0])))
        out.append(('kwargs-handed-unchanged-to-every-attempt|C03,C12', inn.a.kwmap.eq(kw.post.getf(kw.res, 'map'))))
        out.append(('no-yield-between-reading-kwargs-and-entering-the-retry-loop|C03',
                    not [y for y in yields if effects.index(kw) < y < effects.index(inn)
                         and effects[y].label != inn.fn]))
        out.append(('retry-loop-for-this-node-and-flag|C12', z3.And(T(inn.a.node_id, st) == n,
                                                                    B(inn.a.force_default) == B(a.force_default))))
        if inn.exc is None:
            # value produced
            okc = len(completes) >= 1 and effects.index(completes[0]) > effects.index(inn)
            out.append(('completion-event-after-a-produced-value|C14', okc))
            if okc:
                c0 = completes[0]
                out.append(('completion-event-reports-success|C14', z3.And(T(c0.a.node_id, st) == n, T(c0.a.error, st) == NONE)))
                if c0.exc is None:
                    out.append(('exactly-one-final-completion-event|C14', len(completes) == 1))
                    out.append(('returns-the-produced-value|C01,C14', outcome == 'return' and
                                z3.simplify(T(value, st) == T(inn.res, st))))
        else:
            e = inn.exc.t
            is_exc = is_exception(e)
            if completes:
                c0 = completes[0]
                out.append(('completion-event-only-for-Exceptions|C14', is_exc))
                out.append(('completion-event-reports-the-raised-exception|C14', z3.And(
                    T(c0.a.node_id, st) == n, T(c0.a.error, st) == e)))
                if c0.exc is None:
                    out.append(('exactly-one-final-completion-event|C14', len(completes) == 1))
                    if outcome == 'return':
                        out.append(('failure-contained-only-inside-a-one-of-dag|C10', sub.is_oneof))
                        out.append(('contained-failure-is-returned-as-a-value|C10', T(value, st) == e))
                    else:
                        out.append(('failure-raised-outside-one-of|C05,C10', z3.Not(sub.is_oneof)))
                        out.append(('the-node-exception-itself-is-re-raised|C05', value.t == e))
            else:
                out.append(('non-Exception-failures-propagate-without-event|C12,C14', z3.And(
                    z3.Not(is_exc), z3.BoolVal(outcome == 'raise'), value.t == e if outcome == 'raise' else False)))
        return out

    def cancel_trace(self, it, pre, post, a, outcome, value, effects):
        return [('cancelled-coroutine-exits-by-raising|C13', outcome == 'raise')]


# ======================================================================================
# _run_node  (C02, C14, C19, C04, C11)
# ======================================================================================
def spawns(effects):
    return [e for e in effects if e.kind == 'spawn']


def order_ok(effects, *items):
    """python bool: the given effects occur in this order"""
    idx = [effects.index(x) for x in items]
    return idx == sorted(idx) and len(set(idx)) == len(idx)


@contract
class M_run_node(CoroBase):
    name = 'DAGRunConcurrentManager._run_node'
    returns = 'none'
    yields = True
    props = ('C02', 'C14', 'C19', 'C04', 'C11', 'C13', 'C01', 'C03', 'C05')
    doc = ('stores what _execute_node returned (after its completion event), saves it, sets the execution event and '
           'notifies notifset(n) ∪ {RUN} (∪ {n} if n is the dag\'s destination) on every exit; a Recurrent result '
           'spawns the re-iteration and notifies only the node\'s own condition')
    cancel_propagates = False      # `return` inside `finally` on the Recurrent path may swallow anything

    def setup(self, it):
        st = it.st
        m = new_manager(it)
        d = new_subdag(it, m)
        for ax in notif_axioms(MV(st.snapshot(), m)):
            st.assume(ax)
        st.ghost['notif_ax'] = True
        return m, CallArgs([d, SymV(st.fresh_val('n')), SymB(st.fresh_bool('fd'))])

    def requires(self, it, pre, a):
        m = self.mv(pre, a)
        n = T(a.node_id, it.st)
        return [('node-well-formed', wf_node(m, n)),
                ('a-real-node', z3.And(z3.Not(m.G.is_switch(n)), z3.Not(m.G.is_head(n)))),
                ('switch-inputs-resolved|C03,C09', switch_preds_resolved(m, n)),
                ('input-kwargs-do-not-use-engine-names', input_kwargs_wf(m))]

    def other_raises(self, it, pre, a):
        return [ExcCase('node-failure-or-collaborator', None, may=True)]

    def exit_notifications(self, it, pre, a, effects, recurrent):
        st = it.st
        sub = SubV(pre, a.dag)
        n = T(a.node_id, st)
        x = z3.Const('nx1', PyV)
        evs = [e for e in effects if e.kind == 'event_set' or (e.kind == 'call' and e.fn.endswith('__unlock_execution_lock'))]
        out = [('execution-event-set-on-every-exit|C04,C02',
                any(z3.is_true(z3.simplify((e.event if e.kind == 'event_set' else T(e.a.node_id, st)) == n)) for e in evs))]
        if recurrent:
            out.append(('re-iteration-owner-notifies-its-own-condition|C11,C02', notifies(it, effects, a.node_id)))
            out.append(('consumers-not-released-on-a-Recurrent-result|C11',
                        not calls(effects, '__unlock_descendants') and not calls(effects, '__unlock_run_method')))
        else:
            out.append(('consumers-notified|C02', FA([x], z3.Implies(NOTIF(n, x), notifies(it, effects, x)),
                                                      patterns=[NOTIF(n, x)])))
            out.append(('RUN-notified|C02,C05', notifies(it, effects, 'run')))
            out.append(('own-condition-notified-when-destination|C02', z3.Implies(n == sub.dest, notifies(it, effects, a.node_id))))
        out.append(('notifications-do-not-yield|C02,C13', True))
        return out

    def trace(self, it, pre, post, a, outcome, value, effects):
        st = it.st
        n = T(a.node_id, st)
        ex = calls(effects, '._execute_node')
        sets = calls(effects, 'set_node_result')
        saves = calls(effects, 'save_node_result')
        sp = spawns(effects)
        out = [('executes-the-node-exactly-once|C04', len(ex) == 1 and z3.simplify(z3.And(
            T(ex[0].a.node_id, st) == n, B(ex[0].a.force_default) == B(a.force_default))))]
        if len(ex) != 1:
            return out
        e0 = ex[0]
        out.append(('in-the-scope-it-was-started-from|C10', e0.a.dag is a.dag or same_value(e0.a.dag, a.dag, st)))
        if e0.exc is not None:
            out.append(('failed-execution-stores-and-saves-nothing|C19,C14', not sets and not saves and not sp))
            out += self.exit_notifications(it, pre, a, effects, recurrent=False)
            out.append(('the-failure-propagates-unchanged|C05', outcome == 'raise' and z3.simplify(value.t == e0.exc.t)))
            return out
        res = T(e0.res, st)
        is_rec = PyV.is_rec(res)
        rec_path = bool(sp)
        out.append(('re-iteration-spawned-iff-the-result-is-Recurrent|C11', is_rec if rec_path else z3.Not(is_rec)))
        ok = len(sets) == 1
        out.append(('result-stored-exactly-once|C14,C19', ok))
        if not ok:
            return out
        s0 = sets[0]
        out.append(('stores-the-value-the-execution-returned|C01,C14', z3.And(T(s0.a.node_id, st) == n, T(s0.a.data, st) == res)))
        out.append(('stored-only-after-the-execution-(and-its-completion-event)-finished|C14', order_ok(effects, e0, s0)))
        out.append(('never-stores-a-result-for-a-synthetic-switch-node (INV1)', z3.Not(self.mv(pre, a).G.is_switch(n))))
        if rec_path:
            r0 = sp[0]
            ok_rec = len(sp) == 1 and r0.fn.endswith('_run_recurrent_subgraph')
            if ok_rec:
                # the arguments of the spawned coroutine by parameter name, however the call spells them
                rc = REGISTRY.get(r0.coro.fn.key) if hasattr(r0.coro, 'fn') and hasattr(r0.coro.fn, 'key') else None
                if rc is None:
                    raise Unsupported('the spawned coroutine has no contract to bind its arguments with')
                ra = rc.bind(it, r0.coro.fn, r0.coro.self_val, CallArgs(r0.coro.args, r0.coro.kwargs, r0.coro.starmaps))
                ok_rec = z3.And(T(ra.node_id, st) == n, T(ra.node_result, st) == res) if (ra.dag is a.dag) else False
            out.append(('re-iteration-is-_run_recurrent_subgraph-for-this-node-and-result|C11', ok_rec))
            out.append(('re-iteration-spawned-through-the-task-registry|C13', len(calls(effects, '_create_task')) == 1))
        # ---- C19: the save site -------------------------------------------------------
        if saves:
            v0 = saves[0]
            out.append(('saved-at-most-once-per-run-of-this-coroutine|C19', len(saves) == 1))
            out.append(('the-artifact-is-saved-before-the-result-becomes-visible (a run may end, and cancel a save in flight, as '
                        'soon as its output is visible)|C19', order_ok(effects, v0, s0)))
            out.append(('saves-the-value-consumers-read|C19', z3.And(T(v0.a.node_id, st) == n, T(v0.a.data, st) == res)))
            out.append(('never-saves-a-Recurrent-marker|C19', z3.Not(is_rec)))
            out.append(('never-saves-a-contained-failure|C19', z3.Not(PyV.is_exc(res))))
            exd = [e for e in effects if e.kind == 'executed']
            out.append(('saves-only-a-value-this-call-actually-executed|C19', exd[0].first_arrival if exd else False))
            # "exactly once ... so a write-once store never makes an otherwise correct pipeline fail": every node of a
            # re-iterated scope was executed, and saved, before the scope was re-run; a save in a re-run scope is a second one
            out.append(('a-node-re-executed-by-a-recurrent-iteration-is-not-handed-to-the-store-again|C19',
                        z3.Not(B(SubV(pre, a.dag).is_recurrent))))
        else:
            # no save on this path: allowed exactly for what is not a final value (a Recurrent marker, a contained failure)
            out.append(('every-final-value-reaches-the-store|C19', z3.Or(is_rec, PyV.is_exc(res))))
        store_failed = bool(saves) and saves[0].exc is not None
        out += self.exit_notifications(it, pre, a, effects, recurrent=rec_path)
        if store_failed and not rec_path:
            out.append(('artifact-store-failure-propagates|C02', outcome == 'raise' and z3.simplify(value.t == saves[0].exc.t)))
        elif not store_failed:
            out.append(('returns-normally|C02', outcome == 'return'))
        return out

    def cancel_trace(self, it, pre, post, a, outcome, value, effects):
        # the finally clause still releases late arrivals and waiters (non-blocking), then the coroutine ends
        st = it.st
        n = T(a.node_id, st)
        evs = [e for e in effects if e.kind == 'event_set' or (e.kind == 'call' and e.fn.endswith('__unlock_execution_lock'))]
        return [('execution-event-set-even-when-cancelled|C04,C13',
                 any(z3.is_true(z3.simplify((e.event if e.kind == 'event_set' else T(e.a.node_id, st)) == n)) for e in evs))]


# ======================================================================================
# _run_dag  (C03.a, C06, C04, C10, C11, C13)
# ======================================================================================
from pyvc.interp import Partial, BoundMethod, Coroutine   # noqa: E402
from pyvc.contract import REGISTRY                        # noqa: E402


def base_requires(m):
    return [('no-result-for-switch-nodes (INV1)', inv_no_result_for_switch(m)),
            ('input-kwargs-do-not-use-engine-names', input_kwargs_wf(m)),
            ('the-input-node-is-no-one-of-candidate', z3.And(m.G.node(m.input), z3.Not(m.G.is_child(m.input))))]


def graph_wf(m):
    n = z3.Const('gwn', PyV)
    return FA([n], z3.Implies(m.G.node(n), wf_node(m, n)), patterns=[m.G.node(n)])


def switch_wf(m):
    """builder guarantees about synthetic switch nodes (C15): one decider edge, distinct case labels"""
    from .manager_seq import SW_OF
    s, p, p2 = z3.Consts('sws swp swp2', PyV)
    return FA([s], z3.Implies(m.G.is_switch(s), z3.And(
        m.G.edge(SW_OF(s), s), m.G.sw_edge(SW_OF(s), s),
        FA([p], z3.Implies(z3.And(m.G.edge(p, s), m.G.sw_edge(p, s)), p == SW_OF(s))),
        FA([p, p2], z3.Implies(z3.And(m.G.edge(p, s), m.G.edge(p2, s), z3.Not(m.G.sw_edge(p, s)),
                                      z3.Not(m.G.sw_edge(p2, s)), m.G.case(p, s) == m.G.case(p2, s)), p == p2)))),
        patterns=[m.G.is_switch(s)])


def ready_formula(it, snap, mgr, dag, n):
    m = MV(snap, mgr)
    x = z3.Const('rfx', PyV)
    return FA([x], z3.Implies(BASE_PRED(it, snap, m, dag, n, x), READY(m, SUBST(m, x))))


def has_error_formula(it, snap, mgr, dag):
    m = MV(snap, mgr)
    x = z3.Const('hex', PyV)
    return z3.Exists([x], z3.And(node_in_dag(it, snap, dag, x), PyV.is_exc(m.S.R.get(x, z3.BoolVal(False)))))


def spawn_preconditions(it, eff, caller):
    """the callee's precondition must hold in the state in which it is spawned (and is then kept by the rely)"""
    out = []
    coro = eff.coro
    if not isinstance(coro, Coroutine) or coro.fn is None or not hasattr(coro.fn, 'key'):
        return out
    c = REGISTRY.get(coro.fn.key)
    if c is None:
        return out
    a = c.bind(it, coro.fn, coro.self_val, CallArgs(coro.args, coro.kwargs, coro.starmaps))
    for n, f in c.requires(it, eff.snap, a):
        if n.startswith('assumed:'):
            continue        # named history assumptions are carried, not checked, at spawn sites
        out.append((f'spawn:{c.name.split(".")[-1]}.pre[{n}]', f))
    return out


@contract
class M_run_dag(CoroBase):
    name = 'DAGRunConcurrentManager._run_dag'
    returns = 'val'
    yields = True
    props = ('C03', 'C06', 'C04', 'C10', 'C11', 'C13', 'C02', 'C09', 'C01')
    doc = ('launches the dag\'s pending nodes in topological order, each as its own task and only in a state where it is '
           'ready; blocks on nothing but the readiness of the node being launched; a failed one-of scope stops launching')

    def setup(self, it):
        st = it.st
        m = new_manager(it)
        d = new_subdag(it, m)
        for ax in notif_axioms(MV(st.snapshot(), m)):
            st.assume(ax)
        st.ghost['notif_ax'] = True
        return m, CallArgs([d])

    def requires(self, it, pre, a):
        m = self.mv(pre, a)
        x = z3.Const('rdx', PyV)
        return base_requires(m) + [
            ('graph-well-formed', graph_wf(m)),
            ('switch-nodes-well-formed', switch_wf(m)),
            ('dag-nodes-are-graph-nodes', FA([x], z3.Implies(node_in_dag(it, pre, a.dag, x), m.G.node(x)))),
            # history lemma H1 (assumed, see DESIGN §7): the nodes of a recurrent subgraph already ran once in a
            # non-recurrent scope, where all their graph predecessors were awaited; a recorded switch decision stays
            ('assumed:H1-switch-inputs-of-re-iterated-nodes-are-resolved', z3.Implies(SubV(pre, a.dag).is_recurrent, FA(
                [x], z3.Implies(node_in_dag(it, pre, a.dag, x), switch_preds_resolved(m, x))))),
        ]

    # ---- loop -----------------------------------------------------------------------
    @property
    def loops(self):
        outer = self

        def inv(ctx):
            it = ctx.it
            it.st.ghost['rd:local_tasks'] = ctx.var('local_tasks')
            lt = it.st.getf(ctx.var('local_tasks'), 'items')
            if isinstance(lt, tuple):
                lt = it.models.to_symseq(it, lt)
            j = z3.Int('ltj')
            m = MV(ctx.now(), ctx.a.self)
            return [('local-tasks-are-registered-tasks', FA([j], z3.Implies(z3.And(j >= 0, j < lt.len), z3.And(
                PyV.is_task(lt.at(j)), m.tasks.contains(lt.at(j)))), patterns=[lt.at(j)])),
                ] + [(f'rely-since-entry:{n_}', f_) for n_, f_ in outer.rely_named(it, MV(ctx.pre, ctx.a.self), m)]

        def heap_havoc(it, env):
            return outer.shared_locs(it)

        def body_post(ctx):
            it, a, st = ctx.it, ctx.a, ctx.st
            effs = ctx.iter_effects
            node = ctx.seq.at(ctx.i_before)
            out = list(outer.iteration_clauses(it, ctx.pre, a, effs, node))
            # normal continuation: exactly one launch
            cts = calls(effs, '_create_task')
            sps = spawns(effs)
            ok = len(cts) == 1 and len(sps) == 1
            out.append(('exactly-one-task-per-node|C04,C06', ok))
            if ok:
                out += outer.launch_clauses(it, ctx.pre, a, effs, node, sps[0])
                # the scope's own tasks: local_tasks gains the task launched here and nothing else (by induction it
                # holds exactly the tasks this invocation created)
                lt = ctx.var('local_tasks')
                ws = [e for e in effs if e.kind == 'write' and e.obj is lt]
                own = len(ws) == 1 and getattr(ws[0], 'op', None) == 'append'
                out.append(('own-task-list-gains-exactly-the-launched-task|C10,C13', own and z3.simplify(
                    T(ws[0].value, st) == T(cts[0].res, st))))
            return out

        return [LoopSpec(text='list_node_ids', havoc={'local_tasks': 'content'}, heap_havoc=heap_havoc, inv=inv,
                         body_post=body_post)]

    def iteration_clauses(self, it, pre, a, effs, node):
        st = it.st
        waits = [e for e in effs if e.kind == 'wait']
        ok = len(waits) >= 1
        out = [('waits-for-the-readiness-of-the-node-being-launched|C03,C06', ok)]
        if ok:
            w = waits[0]
            p = w.pred
            shape = (isinstance(p, Partial) and isinstance(p.fn, BoundMethod)
                     and p.fn.finfo.qualname.endswith('._is_ready_to_execute') and len(p.args) == 2 and p.args[0] is a.dag)
            out.append(('readiness-predicate-is-_is_ready_to_execute(dag, node)|C03', shape and z3.simplify(
                z3.And(T(p.args[1], st) == node, w.cond == node))))
        ys = [e for e in effs if e.kind == 'yield']
        out.append(('blocks-on-nothing-but-that-readiness|C06', all(e.label == 'cond.wait' for e in ys) and len(ys) <= 1))
        return out

    def launch_clauses(self, it, pre, a, effs, node, sp):
        st = it.st
        m = MV(sp.snap, a.self)
        sub = SubV(pre, a.dag)
        out = []
        coro = sp.coro
        fn = sp.fn
        kind_switch, kind_head = m.G.is_switch(node), m.G.is_head(node)
        which = ('_run_switch' if fn.endswith('._run_switch') else '_run_oneof' if fn.endswith('._run_oneof')
                 else '_run_node' if fn.endswith('._run_node') else None)
        out.append(('launched-coroutine-is-a-runner|C03', which is not None))
        if which is None:
            return out
        out.append(('runner-matches-the-node-kind|C09,C10', {'_run_switch': kind_switch,
                                                            '_run_oneof': z3.And(z3.Not(kind_switch), kind_head),
                                                            '_run_node': z3.And(z3.Not(kind_switch), z3.Not(kind_head))}[which]))
        c = REGISTRY.get(coro.fn.key) if hasattr(coro.fn, 'key') else None
        if c is not None:
            ca = c.bind(it, coro.fn, coro.self_val, CallArgs(coro.args, coro.kwargs, coro.starmaps))
            out.append(('runner-gets-this-dag-and-node|C03', (ca.dag is a.dag) and z3.simplify(T(ca.node_id, st) == node)))
            if which == '_run_node':
                out.append(('runner-not-forced-to-default|C12', z3.simplify(z3.Not(B(ca.force_default)))))
        # C03.a: the launch gate
        out.append(('launched-in-a-state-where-the-node-is-ready|C03', ready_formula(it, sp.snap, a.self, a.dag, node)))
        out.append(('not-launched-in-a-failed-one-of-scope|C10,C03', z3.Implies(sub.is_oneof, z3.Not(
            has_error_formula(it, sp.snap, a.self, a.dag)))))
        # C03 / C10: a contained failure is never delivered as a value.  Inside a one-of scope failures are *stored* as
        # results; the scope's error check (no failed node among the scope's nodes) protects plain dependencies, but the
        # value of a switch parameter comes from the selected case, which is not a node of the scope
        px = z3.Const('lfx', PyV)
        sw_ = m.S.SW.get(px, z3.BoolVal(False))
        out.append(('in-a-one-of-scope-the-selected-case-of-a-consumed-switch-holds-no-failure|C03,C10', z3.Implies(sub.is_oneof, FA(
            [px], z3.Implies(z3.And(BASE_PRED(it, sp.snap, m, a.dag, node, px), m.G.is_switch(px), PyV.is_case(sw_)),
                             z3.Not(PyV.is_exc(m.S.R.get(PyV.cnode(sw_), z3.BoolVal(False))))), patterns=[m.G.edge(px, node)]))))
        out.append(('launched-as-its-own-task-and-not-awaited|C06', not [e for e in effs if e.kind == 'yield'
                                                                          and effs.index(e) > effs.index(sp)]))
        out.append(('task-is-named-after-the-node', z3.simplify(T(sp.name, st) == node)))
        out += spawn_preconditions(it, sp, self.name)
        return out

    # ---- whole function -------------------------------------------------------------
    def trace(self, it, pre, post, a, outcome, value, effects):
        st = it.st
        sub = SubV(pre, a.dag)
        m0 = self.mv(pre, a)
        out = []
        orders = calls(effects, '_get_node_order')
        hides = calls(effects, 'hide_last_execution')
        ys = [i for i, e in enumerate(effects) if e.kind == 'yield']
        ok = len(orders) == 1 and (orders[0].a.dag is a.dag)
        out.append(('order-computed-once-for-this-dag|C04,C06', ok))
        if not ok:
            return out
        o = orders[0]
        oi = effects.index(o)
        out.append(('order-computed-before-any-yield', not [y for y in ys if y < oi]))
        L = o.post.getf(o.res, 'items')
        if hides:
            h = hides[0]
            out.append(('previous-iteration-hidden-only-in-a-recurrent-dag|C04,C11', sub.is_recurrent))
            out.append(('exactly-the-dag-nodes-are-hidden|C11', len(hides) == 1 and z3.simplify(
                z3.And(h.a.seq.len == L.len, h.a.seq.arr == L.arr))))
            out.append(('hidden-in-the-segment-that-computed-the-order|C11', not [y for y in ys if oi < y < effects.index(h)]))
        else:
            out.append(('a-recurrent-dag-hides-its-previous-iteration|C11', z3.Not(sub.is_recurrent)))
        tail = tail_after_loop(effects)
        in_loop_summary = any(e.kind == 'loop_summary' for e in effects)
        stops = calls(tail, '_stop_coro_tasks')
        if outcome == 'raise':
            out.append(('never-ends-with-an-exception|C02,C05', False))
            return out
        if not in_loop_summary and not [e for e in effects if e.kind == 'wait']:
            # empty order
            out.append(('returns-at-once-only-when-nothing-is-to-run', z3.And(L.len == 0, T(value, st) == NONE)))
            return out
        if stops:
            # early exit of a failed one-of scope (inside an iteration)
            out += self.iteration_clauses(it, pre, a, tail, None) if False else []
            errs = calls(tail, '__has_subgraph_error')
            unl = calls(tail, '__unlock_descendants')
            out.append(('early-exit-only-in-a-failed-one-of-scope|C10,C06,C02', z3.And(sub.is_oneof, z3.BoolVal(bool(errs)))))
            out.append(('early-exit-launches-nothing-further|C10', not spawns(tail) and not calls(tail, '_create_task')))
            out.append(('early-exit-releases-the-waiters-of-the-node-it-did-not-launch|C02,C10', len(unl) == 1))
            out.append(('early-exit-returns-None', T(value, st) == NONE))
            # C02/C10: whoever waits for the outcome of this scope (the one-of that started it) waits on the condition of
            # the scope's destination; a scope that gives up has to wake it, unless the wake-up it just consumed was on
            # that very condition (the node it did not launch is the destination itself)
            ws = [e for e in tail if e.kind == 'wait']
            gave_up_at = ws[-1].cond if ws else None
            if gave_up_at is not None:
                out.append(('early-exit-wakes-the-waiter-of-the-scope (condition of the destination)|C02,C10', z3_or(
                    gave_up_at == sub.dest, notifies(it, tail, sub.dest))))
            lt_ok = len(stops) == 1 and not [e for e in tail if e.kind == 'cancel']
            out.append(('early-exit-cancels-only-its-own-tasks|C13', lt_ok))
            ltref = st.ghost.get('rd:local_tasks')
            if lt_ok and ltref is not None:
                # C10.b/d: tasks of other scopes (a shared ancestor another consumer started, a sibling one-of's
                # candidate) are never cancelled by a failed candidate
                seq = stops[0].a.seq
                own = stops[0].pre.getf(ltref, 'items')
                if isinstance(own, tuple):
                    own = it.models.to_symseq(it, own)
                j, k = z3.Int('esj'), z3.Int('esk')
                out.append(('early-exit-cancels-no-task-of-another-scope|C10,C13,C02', At(stops[0].pre, FA([j], z3.Implies(
                    z3.And(j >= 0, j < seq.len, mark(seq.at(j))),
                    z3.Exists([k], z3.And(k >= 0, k < own.len, own.at(k) == seq.at(j)))), patterns=[seq.at(j)]))))
            return out
        # normal completion: wait for the destination, return its value
        waits = [e for e in tail if e.kind == 'wait']
        ok = len(waits) == 1
        out.append(('waits-for-the-destination-result|C02,C11', ok))
        if ok:
            w = waits[0]
            p = w.pred
            shape = (isinstance(p, Partial) and isinstance(p.fn, BoundMethod)
                     and p.fn.finfo.qualname.endswith('.exists_node_result') and len(p.args) == 1)
            out.append(('destination-wait-predicate|C02', shape and z3.simplify(z3.And(
                T(p.args[0], st) == sub.dest, w.cond == sub.dest))))
        gets = calls(tail, 'get_node_result')
        out.append(('returns-the-destination-value|C11', len(gets) == 1 and z3.simplify(z3.And(
            T(gets[0].a.node_id, st) == sub.dest, T(value, st) == T(gets[0].res, st), B(gets[0].a.with_hidden)))))
        out.append(('launches-nothing-after-the-loop|C04', not spawns(tail)))
        return out


# ======================================================================================
# _run_switch  (C09, C02, C05)
# ======================================================================================
KEYERROR = LATTICE.codes['KeyError']
LOOKUP = LATTICE.codes['LookupError']


def dag_arg_view(it, eff):
    """(ref, snapshot) of the dag object handed to a contracted _run_dag call / spawn"""
    if eff.kind == 'call':
        return eff.a.dag, eff.pre_call
    c = REGISTRY.get(eff.coro.fn.key)
    ca = c.bind(it, eff.coro.fn, eff.coro.self_val, CallArgs(eff.coro.args, eff.coro.kwargs, eff.coro.starmaps))
    return ca.dag, eff.snap


@contract
class M_run_switch(CoroBase):
    name = 'DAGRunConcurrentManager._run_switch'
    returns = 'val'
    yields = True
    props = ('C09', 'C02', 'C05', 'C13', 'C10', 'C01')
    doc = ('records the case whose label equals the decider\'s result and runs exactly the sub-pipeline input -> that '
           'case (without case edges), in the enclosing one-of mode')

    def setup(self, it):
        st = it.st
        m = new_manager(it)
        d = new_subdag(it, m)
        for ax in notif_axioms(MV(st.snapshot(), m)):
            st.assume(ax)
        st.ghost['notif_ax'] = True
        return m, CallArgs([d, SymV(st.fresh_val('s'))])

    def requires(self, it, pre, a):
        m = self.mv(pre, a)
        s = T(a.node_id, it.st)
        return base_requires(m) + [('graph-well-formed', graph_wf(m)), ('switch-nodes-well-formed', switch_wf(m)),
                                   ('is-a-switch-node', m.G.is_switch(s)),
                                   ('input-node-in-graph', m.G.node(m.input)),
                                   ('case-nodes-are-graph-nodes', True)]

    def other_raises(self, it, pre, a):
        return [ExcCase('unmatched-label', None, may=True)]

    def trace(self, it, pre, post, a, outcome, value, effects):
        st = it.st
        m0 = self.mv(pre, a)
        s = T(a.node_id, st)
        sub = SubV(pre, a.dag)
        adds = calls(effects, '_add_case_result')
        runs = calls(effects, '._run_dag')
        ys = [i for i, e in enumerate(effects) if e.kind == 'yield']
        ok = len(adds) == 1 and z3.is_true(z3.simplify(T(adds[0].a.switch_node_id, st) == s))
        out = [('selects-the-case-of-this-switch-once|C09', ok)]
        if not ok:
            return out
        ad = adds[0]
        out.append(('selection-happens-before-any-yield|C09', not [y for y in ys if y < effects.index(ad)]))
        if ad.exc is not None:
            # the decider's label matches no case
            e = value.t if outcome == 'raise' else None
            out.append(('unmatched-label-fails-the-run|C09', outcome == 'raise'))
            if e is not None:
                out.append(('unmatched-label-is-reported-by-a-proper-error-not-a-lookup-artefact|C09,C05',
                            z3.Not(subcls(PyV.ecls(e), z3.IntVal(LOOKUP)))))
                out.append(('a-failing-task-wakes-the-run|C02', notifies(it, effects, 'run')))
            out.append(('unmatched-label-runs-no-case|C09', not runs))
            return out
        ok = len(runs) == 1
        out.append(('runs-exactly-one-sub-pipeline|C09,C01,C11', ok))
        if not ok:
            return out
        r = runs[0]
        g, snap = dag_arg_view(it, r)
        mr = self.mv(snap, a)
        selected = PyV.cnode(mr.S.SW.get(s, z3.BoolVal(False)))
        gv = SubV(snap, g) if snap.getf(g, 'g_kind') != 'view' else None
        if gv is not None:
            out += [
                ('sub-pipeline-ends-at-the-selected-case|C09', gv.dest == selected),
                ('sub-pipeline-starts-at-the-input-node|C09', gv.source == mr.input),
                ('sub-pipeline-keeps-the-one-of-mode-of-the-scope|C10,C05,C01', z3.And(gv.is_oneof == sub.is_oneof, z3.Not(gv.is_recurrent))),
                ('sub-pipeline-ignores-case-edges|C09', snap.getf(g, 'g_fedge') is not None),
                ('no-yield-between-selection-and-building-the-sub-pipeline|C09',
                 not [y for y in ys if effects.index(ad) < y < effects.index(r) and effects[y].label != r.fn]),
            ]
        # C09.d / C02: a consumer blocked on the switch reads SW[s]; it is woken by the selected case's runner —
        # unless that case was already computed for somebody else, in which case nobody is left to wake it
        x = z3.Const('swx', PyV)
        out.append(('consumers-of-the-switch-are-woken-after-the-selection|C02,C09', FA([x], z3.Implies(
            m0.G.edge(s, x), z3.Or(notifies(it, effects, x), z3.Not(mr.S.P.vis(selected)))), patterns=[m0.G.edge(s, x)])))
        if r.exc is None:
            out.append(('returns-the-sub-pipeline-result', outcome == 'return' and z3.simplify(T(value, st) == T(r.res, st))))
        return out


# ======================================================================================
# _run_oneof  (C10, C02)
# ======================================================================================
@contract
class M_run_oneof(CoroBase):
    name = 'DAGRunConcurrentManager._run_oneof'
    returns = 'none'
    yields = True
    props = ('C10', 'C02', 'C05', 'C13')
    doc = ('tries the candidates in declared order, each only after the previous one was observed failed; the first '
           'candidate whose sub-pipeline completes without error gives the head its value; if all fail the run (or the '
           'enclosing candidate) fails with OneOfDoesNotHaveResultError')

    def setup(self, it):
        st = it.st
        m = new_manager(it)
        d = new_subdag(it, m)
        for ax in notif_axioms(MV(st.snapshot(), m)):
            st.assume(ax)
        st.ghost['notif_ax'] = True
        return m, CallArgs([d, SymV(st.fresh_val('h'))])

    def cands(self, m, h):
        from pyvc.libmodels2 import SEQ_AT, SEQ_LEN
        v = m.G.na('oneof_nodes', h)
        return (lambda i: SEQ_AT(v, i)), SEQ_LEN(v)

    def requires(self, it, pre, a):
        m = self.mv(pre, a)
        h = T(a.node_id, it.st)
        at, ln = self.cands(m, h)
        i = z3.Int('ci')
        return base_requires(m) + [('graph-well-formed', graph_wf(m)), ('switch-nodes-well-formed', switch_wf(m)),
                                   ('is-a-one-of-head', z3.And(m.G.node(h), m.G.is_head(h), z3.Not(m.G.is_switch(h)))),
                                   ('input-node-in-graph', m.G.node(m.input)),
                                   ('candidates-are-graph-nodes', FA([i], z3.Implies(z3.And(i >= 0, i < ln), m.G.node(at(i)))))]

    def other_raises(self, it, pre, a):
        return [ExcCase('no-candidate-succeeded', 'OneOfDoesNotHaveResultError', may=True)]

    def candidate_clauses(self, it, pre, a, effs, cand, adequacy=True):
        """one candidate attempt: the effects from the loop head up to the verdict on this candidate"""
        st = it.st
        m0 = self.mv(pre, a)
        h = T(a.node_id, st)
        sps = spawns(effs)
        waits = [e for e in effs if e.kind == 'wait']
        out = []
        ok = len(sps) == 1 and sps[0].fn.endswith('._run_dag') and len(calls(effs, '_create_task')) == 1
        out.append(('each-candidate-sub-pipeline-is-started-exactly-once-as-a-registered-task|C10,C13', ok))
        if not ok:
            return out, None
        sp = sps[0]
        g, snap = dag_arg_view(it, sp)
        kind = snap.getf(g, 'g_kind')
        if kind != 'view':
            gv = SubV(snap, g)
            ms = self.mv(snap, a)
            out += [('candidate-scope-ends-at-the-candidate|C10', gv.dest == cand),
                    ('candidate-scope-starts-at-the-input-node|C10', gv.source == ms.input),
                    ('candidate-scope-is-a-nested-one-of-scope|C10', z3.And(gv.is_oneof, gv.is_nested_oneof, z3.Not(gv.is_recurrent))),
                    ('candidate-scope-ignores-case-edges|C09', snap.getf(g, 'g_fedge') is not None)]
        ok = len(waits) == 1 and z3.is_true(z3.simplify(waits[0].cond == cand))
        out.append(('waits-on-the-candidate-condition|C10,C02', ok))
        if not ok:
            return out, g
        w = waits[0]
        mw = self.mv(w.snap, a)
        finished = z3.Or(has_error_formula(it, w.snap, a.self, g),
                         z3.And(mw.S.R.vis(cand), z3.Not(PyV.is_rec(mw.S.R.get(cand, z3.BoolVal(False))))))
        from pyvc.values import as_bool_term
        if adequacy:
            out.append(('does-not-block-on-a-finished-candidate (wake predicate adequate)|C02,C10',
                        z3.Implies(finished, as_z3(as_bool_term(w.first)))))
        out.append(('only-the-start-of-the-candidate-precedes-the-wait|C10', effs.index(sp) < effs.index(w)))
        return out, g

    @property
    def loops(self):
        outer = self

        def inv(ctx):
            m = MV(ctx.now(), ctx.a.self)
            return [(f'rely-since-entry:{n_}', f_) for n_, f_ in outer.rely_named(ctx.it, MV(ctx.pre, ctx.a.self), m)]

        def heap_havoc(it, env):
            return outer.shared_locs(it)

        def body_post(ctx):
            # the candidate was judged failed and the loop moves on to the next one
            it, a, st = ctx.it, ctx.a, ctx.st
            cand = ctx.seq.at(ctx.i_before)
            out, g = outer.candidate_clauses(it, ctx.pre, a, ctx.iter_effects, cand)
            errs = calls(ctx.iter_effects, '__has_subgraph_error')
            if g is not None and errs:
                last = errs[-1]
                ml = MV(last.pre, a.self)
                h = T(a.node_id, st)
                x = z3.Const('lx', PyV)
                HEAD_OF = z3.Function('one_of_head_of_candidate', PyV, PyV)
                loser = lambda v: z3.And(ml.G.edge(v, HEAD_OF(v)), ml.G.is_head(HEAD_OF(v)), HEAD_OF(v) != h,
                                         ml.S.R.vis(HEAD_OF(v)),
                                         z3.Not(PyV.is_exc(ml.S.R.get(HEAD_OF(v), z3.BoolVal(False)))))
                out.append(('next-candidate-only-after-this-one-was-observed-failed|C10',
                            has_error_formula(it, last.pre, a.self, g)))
                out.append(('a-candidate-is-failed-only-by-errors-of-its-own-sub-pipeline|C10', z3.Exists([x], z3.And(
                    node_in_dag(it, last.pre, g, x), PyV.is_exc(ml.S.R.get(x, z3.BoolVal(False))), z3.Not(loser(x))))))
            out.append(('a-failed-candidate-leaves-the-head-without-result|C10', not calls(ctx.iter_effects, 'copy_node_result')
                        and not calls(ctx.iter_effects, 'set_node_result')))
            return out

        return [LoopSpec(text="enumerate(self.dag.graph.nodes[node_id][NodeField.oneof_nodes])", heap_havoc=heap_havoc,
                         inv=inv, body_post=body_post)]

    def trace(self, it, pre, post, a, outcome, value, effects):
        st = it.st
        m0 = self.mv(pre, a)
        h = T(a.node_id, st)
        sub = SubV(pre, a.dag)
        tail = tail_after_loop(effects)
        copies = calls(tail, 'copy_node_result')
        x = z3.Const('ox1', PyV)
        out = []
        if copies:
            # success exit inside an iteration: the loop variables of that iteration
            sps = spawns(tail)
            cand = None
            if sps:
                g, snap = dag_arg_view(it, sps[0])
                cand = SubV(snap, g).dest if snap.getf(g, 'g_kind') != 'view' else None
            if cand is not None:
                cl, g = self.candidate_clauses(it, pre, a, tail, cand, adequacy=False)
                out += cl
                c0 = copies[0]
                errs = calls(tail, '__has_subgraph_error')
                out.append(('winner-only-if-its-sub-pipeline-has-no-error|C10', bool(errs) and z3.Not(
                    has_error_formula(it, errs[-1].pre, a.self, g))))
                out.append(('head-gets-the-value-of-the-winning-candidate|C10,C01', z3.And(
                    T(c0.a.from_node_id, st) == cand, T(c0.a.to_node_id, st) == h, z3.BoolVal(len(copies) == 1))))
                out.append(('no-yield-between-the-verdict-and-the-copy|C10',
                            not [e for e in tail[tail.index(errs[-1]):tail.index(c0)] if e.kind == 'yield'] if errs else False))
            out += [('winner-releases-the-head-waiters|C02', notifies(it, effects, a.node_id)),
                    ('winner-releases-the-consumers|C02', FA([x], z3.Implies(NOTIF(h, x), notifies(it, effects, x)), patterns=[NOTIF(h, x)])),
                    ('winner-wakes-the-run|C02', notifies(it, effects, 'run')),
                    ('later-candidates-are-never-started|C10', len(spawns(tail)) <= 1),
                    ('returns-normally-on-success', outcome == 'return')]
            return out
        # all candidates failed (code after the loop)
        sets = calls(tail, 'set_node_result')
        out.append(('after-the-last-failure-no-candidate-is-started|C10', not spawns(tail)))
        if outcome == 'return':
            ok = len(sets) == 1
            out.append(('nested-exhaustion-stores-the-no-result-error|C10', ok))
            if ok:
                v = T(sets[0].a.data, st)
                out += [('stored-only-in-a-nested-one-of|C10', sub.is_nested_oneof),
                        ('the-stored-value-is-OneOfDoesNotHaveResultError-for-this-head|C10,C05', z3.And(
                            T(sets[0].a.node_id, st) == h, PyV.is_exc(v),
                            PyV.ecls(v) == z3.IntVal(LATTICE.codes['OneOfDoesNotHaveResultError']))),
                        ('nested-exhaustion-releases-the-head-waiters|C02', notifies(it, effects, a.node_id)),
                        ('nested-exhaustion-releases-the-consumers|C02', FA([x], z3.Implies(NOTIF(h, x), notifies(it, effects, x)),
                                                                            patterns=[NOTIF(h, x)]))]
        else:
            e = value.t
            out += [('top-level-exhaustion-raises-OneOfDoesNotHaveResultError|C10,C05', z3.And(
                z3.Not(sub.is_nested_oneof), PyV.ecls(e) == z3.IntVal(LATTICE.codes['OneOfDoesNotHaveResultError']))),
                ('top-level-exhaustion-wakes-the-run-before-raising|C02', notifies(it, effects, 'run')),
                ('top-level-exhaustion-stores-nothing|C10', not sets)]
        return out


# ======================================================================================
# _run_recurrent_subgraph  (C11, C09, C02)
# ======================================================================================
RECERR = LATTICE.codes['RecurrentSubgraphDoesNotHaveResultError']
OTHER_NODE = z3.Const('some_other_node', PyV)


@contract
class M_run_recurrent_subgraph(CoroBase):
    name = 'DAGRunConcurrentManager._run_recurrent_subgraph'
    returns = 'none'
    yields = True
    props = ('C11', 'C09', 'C10', 'C02', 'C05', 'C13', 'C07', 'C08', 'C04')
    doc = ('re-runs the nodes between the start node and the destination at most max_iterations times, handing the '
           'previous Recurrent data to the start node; ends at the first non-Recurrent result, at an error, or on '
           'exhaustion with the default (if opted in) or RecurrentSubgraphDoesNotHaveResultError')

    def setup(self, it):
        st = it.st
        m = new_manager(it)
        d = new_subdag(it, m)
        for ax in notif_axioms(MV(st.snapshot(), m)):
            st.assume(ax)
        st.ghost['notif_ax'] = True
        return m, CallArgs([d, SymV(st.fresh_val('d')), SymV(st.fresh_val('res'))])

    def start(self, m, d):
        return m.G.na('start_node', d)

    def max_iter(self, m, d):
        return m.G.na('max_iterations', d)

    def requires(self, it, pre, a):
        m = self.mv(pre, a)
        d = T(a.node_id, it.st)
        s = self.start(m, d)
        x = z3.Const('rqx', PyV)
        return base_requires(m) + [
            ('graph-well-formed', graph_wf(m)), ('switch-nodes-well-formed', switch_wf(m)),
            ('destination-is-a-real-node', z3.And(m.G.node(d), z3.Not(m.G.is_switch(d)), z3.Not(m.G.is_head(d)))),
            ('started-for-a-Recurrent-result|C11', PyV.is_rec(T(a.node_result, it.st))),
            ('builder: start node recorded and in graph (C15)', m.G.node(s)),
            ('builder: max_iterations is a natural number (C15)', z3.And(PyV.is_int_(self.max_iter(m, d)), PyV.i(self.max_iter(m, d)) >= 0)),
            ('switch-inputs-resolved|C03,C09', switch_preds_resolved(m, d)),
            ('the-graph-has-a-node-besides-the-destination', z3.And(m.G.node(OTHER_NODE), OTHER_NODE != d)),
        ]

    def other_raises(self, it, pre, a):
        return [ExcCase('iterations-exhausted', 'RecurrentSubgraphDoesNotHaveResultError', may=True),
                ('default-run-failed', None)][:1] + [ExcCase('default-run-failed', None, may=True)]

    def iteration_clauses(self, it, pre, a, effs, prev_result):
        st = it.st
        m0 = self.mv(pre, a)
        d = T(a.node_id, st)
        s = self.start(m0, d)
        sub = SubV(pre, a.dag)
        runs = calls(effs, '._run_dag')
        writes = [e for e in effs if e.kind == 'write' and isinstance(e.field, str) and e.field == 'na:additional_data']
        out = []
        ok = len(runs) == 1
        out.append(('one-re-run-of-the-subgraph-per-iteration|C11', ok))
        if not ok:
            return out
        r = runs[0]
        g, snap = dag_arg_view(it, r)
        kind = snap.getf(g, 'g_kind')
        out.append(('the-re-run-scope-is-a-subgraph-view|C11', kind == 'sub'))
        if kind == 'sub':
            gv = SubV(snap, g)
            out += [('re-run-scope-goes-from-the-start-node-to-the-destination|C11,C04', z3.And(gv.source == s, gv.dest == d)),
                    ('re-run-scope-is-recurrent-and-keeps-the-one-of-mode|C11,C10', z3.And(gv.is_recurrent, gv.is_oneof == sub.is_oneof)),
                    ('re-run-scope-ignores-case-edges-and-untried-candidates (switch and one-of rules inside an iteration)|C09,C10,C11',
                     snap.getf(g, 'g_fedge') is not None)]
        ok = len(writes) == 1
        out.append(('start-node-gets-the-previous-iteration-data|C11', ok and z3.simplify(z3.And(
            T(writes[0].key, st) == s,
            MV(snap, a.self).G.addl(s) == PyV.rdata(prev_result)))))
        if ok:
            out.append(('data-handed-over-before-the-re-run-starts|C11', effs.index(writes[0]) < effs.index(r)))
        return out

    @staticmethod
    def error_scan_clause(errs, run):
        """the failure check after an iteration looks at the scope that was just re-run (a failure elsewhere, e.g. in the scope
        that requested the subgraph, must neither end the re-iteration silently nor be missed)"""
        if not errs:
            return []
        same = isinstance(errs[0].a.dag, Ref) and isinstance(run.a.dag, Ref) and errs[0].a.dag.id == run.a.dag.id
        return [('the-error-check-of-an-iteration-looks-at-the-scope-just-re-run|C02,C05,C11', same)]

    @property
    def loops(self):
        outer = self

        def inv(ctx):
            it = ctx.it
            m = MV(ctx.now(), ctx.a.self)
            nr = T(ctx.var('node_result'), it.st)
            return [('only-Recurrent-results-continue-the-loop|C11', PyV.is_rec(nr))] + \
                   [(f'rely-since-entry:{n_}', f_) for n_, f_ in outer.rely_named(it, MV(ctx.pre, ctx.a.self), m)]

        def heap_havoc(it, env):
            return outer.shared_locs(it)

        def ghost_init(it, env):
            pass

        def body_post(ctx):
            it = ctx.it
            effs = ctx.iter_effects
            prev = ctx.st.ghost.get('ghost:prev_result')
            out = outer.iteration_clauses(it, ctx.pre, ctx.a, effs, T(prev, it.st)) if prev is not None else []
            runs = calls(effs, '._run_dag')
            if runs and runs[0].exc is None:
                res = T(runs[0].res, it.st)
                errs = calls(effs, '__has_subgraph_error')
                out.append(('continues-only-on-a-Recurrent-result-without-errors|C11', z3.And(
                    PyV.is_rec(res), z3.BoolVal(bool(errs)))))
                out += outer.error_scan_clause(errs, runs[0])
            return out

        sp = LoopSpec(text='range(max_iterations)', havoc={'node_result': 'val'}, heap_havoc=heap_havoc, inv=inv,
                      body_post=body_post, ghost_init=ghost_init)
        # remember the loop-head value of node_result for the iteration clauses
        orig_havoc = sp._havoc

        def havoc_and_remember(it, env):
            orig_havoc(it, env)
            found, v = it.lookup_local(env, 'node_result')
            it.st.ghost['ghost:prev_result'] = v
        sp._havoc = havoc_and_remember
        return [sp]

    def trace(self, it, pre, post, a, outcome, value, effects):
        st = it.st
        m0 = self.mv(pre, a)
        d = T(a.node_id, st)
        s = self.start(m0, d)
        sub = SubV(pre, a.dag)
        x = z3.Const('rsx', PyV)
        pair = PyV.tup2(s, d)
        marks = calls(effects, 'set_active_rec_subgraph')
        out = []
        if not marks:
            out.append(('second-request-for-an-active-subgraph-does-nothing|C04,C11', z3.And(
                m0.S.P.data.has(pair), z3.BoolVal(not [e for e in effects if is_work(e)]), z3.BoolVal(outcome == 'return'))))
            return out
        out.append(('subgraph-marked-active-before-any-yield|C04,C11', z3.And(
            z3.Not(m0.S.P.data.has(pair)), PyV.tup2(T(marks[0].a.source, st), T(marks[0].a.dest, st)) == pair,
            z3.BoolVal(not [e for e in effects[:effects.index(marks[0])] if e.kind == 'yield']))))
        tail = tail_after_loop(effects)
        in_iteration = bool(calls(tail, '._run_dag'))
        prev = st.ghost.get('ghost:prev_result')
        if in_iteration and prev is not None:
            out += self.iteration_clauses(it, pre, a, tail, T(prev, st))
        unmarks = calls(tail, 'delete_active_rec_subgraph')
        defaults = calls(tail, '._run_node')
        sets = calls(tail, 'set_node_result')
        hides = calls(tail, 'hide_last_execution')
        node = m0.node_map.at(d)
        use_default = truthy_term(attr_fn('use_default')(node))
        if in_iteration:
            r = calls(tail, '._run_dag')[0]
            if r.exc is None and outcome == 'return':
                res = T(r.res, st)
                errs = calls(tail, '__has_subgraph_error')
                out += self.error_scan_clause(errs, r)
                if unmarks:
                    out.append(('stops-at-the-first-non-Recurrent-result|C11', z3.Not(PyV.is_rec(res))))
                    out.append(('nothing-else-is-run-after-the-final-iteration|C11', not defaults and not sets))
                else:
                    out.append(('an-error-in-the-subgraph-ends-the-re-iteration|C11', bool(errs)))
            return out
        # ---- after the loop: iterations exhausted ---------------------------------------
        final = st.ghost.get('ghost:prev_result')
        if defaults:
            dn = defaults[0]
            out += [('default-only-if-opted-in-and-still-Recurrent|C11,C12', z3.And(use_default, PyV.is_rec(T(final, st)) if final is not None else True)),
                    ('default-run-is-this-node-forced-to-default|C11', z3.And(T(dn.a.node_id, st) == d, B(dn.a.force_default))),
                    ('default-run-in-the-scope-that-requested-the-subgraph|C10', dn.a.dag is a.dag),
                    ('last-Recurrent-result-hidden-before-the-default-run|C11', len(hides) == 1 and z3.simplify(z3.And(
                        hides[0].a.seq.len == 1, hides[0].a.seq.at(0) == d)) and tail.index(hides[0]) < tail.index(dn)),
                    ('subgraph-unmarked-after-the-default-run|C04', (len(unmarks) == 1) if dn.exc is None else True)]
            return out
        e = None
        if sets:
            e = T(sets[0].a.data, st)
            out += [('exhaustion-inside-a-one-of-stores-the-error-for-the-destination|C10,C11', z3.And(
                sub.is_oneof, T(sets[0].a.node_id, st) == d)),
                ('waiters-of-the-destination-released|C02', notifies(it, effects, a.node_id)),
                ('consumers-released|C02', FA([x], z3.Implies(NOTIF(d, x), notifies(it, effects, x)), patterns=[NOTIF(d, x)]))]
        elif outcome == 'raise':
            e = value.t
            out += [('exhaustion-outside-a-one-of-fails-the-run|C11,C05', z3.Not(sub.is_oneof)),
                    ('the-run-is-woken-before-raising|C02', notifies(it, effects, 'run'))]
        else:
            out.append(('exhaustion-has-an-outcome|C11', False))
        if e is not None:
            out.append(('exhaustion-error-is-RecurrentSubgraphDoesNotHaveResultError|C11,C05', z3.And(
                PyV.is_exc(e), PyV.ecls(e) == z3.IntVal(RECERR))))
            out.append(('error-only-when-no-default-applies|C11', z3.Not(z3.And(
                use_default, PyV.is_rec(T(final, st)) if final is not None else True))))
        return out


# ======================================================================================
# run  (C13, C05, C01, C02)
# ======================================================================================
@contract
class M_run(CoroBase):
    name = 'DAGRunConcurrentManager.run'
    returns = 'val'
    yields = True
    props = ('C13', 'C05', 'C01', 'C02', 'C10')
    doc = ('starts the main dag as a registered task, waits until a task failed or the output has a result, returns the '
           'output value or raises the failed task\'s exception; on every exit every registered task is finished or '
           'has a cancel request')

    def setup(self, it):
        return new_manager(it), CallArgs()

    def requires(self, it, pre, a):
        m = self.mv(pre, a)
        return base_requires(m) + [('graph-well-formed', graph_wf(m)), ('switch-nodes-well-formed', switch_wf(m)),
                                   ('end-points-in-graph', z3.And(m.G.node(m.input), m.G.node(m.output)))]

    def other_raises(self, it, pre, a):
        return [ExcCase('a-task-failed', None, may=True)]

    def common(self, it, pre, a, outcome, effects):
        """clauses that hold on every exit, cancelled or not"""
        st = it.st
        stops = calls(effects, '_stop_coro_tasks')
        out = [('every-exit-stops-the-remaining-tasks|C13', len(stops) >= 1)]
        if stops:
            last = stops[-1]
            m = self.mv(last.pre, a)
            v = z3.Const('stv', PyV)
            j = z3.Int('stj')
            seq = last.a.seq
            out += [
                ('the-whole-registry-is-stopped|C13', FA([v], z3.Implies(m.tasks.contains(v), z3.Exists(
                    [j], z3.And(j >= 0, j < seq.len, seq.at(j) == v))), patterns=[m.tasks.contains(v)])),
                ('nothing-is-started-or-awaited-after-stopping|C13', not [e for e in effects[effects.index(last) + 1:]
                                                                         if is_work(e) or e.kind == 'yield']),
            ]
        return out

    def trace(self, it, pre, post, a, outcome, value, effects):
        st = it.st
        m0 = self.mv(pre, a)
        out = self.common(it, pre, a, outcome, effects)
        sps = spawns(effects)
        ok = len(sps) == 1 and sps[0].fn.endswith('._run_dag') and len(calls(effects, '_create_task')) == 1
        out.append(('main-dag-started-once-as-a-registered-task|C13,C01', ok))
        if ok:
            g, snap = dag_arg_view(it, sps[0])
            if snap.getf(g, 'g_kind') != 'view':
                gv = SubV(snap, g)
                out += [('main-dag-goes-from-input-to-output|C01', z3.And(gv.source == m0.input, gv.dest == m0.output)),
                        ('main-dag-is-a-plain-scope|C10,C11', z3.And(z3.Not(gv.is_oneof), z3.Not(gv.is_recurrent), z3.Not(gv.is_nested_oneof))),
                        ('main-dag-ignores-case-edges|C09', snap.getf(g, 'g_fedge') is not None)]
            out += spawn_preconditions(it, sps[0], self.name)
        waits = [e for e in effects if e.kind == 'wait']
        ok = len(waits) == 1 and z3.is_true(z3.simplify(waits[0].cond == RUN))
        out.append(('waits-on-the-RUN-condition|C02', ok))
        if ok:
            w = waits[0]
            mw = self.mv(w.snap, a)
            tv = z3.Const('wtv', PyV)
            from pyvc.values import as_bool_term
            first = as_z3(as_bool_term(w.first))
            out.append(('does-not-block-once-a-task-failed (wake predicate adequate)|C02', z3.Implies(
                z3.Exists([tv], z3.And(mw.tasks.contains(tv), mw.task_st(PyV.tid(tv)) == T_EXC)), first)))
            out.append(('does-not-block-once-the-output-has-a-result (wake predicate adequate)|C02', z3.Implies(
                mw.S.R.vis(mw.output), first)))
        res = calls(effects, '_get_dag_result')
        if outcome == 'return':
            out.append(('value-comes-from-_get_dag_result|C01,C05', len(res) == 1 and res[0].exc is None and
                        z3.simplify(T(value, st) == T(res[0].res, st))))
        else:
            out.append(('raises-only-what-_get_dag_result-raised (an exception carried by one of its tasks)|C05',
                        len(res) == 1 and res[0].exc is not None and z3.simplify(value.t == res[0].exc.t)))
        return out

    def cancel_trace(self, it, pre, post, a, outcome, value, effects):
        return self.common(it, pre, a, outcome, effects) + [('a-cancelled-run-raises|C13', outcome == 'raise')]
