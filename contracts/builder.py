"""
Contracts for dag_builders/annotation/builder.py and the declaration helpers of node/node.py (C15, C16, C17.b).
Declarations are symbolic: a node class is an opaque value, its reflection data (is it a class, its bases, the
parameters and annotations of process) are uninterpreted functions of it (pyvc/libmodels4.py).
"""
import z3
from pyvc.values import FA

from pyvc.contract import Contract, ExcCase, LoopSpec, contract, A, same_value, lemma, Lemma
from pyvc.interp import CallArgs, attr_fn, STR_OF
from pyvc.state import SymMap, SymSet, SymSeq
from pyvc.values import (PyV, NONE, TRUE, FALSE, SymV, SymB, SymI, SymS, Ref, lift, lower, as_z3, subcls, LATTICE,
                         mk_str, mk_int, truthy_term, IntS, BoolS, StrS, ClsRef, EnumMember)
from pyvc.libmodels import GraphOps, GRAPH_CLS
from pyvc.libmodels2 import HAS_ATTR, IS_CORO_FN, IS_CALLABLE, TAG_IN, SEQ_AT, SEQ_LEN
from pyvc.libmodels4 import ISCLASS, IN_MRO, MARK_KIND, SIG_PARAMS, ANN_ITEMS, ANN_HAS, MARK_KINDS

from .shapes import new_obj, T, B, GV
from .collab import user_calls, calls

BUILDER_PY = 'ml_pipeline_engine/dag_builders/annotation/builder.py'
NODE_PY = 'ml_pipeline_engine/node/node.py'
BUILDER = f'{BUILDER_PY}::AnnotationDAGBuilder'


def S(x):
    return z3.StringVal(x)


def fresh_decl(it, hint='node'):
    v = it.st.fresh_val(hint)
    it.st.assume(v != NONE)
    return SymV(v)


def process_of(cls):
    return attr_fn('process')(cls)


def has_process(cls):
    return z3.And(HAS_ATTR(cls, S('process')), IS_CALLABLE(process_of(cls)))


def VALID(cls):
    """what validate_node establishes about a class it accepts (the part later steps rely on)"""
    return z3.And(ISCLASS(cls), IN_MRO(cls, S('NodeBase')), has_process(cls))


class DeclContract(Contract):
    props = ('C16',)
    path = BUILDER_PY


# ======================================================================================
# node/node.py helpers
# ======================================================================================
@contract
class GetCallableRunMethod(DeclContract):
    path = NODE_PY
    name = 'get_callable_run_method'
    returns = 'val'
    inline_at_calls = True
    props = ('C16', 'C17')
    doc = 'RunMethodExpectedError iff the node has no callable process; otherwise the bound process of a fresh instance'

    def setup(self, it):
        return None, CallArgs([fresh_decl(it)])

    def raises(self, it, pre, a):
        n = T(a.node, it.st)
        return [ExcCase('no-callable-process', 'RunMethodExpectedError', when=z3.Not(has_process(n))),
                ExcCase('constructor-raised', None, may=True)]

    def effects_spec(self, it, pre, post, a, outcome, value, effects):
        ucs = user_calls(effects)
        out = [('at-most-one-instance-created', len(ucs) <= 1)]
        if outcome == 'return':
            out.append(('returns-process-of-a-new-instance', len(ucs) == 1 and ucs[0].result is not None and z3.simplify(
                T(value, it.st) == attr_fn('process')(T(ucs[0].result, it.st)))))
        return out


# ======================================================================================
# validators (C16.a): "raises X iff defect"
# ======================================================================================
@contract
class CheckBaseClass(DeclContract):
    name = 'AnnotationDAGBuilder._check_base_class'
    returns = 'none'
    doc = 'IncorrectTypeClass iff the object is not a class; else IncorrectBaseClass iff NodeBase is not among its bases'

    def setup(self, it):
        return None, CallArgs([fresh_decl(it)])

    def raises(self, it, pre, a):
        n = T(a.node, it.st)
        return [ExcCase('not-a-class', 'IncorrectTypeClass', when=z3.Not(ISCLASS(n))),
                ExcCase('no-node-base', 'IncorrectBaseClass', when=z3.And(ISCLASS(n), z3.Not(IN_MRO(n, S('NodeBase')))))]


def params_of(method):
    """(name_at(i), len) of the parameters of a run method"""
    v = SIG_PARAMS(method)
    return (lambda i: PyV.t0(SEQ_AT(v, i))), SEQ_LEN(v)


def is_user_param(name):
    return z3.And(name != mk_str('self'), name != mk_str('args'), name != mk_str('kwargs'))


@contract
class CheckAnnotations(DeclContract):
    name = 'AnnotationDAGBuilder._check_annotations'
    returns = 'none'
    doc = ('UndefinedAnnotation iff process has parameters (other than self/args/kwargs) and no annotations at all; '
           'UndefinedParamAnnotation iff some such parameter is missing from the annotations')

    def setup(self, it):
        return None, CallArgs([fresh_decl(it)])

    def requires(self, it, pre, a):
        return [('has-callable-process (checked by the caller\'s earlier steps)', True)]

    def ensures(self, it, pre, post, a, res):
        return [('accepted-only-with-a-callable-process', has_process(T(a.obj, it.st)))]

    def raises(self, it, pre, a):
        return [ExcCase('no-callable-process', 'RunMethodExpectedError', may=True),
                ExcCase('no-annotations-at-all', 'UndefinedAnnotation', may=True),
                ExcCase('parameter-without-annotation', 'UndefinedParamAnnotation', may=True),
                ExcCase('constructor-raised', None, may=True)]

    def effects_spec(self, it, pre, post, a, outcome, value, effects):
        st = it.st
        ucs = user_calls(effects)
        out = []
        if not ucs or ucs[0].result is None:
            return out
        method = attr_fn('process')(T(ucs[0].result, st))
        ann = z3.If(HAS_ATTR(method, S('__annotations__')), attr_fn('__annotations__')(method), NONE)
        name_at, n = params_of(method)
        i = z3.Int('pi')
        has_params = z3.Exists([i], z3.And(i >= 0, i < n, is_user_param(name_at(i))))
        missing = z3.Exists([i], z3.And(i >= 0, i < n, is_user_param(name_at(i)), z3.Not(ANN_HAS(ann, name_at(i)))))
        code = LATTICE.codes
        if outcome == 'return':
            out.append(('accepted-only-if-every-parameter-is-annotated', z3.Not(z3.And(truthy_term(ann), missing))))
            out.append(('accepted-only-if-annotations-exist-when-there-are-parameters', z3.Not(z3.And(z3.Not(truthy_term(ann)), has_params))))
        else:
            c = PyV.ecls(value.t)
            out.append(('UndefinedAnnotation-only-without-any-annotations', z3.Implies(
                c == code['UndefinedAnnotation'], z3.And(z3.Not(truthy_term(ann)), has_params))))
            out.append(('UndefinedParamAnnotation-only-for-a-missing-annotation', z3.Implies(
                c == code['UndefinedParamAnnotation'], z3.And(truthy_term(ann), missing))))
        return out

    @property
    def loops(self):
        def inv(ctx):
            it = ctx.it
            ann = T(ctx.var('annotations'), it.st)
            j = z3.Int('cj')
            seq = ctx.seq
            return [('parameters-seen-so-far-are-annotated', FA([j], z3.Implies(
                z3.And(j >= 0, j < ctx.i, truthy_term(PyV.t1(seq.at(j)))), ANN_HAS(ann, PyV.t0(seq.at(j)))),
                patterns=[seq.at(j)]))]
        return [LoopSpec(text='parameters', inv=inv)]


def marks_of(method):
    """the (name, annotation) items of a run method's __annotations__"""
    v = ANN_ITEMS(attr_fn('__annotations__')(method))
    return (lambda i: PyV.t0(SEQ_AT(v, i))), (lambda i: PyV.t1(SEQ_AT(v, i))), SEQ_LEN(v)


def is_dependency_mark(ann):
    return z3.And(MARK_KIND(ann) >= 1, MARK_KIND(ann) <= 4)


def is_generic_mark(ann):
    """a generic input that was never rebound: both spellings the library offers (InputGeneric and GenericInput)"""
    return z3.Or(MARK_KIND(ann) == 5, MARK_KIND(ann) == 6)


@contract
class GetInputMarksMap(DeclContract):
    name = 'AnnotationDAGBuilder._get_input_marks_map'
    returns = 'list'
    props = ('C16', 'C15')
    doc = ('NonRedefinedGenericTypeError iff some annotation is a generic input that was never rebound; otherwise exactly '
           'the dependency marks of process, in declaration order, with their parameter names')

    def setup(self, it):
        return None, CallArgs([fresh_decl(it)])

    def raises(self, it, pre, a):
        return [ExcCase('no-callable-process', 'RunMethodExpectedError', may=True),
                ExcCase('generic-input-not-rebound', 'NonRedefinedGenericTypeError', may=True),
                ExcCase('constructor-raised', None, may=True)]

    def effects_spec(self, it, pre, post, a, outcome, value, effects):
        st = it.st
        ucs = user_calls(effects)
        out = []
        if not ucs or ucs[0].result is None:
            return out
        method = attr_fn('process')(T(ucs[0].result, st))
        name_at, ann_at, n = marks_of(method)
        i = z3.Int('mi')
        generic = z3.Exists([i], z3.And(i >= 0, i < n, is_generic_mark(ann_at(i))))
        if outcome == 'return':
            out.append(('a-declaration-with-an-unbound-generic-input-is-rejected', z3.Not(generic)))
        elif PyV.ecls(value.t).eq(z3.IntVal(LATTICE.codes['NonRedefinedGenericTypeError'])) or True:
            out.append(('NonRedefinedGenericTypeError-only-for-an-unbound-generic-input', z3.Implies(
                PyV.ecls(value.t) == LATTICE.codes['NonRedefinedGenericTypeError'], generic)))
        return out

    def ensures(self, it, pre, post, a, res):
        # at call sites: the list is some order-preserving selection of (name, mark) pairs of the node's process
        items = post.getf(res, 'items')
        j = z3.Int('rj')
        if not isinstance(items, SymSeq):
            return []
        return [('entries-are-(name, dependency mark)-pairs', FA([j], z3.Implies(z3.And(j >= 0, j < items.len), z3.And(
            PyV.is_tup2(items.at(j)), is_dependency_mark(PyV.t1(items.at(j))))), patterns=[items.at(j)]))]

    @property
    def loops(self):
        def inv(ctx):
            it = ctx.it
            items = it.st.getf(ctx.var('inputs'), 'items')
            if isinstance(items, tuple):
                items = it.models.to_symseq(it, items)
            j, k = z3.Int('lj'), z3.Int('lk')
            seq = ctx.seq
            return [
                ('collected-so-far-are-dependency-marks', FA([j], z3.Implies(z3.And(j >= 0, j < items.len), z3.And(
                    PyV.is_tup2(items.at(j)), is_dependency_mark(PyV.t1(items.at(j))))), patterns=[items.at(j)])),
                ('no-unbound-generic-input-so-far', FA([k], z3.Implies(z3.And(k >= 0, k < ctx.i),
                                                                       z3.Not(is_generic_mark(PyV.t1(seq.at(k))))), patterns=[seq.at(k)])),
                ('every-dependency-mark-so-far-is-collected|C15', FA([k], z3.Implies(
                    z3.And(k >= 0, k < ctx.i, is_dependency_mark(PyV.t1(seq.at(k)))),
                    z3.Exists([j], z3.And(j >= 0, j < items.len, items.at(j) == seq.at(k)))), patterns=[seq.at(k)])),
            ]
        return [LoopSpec(text='node.__annotations__.items()', havoc={'inputs': 'content'}, inv=inv)]


# ======================================================================================
# ids
# ======================================================================================
NODE_ID = z3.Function('node_id_of', PyV, PyV)


def id_spec(it, n):
    """the id get_node_id computes: <node_type or 'node'>__<name or module_classname with dots replaced>"""
    has_type = z3.And(HAS_ATTR(n, S('node_type')), truthy_term(attr_fn('node_type')(n)))
    has_name = z3.And(HAS_ATTR(n, S('name')), truthy_term(attr_fn('name')(n)))
    return has_type, has_name


@contract
class GetNodeId(DeclContract):
    path = NODE_PY
    name = 'get_node_id'
    returns = 'val'
    props = ('C15', 'C16')
    doc = ('<node_type or "node">__<name, or module_ClassName with dots replaced>; needs __module__ when there is no name '
           '(objects without it make it raise AttributeError)')

    def setup(self, it):
        return None, CallArgs([fresh_decl(it)])

    def requires(self, it, pre, a):
        n = T(a.node, it.st)
        return [('type-and-name-are-strings', z3.And(
            z3.Implies(HAS_ATTR(n, S('node_type')), z3.Or(attr_fn('node_type')(n) == NONE, PyV.is_str_(attr_fn('node_type')(n)))),
            z3.Implies(HAS_ATTR(n, S('name')), z3.Or(attr_fn('name')(n) == NONE, PyV.is_str_(attr_fn('name')(n))))))]

    def raises(self, it, pre, a):
        n = T(a.node, it.st)
        _ht, has_name = id_spec(it, n)
        return [ExcCase('object-without-name-and-module', 'AttributeError',
                        when=z3.And(z3.Not(has_name), z3.Not(HAS_ATTR(n, S('__module__'))), z3.Not(ISCLASS(n))))]   # every class has __module__

    def result_term(self, it, pre, a):
        return NODE_ID(T(a.node, it.st))

    def ensures(self, it, pre, post, a, res):
        n = T(a.node, it.st)
        has_type, has_name = id_spec(it, n)
        r = it.as_str(res) if not isinstance(res, SymV) else PyV.s(res.t)
        if r is None:
            return [('is-a-string', False)]
        if it.verifying != f'{NODE_PY}::{self.name}':
            return []
        tp = z3.If(has_type, PyV.s(attr_fn('node_type')(n)), S('node'))
        return [('starts-with-the-node-type', z3.PrefixOf(z3.Concat(tp, S('__')), r)),
                ('ends-with-the-declared-name-when-there-is-one', z3.Implies(has_name, r == z3.Concat(tp, S('__'), PyV.s(attr_fn('name')(n)))))]


@contract
class GenerateNodeId(DeclContract):
    path = NODE_PY
    name = 'generate_node_id'
    returns = 'str'
    props = ('C15',)
    doc = '<prefix>__<name>, or <prefix>__<8 hex digits of a fresh uuid> when no name is given'

    def setup(self, it):
        st = it.st
        which = st.choose([True, True], 'named')
        name = SymS(st.fresh_str('name')) if which == 0 else None
        return None, CallArgs([SymS(st.fresh_str('prefix')), name])

    def bind(self, it, fi, self_val, ca):
        args = list(ca.args)
        prefix = args[0] if args else ca.kwargs['prefix']
        name = args[1] if len(args) > 1 else ca.kwargs.get('name')
        return A(prefix=prefix, name=name)

    def ensures(self, it, pre, post, a, res):
        r = it.as_str(res)
        pfx = it.as_str(it.to_str(a.prefix))
        out = [('starts-with-the-prefix', z3.PrefixOf(z3.Concat(pfx, S('__')), r))]
        if a.name is not None and not (isinstance(a.name, SymV)):
            out.append(('named-id', r == z3.Concat(pfx, S('__'), it.as_str(it.to_str(a.name)))))
        return out

    def effects_spec(self, it, pre, post, a, outcome, value, effects):
        fresh = [e for e in effects if e.kind == 'fresh_uuid']
        return [('a-fresh-uuid-exactly-when-no-name-is-given', (len(fresh) == 1) if a.name is None else (len(fresh) == 0))]

    def call_effects(self, it, pre, post, a, res):
        it.st.emit('generated_id', prefix=a.prefix, name=a.name, result=res)


@contract
class AddNodeToMap(DeclContract):
    name = 'AnnotationDAGBuilder._add_node_to_map'
    returns = 'none'
    props = ('C15',)
    doc = 'node_map[get_node_id(node)] = node, nothing else'

    def setup(self, it):
        return new_builder(it), CallArgs([fresh_decl(it)])

    def raises(self, it, pre, a):
        return GetNodeId().raises(it, pre, a)

    def requires(self, it, pre, a):
        return GetNodeId().requires(it, pre, a)

    def modifies(self, it, pre, a):
        return [(pre.getf(a.self, '_node_map'), 'map')]

    def ensures(self, it, pre, post, a, res):
        nm0 = it_map(it, pre, pre.getf(a.self, '_node_map'))
        nm1 = it_map(it, post, post.getf(a.self, '_node_map'))
        n = T(a.node, it.st)
        return [('mapped', nm1.eq(nm0.store(NODE_ID(n), n)))]


def it_map(it, snap, ref):
    m = snap.getf(ref, 'map')
    if isinstance(m, SymMap):
        return m
    sm = SymMap.empty()
    for k, v in m.items():
        sm = sm.store(lift(k, it.st), lift(v, it.st))
    return sm


def new_builder(it):
    st = it.st
    g = GraphOps.fresh_base(it, 'B')
    nm = st.alloc('dict', map=SymMap.fresh(st, 'b_node_map'))
    rec = st.alloc('list', items=SymSeq.fresh(st, 'rec_pairs'))
    syn = st.alloc('list', items=SymSeq.fresh(st, 'synthetic'))
    i = z3.Int('rpi')
    rp = st.getf(rec, 'items')
    st.assume(FA([i], z3.Implies(z3.And(i >= 0, i < rp.len), PyV.is_tup2(rp.at(i))), patterns=[rp.at(i)]))
    return new_obj(it, BUILDER, _dag=g, _node_map=nm, _recurrent_sub_graphs=rec, _synthetic_nodes=syn)


def graph_view(snap, builder):
    return GV(snap, snap.getf(builder, '_dag'))


def graph_locs(snap, builder):
    g = snap.getf(builder, '_dag')
    return [(g, f) for f in snap.heap[g.id] if f.startswith(('g_nodes', 'g_edges', 'na:', 'ea:'))]


@contract
class AddNodePairToDag(DeclContract):
    name = 'AnnotationDAGBuilder._add_node_pair_to_dag'
    returns = 'none'
    props = ('C15',)
    doc = 'both nodes and the single edge between them exist afterwards; the edge carries exactly the given attributes'

    def setup(self, it):
        st = it.st
        which = st.choose([True, True], 'with-kwarg')
        kw = dict(kwarg_name=SymV(st.fresh_val('kw'))) if which == 0 else {}
        return new_builder(it), CallArgs([SymV(st.fresh_val('src')), SymV(st.fresh_val('dst'))], kw)

    def bind(self, it, fi, self_val, ca):
        return A(self=self_val, source_node_id=ca.args[0], dest_node_id=ca.args[1], edge_data=dict(ca.kwargs))

    def modifies(self, it, pre, a):
        return graph_locs(pre, a.self)

    def ensures(self, it, pre, post, a, res):
        st = it.st
        g0, g1 = graph_view(pre, a.self), graph_view(post, a.self)
        u, v = T(a.source_node_id, st), T(a.dest_node_id, st)
        out = [('nodes-present', g1.nodes.mem == g0.nodes.add(u).add(v).mem),
               ('edge-present', g1.edges.mem == g0.edges.add(PyV.tup2(u, v)).mem)]
        for f in ('kwarg_name', 'is_switch', 'case_branch'):
            a0, a1 = pre.getf(g0.g, f'ea:{f}').a, post.getf(g1.g, f'ea:{f}').a
            if f in a.edge_data:
                out.append((f'edge-attribute-{f}-set', a1 == z3.Store(a0, PyV.tup2(u, v), T(a.edge_data[f], st))))
            else:
                out.append((f'edge-attribute-{f}-untouched', a1 == a0))
        for f in ('is_switch', 'is_oneof', 'is_oneof_child', 'oneof_nodes', 'start_node', 'max_iterations', 'additional_data'):
            out.append((f'node-attribute-{f}-untouched', post.getf(g1.g, f'na:{f}').a == pre.getf(g0.g, f'na:{f}').a))
        return out


@contract
class AddSwitchNode(DeclContract):
    name = 'AnnotationDAGBuilder._add_switch_node'
    returns = 'none'
    props = ('C15', 'C09')
    doc = 'the synthetic node is marked is_switch and gets one is_switch edge from the deciding node'

    def setup(self, it):
        st = it.st
        return new_builder(it), CallArgs([SymV(st.fresh_val('sw')), SymV(st.fresh_val('decider'))])

    def modifies(self, it, pre, a):
        return graph_locs(pre, a.self)

    def ensures(self, it, pre, post, a, res):
        st = it.st
        g0, g1 = graph_view(pre, a.self), graph_view(post, a.self)
        s, d = T(a.node_id, st), T(a.switch_decide_node_id, st)
        return [('nodes-present', g1.nodes.mem == g0.nodes.add(s).add(d).mem),
                ('decider-edge-present', g1.edges.mem == g0.edges.add(PyV.tup2(d, s)).mem),
                ('marked-as-switch', post.getf(g1.g, 'na:is_switch').a == z3.Store(pre.getf(g0.g, 'na:is_switch').a, s, TRUE)),
                ('decider-edge-marked', post.getf(g1.g, 'ea:is_switch').a == z3.Store(pre.getf(g0.g, 'ea:is_switch').a, PyV.tup2(d, s), TRUE)),
                ('other-edge-attributes-untouched', z3.And(post.getf(g1.g, 'ea:kwarg_name').a == pre.getf(g0.g, 'ea:kwarg_name').a,
                                                           post.getf(g1.g, 'ea:case_branch').a == pre.getf(g0.g, 'ea:case_branch').a))]


@contract
class ValidateNode(DeclContract):
    name = 'AnnotationDAGBuilder.validate_node'
    returns = 'none'
    doc = 'base-class check, then annotation check; accepts only when both accept'

    def setup(self, it):
        return new_builder(it), CallArgs([fresh_decl(it)])

    def raises(self, it, pre, a):
        n = T(a.node, it.st)
        return [ExcCase('not-a-class', 'IncorrectTypeClass', when=z3.Not(ISCLASS(n))),
                ExcCase('no-node-base', 'IncorrectBaseClass', when=z3.And(ISCLASS(n), z3.Not(IN_MRO(n, S('NodeBase'))))),
                ExcCase('annotation-defect-or-no-process', None, may=True)]

    def ensures(self, it, pre, post, a, res):
        return [('an-accepted-node-is-a-node-class-with-a-callable-process', VALID(T(a.node, it.st)))]

    def effects_spec(self, it, pre, post, a, outcome, value, effects):
        b, c = calls(effects, '_check_base_class'), calls(effects, '_check_annotations')
        out = [('base-class-checked-first', len(b) == 1 and same_value(b[0].a.node, a.node, it.st) is not False)]
        if outcome == 'return':
            out.append(('accepted-only-after-both-checks-passed', len(b) == 1 and len(c) == 1 and b[0].exc is None and c[0].exc is None
                        and effects.index(b[0]) < effects.index(c[0])))
        return out


@contract
class ValidateRecurrentBases(DeclContract):
    name = 'AnnotationDAGBuilder._validate_recurrent_node_base_classes'
    returns = 'none'
    doc = 'IncorrectRecurrentMixinClass iff some recorded recurrent destination lacks RecurrentProtocol among its bases'

    def setup(self, it):
        return new_builder(it), CallArgs()

    def _bad(self, it, pre, a):
        rp = pre.getf(pre.getf(a.self, '_recurrent_sub_graphs'), 'items')
        nm = it_map(it, pre, pre.getf(a.self, '_node_map'))
        i = z3.Int('vi')
        return rp, nm, z3.Exists([i], z3.And(i >= 0, i < rp.len, z3.Not(IN_MRO(nm.at(PyV.t1(rp.at(i))), S('RecurrentProtocol')))))

    def requires(self, it, pre, a):
        rp, nm, _b = self._bad(it, pre, a)
        i = z3.Int('vq')
        return [('recorded-destinations-are-mapped (traversal invariant)', FA([i], z3.Implies(
            z3.And(i >= 0, i < rp.len), z3.And(nm.has(PyV.t1(rp.at(i))), nm.at(PyV.t1(rp.at(i))) != NONE)), patterns=[rp.at(i)]))]

    def raises(self, it, pre, a):
        _rp, _nm, bad = self._bad(it, pre, a)
        return [ExcCase('destination-without-recurrent-protocol', 'IncorrectRecurrentMixinClass', when=bad)]

    @property
    def loops(self):
        outer = self

        def inv(ctx):
            it = ctx.it
            rp, nm, _b = outer._bad(it, ctx.pre, ctx.a)
            j = z3.Int('vj')
            return [('destinations-so-far-have-the-protocol', FA([j], z3.Implies(
                z3.And(j >= 0, j < ctx.i), IN_MRO(nm.at(PyV.t1(rp.at(j))), S('RecurrentProtocol'))), patterns=[rp.at(j)]))]
        return [LoopSpec(text='self._recurrent_sub_graphs', inv=inv)]


@contract
class IsExecutorNeeded(DeclContract):
    name = 'AnnotationDAGBuilder._is_executor_needed'
    returns = staticmethod(lambda it, pre, a: (SymB(it.st.fresh_bool('proc_needed')), SymB(it.st.fresh_bool('thr_needed'))))
    props = ('C17',)
    doc = ('(process pool needed, thread pool needed): process iff some sync node carries the process tag, thread iff some '
           'sync node does not')

    def setup(self, it):
        return new_builder(it), CallArgs()

    def requires(self, it, pre, a):
        return [('every-mapped-class-went-through-validate_node', all_mapped_valid(it, pre, a.self))]

    def raises(self, it, pre, a):
        return [ExcCase('constructor-raised', None, may=True)]

    def ensures(self, it, pre, post, a, res):
        if not (isinstance(res, tuple) and len(res) == 2):
            return [('returns-a-pair', False)]
        g = it.st.ghost
        if 'ghost:proc_exit' not in g:
            return []
        # C17: which component is which.  The caller stores them in DAG.is_process_pool_needed / is_thread_pool_needed in this order.
        return [('returns-(process pool needed, thread pool needed)-in-this-order|C17', z3.And(
            B(res[0]) == B(g['ghost:proc_exit']), B(res[1]) == B(g['ghost:thr_exit'])))]

    @property
    def loops(self):
        def body_post(ctx):
            it, st = ctx.it, ctx.st
            ucs = user_calls(ctx.iter_effects)
            cls = ctx.seq.at(ctx.i_before)
            out = []
            if ucs and ucs[0].result is not None:
                m = attr_fn('process')(T(ucs[0].result, st))
                is_sync = z3.Not(IS_CORO_FN(m))
                tags = attr_fn('tags')(cls)
                proc0, thr0 = B(ctx.st.ghost['ghost:proc0']), B(ctx.st.ghost['ghost:thr0'])
                proc1, thr1 = B(ctx.var('is_process_pool_needed')), B(ctx.var('is_thread_pool_needed'))
                in_proc = TAG_IN(tags, S('process'))
                # C17: a pool is needed iff some node's execution mode uses it.  run_node decides the mode in this order:
                # coroutine function -> on the loop; non_async tag -> inline; process tag -> process pool; else thread pool
                uses_pool = z3.And(is_sync, z3.Not(TAG_IN(tags, S('non_async'))))
                out.append(('process-flag-raised-exactly-for-nodes-run-in-the-process-pool', proc1 == z3.Or(proc0, z3.And(uses_pool, in_proc))))
                out.append(('thread-flag-raised-exactly-for-nodes-run-in-the-thread-pool', thr1 == z3.Or(thr0, z3.And(uses_pool, z3.Not(in_proc)))))
            return out

        def remember_flags(ctx):
            # no invariant of its own: records the flags as they stand at the loop head / exit (for the postcondition)
            ctx.st.ghost['ghost:proc_exit'] = ctx.var('is_process_pool_needed')
            ctx.st.ghost['ghost:thr_exit'] = ctx.var('is_thread_pool_needed')
            return []

        sp = LoopSpec(text='self._node_map.values()', havoc={'is_process_pool_needed': 'bool', 'is_thread_pool_needed': 'bool'},
                      inv=remember_flags, body_post=body_post)
        orig = sp._havoc

        def havoc_and_remember(it, env):
            orig(it, env)
            it.st.ghost['ghost:proc0'] = it.lookup_local(env, 'is_process_pool_needed')[1]
            it.st.ghost['ghost:thr0'] = it.lookup_local(env, 'is_thread_pool_needed')[1]
        sp._havoc = havoc_and_remember
        return [sp]

    def effects_spec(self, it, pre, post, a, outcome, value, effects):
        return []


@contract
class ValidateRecurrentParams(DeclContract):
    name = 'AnnotationDAGBuilder._validate_recurrent_nodes_params'
    returns = 'none'
    props = ('C16', 'C11')
    doc = ('for every recorded (start, destination) pair of real nodes the start node\'s process must declare additional_data; '
           'IncorrectParamsRecurrentNode otherwise')

    def setup(self, it):
        return new_builder(it), CallArgs()

    def requires(self, it, pre, a):
        rp = pre.getf(pre.getf(a.self, '_recurrent_sub_graphs'), 'items')
        nm = it_map(it, pre, pre.getf(a.self, '_node_map'))
        i = z3.Int('vq')
        return [('assumed:validity: recurrent start nodes are reachable from the output, hence mapped', FA([i], z3.Implies(
            z3.And(i >= 0, i < rp.len), nm.has(PyV.t0(rp.at(i)))), patterns=[rp.at(i)])),
                ('every-mapped-class-went-through-validate_node', all_mapped_valid(it, pre, a.self))]

    def raises(self, it, pre, a):
        return [ExcCase('start-node-without-additional_data', 'IncorrectParamsRecurrentNode', may=True),
                ExcCase('constructor-raised', None, may=True)]

    def _declares(self, it, effs):
        ucs = user_calls(effs)
        if not ucs or ucs[0].result is None:
            return None
        ann = attr_fn('__annotations__')(attr_fn('process')(T(ucs[0].result, it.st)))
        return TAG_IN(ann, S('additional_data'))

    @property
    def loops(self):
        outer = self

        def body_post(ctx):
            d = outer._declares(ctx.it, ctx.iter_effects)
            return [('a-real-start-node-passes-only-if-it-declares-additional_data|C16', d)] if d is not None else []
        return [LoopSpec(text='self._recurrent_sub_graphs', body_post=body_post)]

    def effects_spec(self, it, pre, post, a, outcome, value, effects):
        from .manager_coro import tail_after_loop
        if outcome == 'raise' and z3.is_true(z3.simplify(PyV.ecls(value.t) == LATTICE.codes['IncorrectParamsRecurrentNode'])):
            d = self._declares(it, tail_after_loop(effects))
            return [('rejected-only-when-additional_data-is-not-declared|C16', z3.Not(d) if d is not None else False)]
        return []


DAG_KEY = 'ml_pipeline_engine/dag/dag.py::DAG'


@contract
class Build(DeclContract):
    name = 'AnnotationDAGBuilder.build'
    returns = 'val'
    props = ('C15', 'C16', 'C17')
    doc = ('maps the input node, traverses from the output, validates the recurrent declarations, and only then creates the '
           'DAG: a copy of the built graph, the two end-point ids, a copy of the node map, the pool flags in their fields')

    def setup(self, it):
        st = it.st
        which = st.choose([True, True], 'with-output')
        out = fresh_decl(it, 'output') if which == 0 else None
        return new_builder(it), CallArgs([fresh_decl(it, 'input')], dict(output_node=out))

    def requires(self, it, pre, a):
        c1, c2 = z3.Consts('ic1 ic2', PyV)
        return [('declared-names-and-types-are-strings', decls_wellformed()),
                ('validity: get_node_id is injective on the declared classes', FA([c1, c2], z3.Implies(
                    NODE_ID(c1) == NODE_ID(c2), c1 == c2), patterns=[z3.MultiPattern(NODE_ID(c1), NODE_ID(c2))])),
                ('a-fresh-builder (no recurrent pairs recorded yet)', rec_dests_mapped(it, pre, a.self)),
                ('a-fresh-builder (nothing mapped yet)', nothing_mapped(it, pre, a.self)),
                ('assumed:validity: the input node is a node class with a callable process (the traversal validates it only when '
                 'it reaches it: always, unless the declarations are cyclic)', VALID(T(a.input_node, it.st)))]

    def raises(self, it, pre, a):
        return [ExcCase('declaration-rejected-or-user-constructor-failed', None, may=True)]

    def modifies(self, it, pre, a):
        b = a.self
        return graph_locs(pre, b) + [(pre.getf(b, '_node_map'), 'map'), (pre.getf(b, '_recurrent_sub_graphs'), 'items'),
                                     (pre.getf(b, '_synthetic_nodes'), 'items')]

    def effects_spec(self, it, pre, post, a, outcome, value, effects):
        st = it.st
        out = []
        trav = calls(effects, '_traverse_breadth_first_to_dag')
        v1 = calls(effects, '_validate_recurrent_node_base_classes')
        v2 = calls(effects, '_validate_recurrent_nodes_params')
        ex = calls(effects, '_is_executor_needed')
        dags = [e for e in effects if e.kind == 'alloc' and e.cls == 'DAG']
        copies = [e for e in effects if e.kind == 'graph_copy']
        dcs = [e for e in effects if e.kind == 'deepcopy']
        first_map = calls(effects, '_add_node_to_map')
        if first_map and first_map[0].exc is not None:
            return [('no-DAG-on-rejection|C16', not dags)]
        if a.output_node is not None:
            out.append(('traverses-from-the-output-once|C15', len(trav) == 1 and same_value(trav[0].a.output_node, a.output_node, st) is not False
                        and same_value(trav[0].a.input_node, a.input_node, st) is not False))
        else:
            out.append(('single-node-build-does-not-traverse|C15', not trav))
        if outcome == 'return':
            ok = len(dags) == 1 and len(v1) == 1 and len(v2) == 1 and len(ex) == 1
            out.append(('one-DAG-after-both-recurrent-validations-and-the-executor-scan|C16', ok
                        and effects.index(v1[0]) < effects.index(dags[0]) and effects.index(v2[0]) < effects.index(dags[0])))
            if ok and isinstance(value, Ref):
                g = lambda f: post.getf(value, f)
                flags = ex[0].res
                out.append(('DAG-holds-a-copy-of-the-built-graph|C15', len(copies) == 1 and copies[0].src.id == pre.getf(a.self, '_dag').id
                            and g('graph').id == copies[0].new.id))
                out.append(('DAG-holds-a-copy-of-the-node-map|C15', len(dcs) == 1 and dcs[0].src.id == pre.getf(a.self, '_node_map').id
                            and g('node_map').id == dcs[0].new.id))
                out.append(('end-point-ids|C15', z3.And(T(g('input_node'), st) == NODE_ID(T(a.input_node, st)), T(g('output_node'), st) == NODE_ID(
                    T(a.output_node if a.output_node is not None else a.input_node, st)))))
                if isinstance(flags, tuple) and len(flags) == 2:
                    out.append(('pool-flags-land-in-their-own-fields|C17', z3.And(
                        B(g('is_process_pool_needed')) == B(flags[0]), B(g('is_thread_pool_needed')) == B(flags[1]))))
        else:
            out.append(('no-DAG-on-rejection|C16', not dags))
        return out


# ======================================================================================
# the traversal (C15.a, C15.b, C16.b)
# ======================================================================================
def decls_wellformed():
    """validity of the declaration set: node_type / name attributes of declared objects are strings or None"""
    c = z3.Const('dwc', PyV)
    return FA([c], z3.And(
        z3.Implies(HAS_ATTR(c, S('node_type')), z3.Or(attr_fn('node_type')(c) == NONE, PyV.is_str_(attr_fn('node_type')(c)))),
        z3.Implies(HAS_ATTR(c, S('name')), z3.Or(attr_fn('name')(c) == NONE, PyV.is_str_(attr_fn('name')(c))))),
        patterns=[HAS_ATTR(c, S('node_type')), HAS_ATTR(c, S('name'))])


def rec_dests_mapped(it, snap, b):
    rp = snap.getf(snap.getf(b, '_recurrent_sub_graphs'), 'items')
    if isinstance(rp, tuple):
        rp = it.models.to_symseq(it, rp)
    nm = it_map(it, snap, snap.getf(b, '_node_map'))
    i = z3.Int('rdi')
    return FA([i], z3.Implies(z3.And(i >= 0, i < rp.len), z3.And(
        PyV.is_tup2(rp.at(i)), nm.has(PyV.t1(rp.at(i))), nm.at(PyV.t1(rp.at(i))) != NONE)), patterns=[rp.at(i)])


def mapped_since_are_valid(it, pre, post, b):
    """every entry of the node map is either the entry it was before, or a validated class"""
    nm0 = it_map(it, pre, pre.getf(b, '_node_map'))
    nm1 = it_map(it, post, post.getf(b, '_node_map'))
    k = z3.Const('msk', PyV)
    return FA([k], z3.Implies(nm1.has(k), z3.Or(z3.And(nm0.has(k), nm1.at(k) == nm0.at(k)), VALID(nm1.at(k)))),
              patterns=[nm1.has(k)])


def mapped_since_have_nodes(it, pre, post, b):
    nm0 = it_map(it, pre, pre.getf(b, '_node_map'))
    nm1 = it_map(it, post, post.getf(b, '_node_map'))
    g = graph_view(post, b)
    k = z3.Const('mnk', PyV)
    return FA([k], z3.Implies(nm1.has(k), z3.Or(z3.And(nm0.has(k), nm1.at(k) == nm0.at(k)), g.node(NODE_ID(nm1.at(k))))),
              patterns=[nm1.has(k)])


def nothing_mapped(it, snap, b):
    nm = it_map(it, snap, snap.getf(b, '_node_map'))
    k = z3.Const('nmk', PyV)
    return FA([k], z3.Not(nm.has(k)), patterns=[nm.has(k)])


def all_mapped_valid(it, snap, b):
    nm = it_map(it, snap, snap.getf(b, '_node_map'))
    k = z3.Const('amk', PyV)
    return FA([k], z3.Implies(nm.has(k), VALID(nm.at(k))), patterns=[nm.has(k)])


def add_edges(effs):
    return [e for e in effs if e.kind == 'add_edge']


def add_nodes(effs):
    return [e for e in effs if e.kind == 'add_node']


def visited_has(it, env_var, cls):
    e = it.st.getf(env_var, 'elems')
    if isinstance(e, frozenset):
        e = it.models.symset_of(it, e)
    return e.contains(cls)


@contract
class Traverse(DeclContract):
    name = 'AnnotationDAGBuilder._traverse_breadth_first_to_dag'
    returns = 'none'
    props = ('C15', 'C16', 'C09', 'C10', 'C11', 'C03', 'C05')
    doc = ('every class taken from the work list is validated, mapped and has its marks read; every mark adds exactly the '
           'nodes / edges / attributes it declares and schedules the classes it refers to')
    options = {'max_paths': 6000}

    def setup(self, it):
        return new_builder(it), CallArgs([fresh_decl(it, 'input'), fresh_decl(it, 'output')])

    def requires(self, it, pre, a):
        c1, c2 = z3.Consts('ic1 ic2', PyV)
        return [('declared-names-and-types-are-strings', decls_wellformed()),
                ('validity: get_node_id is injective on the declared classes', FA([c1, c2], z3.Implies(
                    NODE_ID(c1) == NODE_ID(c2), c1 == c2), patterns=[z3.MultiPattern(NODE_ID(c1), NODE_ID(c2))])),
                ('recorded-recurrent-destinations-are-mapped', rec_dests_mapped(it, pre, a.self))]

    def raises(self, it, pre, a):
        return [ExcCase('declaration-rejected-or-user-constructor-failed', None, may=True)]

    def modifies(self, it, pre, a):
        b = a.self
        return graph_locs(pre, b) + [(pre.getf(b, '_node_map'), 'map'), (pre.getf(b, '_recurrent_sub_graphs'), 'items'),
                                     (pre.getf(b, '_synthetic_nodes'), 'items')]

    def ensures(self, it, pre, post, a, res):
        return [('recorded-recurrent-destinations-are-mapped', rec_dests_mapped(it, post, a.self)),
                ('every-class-mapped-by-the-traversal-was-validated|C16,C17', mapped_since_are_valid(it, pre, post, a.self)),
                ('every-class-mapped-by-the-traversal-has-its-graph-node|C15', mapped_since_have_nodes(it, pre, post, a.self)),
                ('the-output-has-its-graph-node|C15', graph_view(post, a.self).node(NODE_ID(T(a.output_node, it.st))))]

    def effects_spec(self, it, pre, post, a, outcome, value, effects):
        if outcome != 'raise':
            return []
        # exceptions created by the engine itself have negative ids in the model, user code's are non-negative
        own = PyV.eid(value.t) < 0
        return [('a-rejected-declaration-is-reported-by-a-builder-error-not-an-attribute-lookup-failure|C16', z3.Implies(
            own, z3.Not(subcls(PyV.ecls(value.t), z3.IntVal(LATTICE.codes['AttributeError'])))))]

    # ------------------------------------------------------------------------------------
    def _havoc_locs(self, it, env):
        b = it.entry_args.self
        snap = it.st.snapshot()
        locs = graph_locs(snap, b) + [(snap.getf(b, '_node_map'), 'map'), (snap.getf(b, '_recurrent_sub_graphs'), 'items'),
                                      (snap.getf(b, '_synthetic_nodes'), 'items')]
        for name in ('visited', 'stack'):
            found, v = it.lookup_local(env, name)
            if found and isinstance(v, Ref):
                locs.append((v, 'elems' if v.cls == 'set' else 'items'))
        return locs

    def _closure_inv(self, ctx):
        """C15.c, the work-list closure: whatever the traversal maps is scheduled, whatever is scheduled is either validated
        already or still on the work list, and the work list holds only scheduled classes.  With an empty work list at the
        exit this gives the postcondition `every-class-mapped-by-the-traversal-was-validated`."""
        it, st = ctx.it, ctx.it.st
        items = st.getf(ctx.var('stack'), 'items')
        if not hasattr(items, 'count'):
            raise Unsupported('the work list of the traversal is not a collections.deque (no multiplicity view of it)')
        vis = st.getf(ctx.var('visited'), 'elems')
        if isinstance(vis, frozenset):
            vis = it.models.symset_of(it, vis)
        now = ctx.now()
        nm = it_map(it, now, now.getf(ctx.a.self, '_node_map'))
        nm0 = it_map(it, ctx.pre, ctx.pre.getf(ctx.a.self, '_node_map'))
        x, k = z3.Const('wlx', PyV), z3.Const('wlk', PyV)
        g = graph_view(now, ctx.a.self)
        out_cls = T(ctx.a.output_node, st)
        # C15 "one node per declared class reachable from the output": a class is scheduled right after an edge from it
        # (or its node) was added -- all but the output itself, which gets its node while it is processed
        being_processed = [T(ctx.var('current_node'), st) == out_cls] if ctx.spec.name != 'stack' else []
        nodes = [('every-scheduled-class-but-the-output-has-its-graph-node|C15', FA([x], z3.Implies(
                      vis.contains(x), z3.Or(x == out_cls, g.node(NODE_ID(x)))), patterns=[vis.contains(x)])),
                 ('the-output-has-its-graph-node-once-it-was-processed|C15', z3.Or(
                      items.count(out_cls) > 0, g.node(NODE_ID(out_cls)), *being_processed))]
        return nodes + [('every-scheduled-class-is-validated-or-still-on-the-work-list|C16', FA([x], z3.Implies(
                    vis.contains(x), z3.Or(VALID(x), items.count(x) > 0)), patterns=[vis.contains(x)])),
                ('the-work-list-holds-only-scheduled-classes|C16', FA([x], z3.Implies(items.count(x) > 0, vis.contains(x)),
                                                                       patterns=[items.count(x)])),
                ('every-class-mapped-by-the-traversal-is-scheduled|C16', FA([k], z3.Implies(nm.has(k), z3.Or(
                    z3.And(nm0.has(k), nm.at(k) == nm0.at(k)), vis.contains(nm.at(k)))), patterns=[nm.has(k)]))]

    def _base_inv(self, ctx):
        out = [('recorded-recurrent-destinations-are-mapped', rec_dests_mapped(ctx.it, ctx.now(), ctx.a.self))]
        out += self._closure_inv(ctx)
        key = f'visited0:{ctx.spec.name}'
        v0 = ctx.st.ghost.get(key)
        if v0 is not None:
            x = z3.Const('vgx', PyV)
            cur = ctx.it.st.getf(ctx.var('visited'), 'elems')
            if isinstance(cur, frozenset):
                cur = ctx.it.models.symset_of(ctx.it, cur)
            out.append(('scheduled-classes-stay-scheduled', FA([x], z3.Implies(v0.contains(x), cur.contains(x)),
                                                                patterns=[v0.contains(x), cur.contains(x)])))
        g0 = ctx.st.ghost.get(f'graph0:{ctx.spec.name}')
        if g0 is not None:
            n = z3.Const('gmn', PyV)
            g = graph_view(ctx.now(), ctx.a.self)
            out.append(('graph-nodes-are-only-added|C15', FA([n], z3.Implies(g0.node(n), g.node(n)), patterns=[g0.node(n), g.node(n)])))
        return out

    def _remember_visited(self, name):
        def ghost_init(it, env):
            found, v = it.lookup_local(env, 'visited')
            e = it.st.getf(v, 'elems')
            if isinstance(e, frozenset):
                e = it.models.symset_of(it, e)
            it.st.ghost[f'visited0:{name}'] = e
            it.st.ghost[f'graph0:{name}'] = graph_view(it.st.snapshot(), it.entry_args.self)
        return ghost_init

    @property
    def loops(self):
        outer = self

        # ---------------- work list ------------------------------------------------------
        def while_body(ctx):
            it, st, a = ctx.it, ctx.st, ctx.a
            effs = ctx.iter_effects
            cur = T(ctx.var('current_node'), st)
            vals, maps, marks = calls(effs, 'validate_node'), calls(effs, '_add_node_to_map'), calls(effs, '_get_input_marks_map')
            ok = (len(vals) == 1 and len(marks) == 1 and len(maps) >= 1
                  and effs.index(vals[0]) < effs.index(maps[0]) < effs.index(marks[0]))
            out = [('each-class-from-the-work-list-is-validated-then-mapped-then-its-marks-are-read|C16,C15', ok)]
            if ok:
                out.append(('...and-these-concern-the-class-just-taken|C16', z3.And(
                    T(vals[0].a.node, st) == cur, T(maps[0].a.node, st) == cur, T(marks[0].a.node, st) == cur)))
                lst = marks[0].post.getf(marks[0].res, 'items')
                pairs = calls(effs, '_add_node_pair_to_dag')
                inp = T(a.input_node, st)
                implicit = [p for p in pairs if not p.a.edge_data]
                if implicit:
                    p = implicit[0]
                    out.append(('implicit-input-link-only-for-nodes-without-marks|C15', z3.And(lst.len == 0, inp != cur)))
                    out.append(('implicit-link-goes-from-the-input-node-to-this-node|C15', z3.And(
                        T(p.a.source_node_id, st) == NODE_ID(inp), T(p.a.dest_node_id, st) == NODE_ID(cur))))
                    out.append(('the-input-node-is-scheduled|C15,C16', visited_has(it, ctx.var('visited'), inp)))
                elif not any(e.kind == 'loop_summary' for e in effs):
                    out.append(('a-node-without-marks-gets-the-implicit-input-link|C15', z3.Or(lst.len != 0, inp == cur)))
                out.append(('the-class-just-processed-has-its-graph-node|C15',
                            graph_view(ctx.now(), a.self).node(NODE_ID(cur))))
            return out

        w = LoopSpec(text='stack', heap_havoc=outer._havoc_locs, inv=outer._base_inv, body_post=while_body)

        # ---------------- marks of one class ---------------------------------------------
        def marks_inv(ctx):
            it, st = ctx.it, ctx.st
            g = graph_view(ctx.now(), ctx.a.self)
            cur = T(ctx.var('current_node'), st)
            j = z3.Int('mj')
            seq = ctx.seq
            name_j, mark_j = PyV.t0(seq.at(j)), PyV.t1(seq.at(j))
            src_j = NODE_ID(attr_fn('node')(mark_j))
            k2 = z3.Int('mk2')
            src_of = lambda m_: z3.If(MARK_KIND(m_) == 4, NODE_ID(attr_fn('dest_node')(m_)), NODE_ID(attr_fn('node')(m_)))
            distinct = FA([j, k2], z3.Implies(z3.And(j >= 0, j < k2, k2 < ctx.len, z3.Or(MARK_KIND(mark_j) == 1, MARK_KIND(mark_j) == 4),
                                                     z3.Or(MARK_KIND(PyV.t1(seq.at(k2))) == 1, MARK_KIND(PyV.t1(seq.at(k2))) == 4)),
                                              src_of(mark_j) != src_of(PyV.t1(seq.at(k2)))),
                          patterns=[z3.MultiPattern(seq.at(j), seq.at(k2))])
            kept = FA([j], z3.Implies(
                z3.And(j >= 0, j < ctx.i, MARK_KIND(mark_j) == 1),
                z3.And(g.edge(src_j, NODE_ID(cur)), g.kw(src_j, NODE_ID(cur)) == name_j)), patterns=[seq.at(j)])
            return outer._base_inv(ctx) + [
                ('earlier-Input-parameters-still-have-their-own-dependency|C15', kept),
                ('after-its-first-dependency-the-class-has-its-graph-node|C15', z3.Implies(ctx.i > 0, g.node(NODE_ID(cur))))]

        def marks_body(ctx):
            it, st, a = ctx.it, ctx.st, ctx.a
            effs = ctx.iter_effects
            item = ctx.seq.at(ctx.i_before)
            kw, mark = PyV.t0(item), PyV.t1(item)
            cur = T(ctx.var('current_node'), st)
            kind = MARK_KIND(mark)
            maps, pairs, sws = calls(effs, '_add_node_to_map'), calls(effs, '_add_node_pair_to_dag'), calls(effs, '_add_switch_node')
            an, ae = add_nodes(effs), add_edges(effs)
            vis = lambda c: visited_has(it, ctx.var('visited'), c)
            out = []
            has_inner = any(e.kind == 'loop_summary' for e in effs)
            # C03 "exactly one keyword argument per declared parameter" / C05 "no engine-internal artefact": the engine hands
            # the arguments on as **kwargs next to its own keyword parameters node_id / force_default (__execute_node) and
            # node / node_id (run_node); a declared parameter of such a name can never be delivered
            out.append(('the-parameter-name-does-not-collide-with-a-keyword-of-the-engine|C03,C05', z3.And(
                kw != PyV.str_(S('node_id')), kw != PyV.str_(S('node')), kw != PyV.str_(S('force_default')))))
            if pairs and not sws and not has_inner and not an:
                # Input mark
                p = pairs[0]
                node = attr_fn('node')(mark)
                out.append(('plain-dependency-only-for-an-Input-mark|C15', kind == 1))
                out.append(('Input: edge from the declared source to this node, delivering to the parameter|C15', z3.And(
                    T(p.a.source_node_id, st) == NODE_ID(node), T(p.a.dest_node_id, st) == NODE_ID(cur),
                    T(p.a.edge_data.get('kwarg_name'), st) == kw, z3.BoolVal(len(pairs) == 1))))
                out.append(('Input: source mapped and scheduled|C15,C16', z3.And(
                    z3.BoolVal(len(maps) == 1), T(maps[0].a.node, st) == node if maps else False, vis(node))))
            elif pairs and an and not has_inner:
                # RecurrentSubGraph mark
                p = pairs[0]
                dest, start = attr_fn('dest_node')(mark), attr_fn('start_node')(mark)
                out.append(('recurrent-attributes-only-for-a-RecurrentSubGraph-mark|C15', kind == 4))
                out.append(('Recurrent: destination carries start node and iteration bound|C15,C11', z3.And(
                    z3.BoolVal(len(an) == 1), T(an[0].n, st) == NODE_ID(dest),
                    T(an[0].attrs.get('start_node'), st) == NODE_ID(start),
                    T(an[0].attrs.get('max_iterations'), st) == attr_fn('max_iterations')(mark))))
                out.append(('Recurrent: edge from the destination to this node, delivering to the parameter|C15', z3.And(
                    T(p.a.source_node_id, st) == NODE_ID(dest), T(p.a.dest_node_id, st) == NODE_ID(cur),
                    T(p.a.edge_data.get('kwarg_name'), st) == kw)))
                rp = st.getf(st.getf(a.self, '_recurrent_sub_graphs'), 'items')
                out.append(('Recurrent: (start, destination) recorded for validation|C16', z3.And(
                    rp.len >= 1, rp.at(rp.len - 1) == PyV.tup2(NODE_ID(start), NODE_ID(dest)))))
                out.append(('Recurrent: destination mapped and scheduled|C15,C16', z3.And(
                    T(maps[0].a.node, st) == dest if maps else False, vis(dest))))
            elif sws:
                sw = attr_fn('switch')(mark)
                s0 = sws[0]
                sid = T(s0.a.node_id, st)
                out.append(('switch-node-only-for-a-SwitchCase-mark|C15', kind == 2))
                gens = [e for e in effs if e.kind == 'generated_id']
                okg = len(gens) == 1 and gens[0].prefix == 'switch'
                out.append(('Switch: one synthetic id per switch parameter, generated from the mark\'s own name (fresh when unnamed)|C15', okg))
                if okg:
                    nm_ = attr_fn('name')(mark)
                    given = T(gens[0].name, st) if gens[0].name is not None else NONE
                    out.append(('Switch: the id is derived from nothing but the mark\'s name|C15,C09', z3.And(given == nm_, sid == T(gens[0].result, st))))
                out.append(('Switch: synthetic node fed by the deciding node|C15,C09', z3.And(
                    T(s0.a.switch_decide_node_id, st) == NODE_ID(sw), z3.BoolVal(len(sws) == 1))))
                out.append(('Switch: deciding node mapped and scheduled|C15,C16', z3.And(
                    T(maps[0].a.node, st) == sw if maps else False, vis(sw))))
                final = [e for e in ae if z3.is_true(z3.simplify(T(e.u, st) == sid))]
                out.append(('Switch: edge from the synthetic node to this node, delivering to the parameter|C15', len(final) == 1 and z3.simplify(z3.And(
                    T(final[0].v, st) == NODE_ID(cur), T(final[0].attrs.get('kwarg_name'), st) == kw))))
            elif an and has_inner:
                head = T(an[0].n, st)
                out.append(('one-of-head-only-for-an-InputOneOf-mark|C15', kind == 3))
                out.append(('OneOf: head marked and carrying the candidate ids|C15,C10', truthy_term(T(an[0].attrs.get('is_oneof'), st))))
                to_cur = [e for e in ae if z3.is_true(z3.simplify(T(e.u, st) == head))]
                from_inp = [e for e in ae if z3.is_true(z3.simplify(T(e.v, st) == head))]
                out.append(('OneOf: edge from the head to this node, delivering to the parameter|C15', len(to_cur) == 1 and z3.simplify(z3.And(
                    T(to_cur[0].v, st) == NODE_ID(cur), T(to_cur[0].attrs.get('kwarg_name'), st) == kw))))
                out.append(('OneOf: head hangs off the input node|C15', len(from_inp) >= 1 and z3.simplify(
                    T(from_inp[0].u, st) == NODE_ID(T(a.input_node, st)))))
            else:
                out.append(('every-dependency-mark-adds-its-dependency|C15', False))
            return out

        m = LoopSpec(text='enumerate(input_marks_map)', heap_havoc=outer._havoc_locs, inv=marks_inv, body_post=marks_body,
                     ghost_init=outer._remember_visited('enumerate(input_marks_map)'))

        # ---------------- candidates of a one-of ------------------------------------------
        def cand_body(ctx):
            it, st = ctx.it, ctx.st
            effs = ctx.iter_effects
            maps, an, ae = calls(effs, '_add_node_to_map'), add_nodes(effs), add_edges(effs)
            node = T(ctx.var('node'), st)
            nid = T(ctx.var('node_id'), st)
            ok = len(maps) == 1 and len(an) == 1 and len(ae) == 1
            out = [('each-candidate: mapped, marked as one-of child, linked to the head|C15,C10', ok)]
            if ok:
                out.append(('...for-this-candidate|C15', z3.And(T(maps[0].a.node, st) == node, T(an[0].n, st) == nid, T(ae[0].u, st) == nid,
                                                                  truthy_term(T(an[0].attrs.get('is_oneof_child'), st)))))
                out.append(('candidate-scheduled|C15,C16', visited_has(it, ctx.var('visited'), node)))
                # C10: the run-time views drop every node still marked as an untried candidate; the input node must stay in
                # every view (it is the source of all of them), so it cannot carry the mark
                out.append(('the-input-node-is-never-marked-as-an-untried-candidate|C10', node != T(ctx.a.input_node, st)))
            return out

        c = LoopSpec(text='enumerate(node_id_list)', heap_havoc=outer._havoc_locs, inv=outer._base_inv, body_post=cand_body,
                     ghost_init=outer._remember_visited('enumerate(node_id_list)'))

        # ---------------- cases of a switch -----------------------------------------------
        def case_body(ctx):
            it, st = ctx.it, ctx.st
            effs = ctx.iter_effects
            maps, ae = calls(effs, '_add_node_to_map'), add_edges(effs)
            node, label = T(ctx.var('case_node'), st), T(ctx.var('case_branch'), st)
            ok = len(maps) == 1 and len(ae) == 1
            out = [('each-case: mapped and linked to the switch node by a labelled case edge|C15,C09', ok)]
            if ok:
                out.append(('...for-this-case|C15,C09', z3.And(T(maps[0].a.node, st) == node, T(ae[0].u, st) == NODE_ID(node),
                                                                T(ae[0].v, st) == T(ctx.var('switch_node_id'), st),
                                                                T(ae[0].attrs.get('case_branch'), st) == label)))
                out.append(('case-node-scheduled|C15,C16', visited_has(it, ctx.var('visited'), node)))
            return out

        def cases_inv(ctx):
            # C15 / C09 "no declared parameter is dropped, re-targeted or merged", for the cases of one switch: the case edges
            # added so far still carry their own labels (a later case on the same node must not take the edge over)
            st = ctx.st
            g = graph_view(ctx.now(), ctx.a.self)
            j = z3.Int('cj')
            sw = T(ctx.var('switch_node_id'), st)
            lab_j, node_j = PyV.t0(ctx.seq.at(j)), NODE_ID(PyV.t1(ctx.seq.at(j)))
            return outer._base_inv(ctx) + [('earlier-cases-still-have-their-own-labelled-edge|C15,C09', FA([j], z3.Implies(
                z3.And(j >= 0, j < ctx.i), z3.And(g.edge(node_j, sw), g.case(node_j, sw) == lab_j)), patterns=[ctx.seq.at(j)]))]

        k = LoopSpec(text='input_mark.cases', heap_havoc=outer._havoc_locs, inv=cases_inv, body_post=case_body,
                     ghost_init=outer._remember_visited('input_mark.cases'))
        return [w, m, c, k]
