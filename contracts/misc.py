"""
Small remaining functions: serializers (C18), build_node / build_dag / build_dag_single (C15, C16), NodeType.is_generic (C20),
module_loading.get_instance (C08, C17), the event half of the lock manager (C04).
"""
import z3
from pyvc.values import FA

from pyvc.contract import Contract, ExcCase, LoopSpec, contract, A, same_value
from pyvc.interp import CallArgs, attr_fn, STR_OF
from pyvc.state import SymMap, SymSet, SymSeq
from pyvc.values import (PyV, NONE, TRUE, FALSE, SymV, SymB, SymI, SymS, Ref, lift, lower, as_z3, subcls, LATTICE,
                         mk_str, mk_int, truthy_term, IntS, BoolS, StrS, ClsRef, EnumMember)
from pyvc.libmodels2 import HAS_ATTR, IS_CORO_FN, IS_CALLABLE
from pyvc.libmodels3 import PathV, FileV, fs_of, new_fs, content, K_EMPTY, K_PICKLE, K_JSON, PICKLABLE, JSONABLE
from pyvc.libmodels4 import ISCLASS

from .shapes import new_obj, T, B
from .collab import user_calls, calls
from .builder import fresh_decl, has_process, S

SER_PY = 'ml_pipeline_engine/artifact_store/serializers.py'
ML_PY = 'ml_pipeline_engine/module_loading.py'
NODE_PY = 'ml_pipeline_engine/node/node.py'
BUILDER_PY = 'ml_pipeline_engine/dag_builders/annotation/builder.py'
ENUMS_PY = 'ml_pipeline_engine/node/enums.py'
MANAGER_PY = 'ml_pipeline_engine/dag/manager.py'


def open_file(it, mode):
    st = it.st
    new_fs(it)
    p = PathV(st.fresh_str('path'))
    fs = fs_of(it)
    st.setf(fs, 'files', st.getf(fs, 'files').store(p.key(), content(K_EMPTY, NONE)))
    return FileV(p, mode), p


def _dumper(cls_name, kind, ok_pred, mode):
    class C(Contract):
        path = SER_PY
        name = f'{cls_name}.dump'
        returns = 'none'
        inline_at_calls = True
        props = ('C18',)
        doc = f'writes obj so that the matching load returns it; needs a {"binary" if "b" in mode else "text"} file'

        def setup(self, it):
            ser = new_obj(it, f'{SER_PY}::{cls_name}')
            f, p = open_file(it, mode)
            self._p = p
            return ser, CallArgs([SymV(it.st.fresh_val('obj')), f])

        def modifies(self, it, pre, a):
            return [(fs_of(it), 'files')]

        def raises(self, it, pre, a):
            return [ExcCase('not-representable', None, when=z3.Not(ok_pred(T(a.obj, it.st))))]

        def ensures(self, it, pre, post, a, res):
            files0, files1 = pre.getf(fs_of(it), 'files'), post.getf(fs_of(it), 'files')
            return [('file-holds-a-complete-document-of-the-object', files1.eq(files0.store(self._p.key(), content(kind, T(a.obj, it.st)))))]
    C.__name__ = f'{cls_name}_dump'
    return contract(C)


_dumper('PickleSerializer', K_PICKLE, PICKLABLE, 'wb')
_dumper('JSONSerializer', K_JSON, JSONABLE, 'w')


@contract
class FromDataFormat(Contract):
    path = SER_PY
    name = 'SerializerFactory.from_data_format'
    returns = 'val'
    inline_at_calls = True
    props = ('C18',)
    doc = 'PICKLE -> PickleSerializer, JSON -> JSONSerializer'

    def setup(self, it):
        which = it.st.choose([True, True], 'fmt')
        self._which = which
        return None, CallArgs([EnumMember('DataFormat', 'PICKLE', 'pickle') if which == 0 else EnumMember('DataFormat', 'JSON', 'json')])

    def ensures(self, it, pre, post, a, res):
        want = 'PickleSerializer' if a.fmt.value == 'pickle' else 'JSONSerializer'
        return [('serializer-of-that-format', isinstance(res, Ref) and res.cls.endswith('::' + want))]


@contract
class FromExtension(Contract):
    path = SER_PY
    name = 'SerializerFactory.from_extension'
    returns = 'val'
    inline_at_calls = True
    props = ('C18',)
    doc = 'the serializer of the format named by the extension; SerializerInitializationError for any other extension'

    def setup(self, it):
        fac = new_obj(it, f'{SER_PY}::SerializerFactory')
        return fac, CallArgs([SymS(it.st.fresh_str('ext'))])

    def raises(self, it, pre, a):
        e = it.as_str(a.extension)
        return [ExcCase('unknown-extension', 'SerializerInitializationError', when=z3.And(e != S('pickle'), e != S('json')))]

    def ensures(self, it, pre, post, a, res):
        e = it.as_str(a.extension)
        ok = isinstance(res, Ref)
        out = [('returns-a-serializer', ok)]
        if ok:
            out.append(('of-the-named-format', e == S('pickle') if res.cls.endswith('::PickleSerializer') else e == S('json')))
        return out


# --------------------------------------------------------------------------------------
@contract
class GetInstance(Contract):
    path = ML_PY
    name = 'get_instance'
    returns = 'val'
    inline_at_calls = True
    props = ('C08', 'C17')
    doc = 'a new object per call: cls(*args, **kwargs), or cls.default_factory(*args, **kwargs) when the class defines one'

    def setup(self, it):
        return None, CallArgs([fresh_decl(it, 'cls')])

    def bind(self, it, fi, self_val, ca):
        return A(cls=ca.args[0] if ca.args else ca.kwargs['cls'])

    def raises(self, it, pre, a):
        return [ExcCase('constructor-raised', None, may=True)]

    def effects_spec(self, it, pre, post, a, outcome, value, effects):
        st = it.st
        ucs = user_calls(effects)
        c = T(a.cls, st)
        out = [('exactly-one-construction-per-call', len(ucs) == 1)]
        if len(ucs) == 1:
            fac = attr_fn('default_factory')(c)
            use_factory = z3.And(HAS_ATTR(c, S('default_factory')), fac != NONE)
            out.append(('through-the-factory-iff-the-class-defines-one', T(ucs[0].fn, st) == z3.If(use_factory, fac, c)))
            if outcome == 'return':
                out.append(('returns-the-new-object', T(value, st) == T(ucs[0].result, st)))
        return out


@contract
class IsGeneric(Contract):
    path = ENUMS_PY
    name = 'NodeType.is_generic'
    returns = 'bool'
    inline_at_calls = True
    props = ('C20',)
    doc = "'generic' occurs in the lower-cased name"

    def setup(self, it):
        ci = it.repo.klass(ENUMS_PY, 'NodeType')
        return ClsRef(ci.key, ci), CallArgs([SymS(it.st.fresh_str('value'))])

    def bind(self, it, fi, self_val, ca):
        return A(cls=self_val, value=ca.args[0])

    def ensures(self, it, pre, post, a, res):
        low = z3.Function('str_lower', StrS, StrS)(it.as_str(a.value))
        return [('result', B(res) == z3.Contains(low, S('generic')))]


# --------------------------------------------------------------------------------------
@contract
class UnlockEvent(Contract):
    path = MANAGER_PY
    name = 'DAGConcurrentManagerLock.unlock_event'
    returns = 'none'
    inline_at_calls = True
    props = ('C04', 'C02')
    doc = 'sets exactly the named event'

    def setup(self, it):
        from .manager_coro import new_lock
        return new_lock(it), CallArgs([SymV(it.st.fresh_val('event'))])

    def modifies(self, it, pre, a):
        return [(it.st.ghost['world'], 'event_set')]

    def ensures(self, it, pre, post, a, res):
        w = it.st.ghost['world']
        return [('event-set', post.getf(w, 'event_set').mem == pre.getf(w, 'event_set').add(T(a.event_name, it.st)).mem)]


@contract
class WaitForEvent(Contract):
    path = MANAGER_PY
    name = 'DAGConcurrentManagerLock.wait_for_event'
    returns = 'none'
    inline_at_calls = True
    props = ('C04', 'C02')
    doc = 'returns only once the named event is set; waits on nothing else'

    def setup(self, it):
        from .manager_coro import new_lock
        return new_lock(it), CallArgs([SymV(it.st.fresh_val('event'))])

    def on_yield(self, it, label):
        from pyvc.contract import havoc_location
        havoc_location(it.st, it.st.ghost['world'], 'event_set', 'event_set')

    def modifies(self, it, pre, a):
        return [(it.st.ghost['world'], 'event_set')]

    def ensures(self, it, pre, post, a, res):
        return [('event-is-set-at-return', post.getf(it.st.ghost['world'], 'event_set').contains(T(a.event_name, it.st)))]

    def effects_spec(self, it, pre, post, a, outcome, value, effects):
        ws = [e for e in effects if e.kind == 'event_wait']
        return [('waits-on-the-named-event-only', len(ws) == 1 and z3.simplify(ws[0].event == T(a.event_name, it.st))
                 and not [e for e in effects if e.kind == 'wait'])]


# --------------------------------------------------------------------------------------
@contract
class BuildNode(Contract):
    path = NODE_PY
    name = 'build_node'
    returns = 'val'
    props = ('C16', 'C15')
    doc = 'ClassExpectedError iff the base is not a class; else RunMethodExpectedError iff it has no callable process'

    def setup(self, it):
        return None, CallArgs([fresh_decl(it, 'base')])

    def bind(self, it, fi, self_val, ca):
        return A(node=ca.args[0] if ca.args else ca.kwargs['node'])

    def raises(self, it, pre, a):
        n = T(a.node, it.st)
        return [ExcCase('not-a-class', 'ClassExpectedError', when=z3.Not(ISCLASS(n))),
                ExcCase('no-callable-process', 'RunMethodExpectedError', when=z3.And(ISCLASS(n), z3.Not(has_process(n)))),
                ExcCase('class-creation-failed', None, may=True)]


@contract
class BuildDag(Contract):
    path = BUILDER_PY
    name = 'build_dag'
    returns = 'val'
    props = ('C15', 'C16')
    doc = 'a fresh builder per call; the result (or the rejection) is that of its build(input, output)'

    def setup(self, it):
        return None, CallArgs([fresh_decl(it, 'input'), fresh_decl(it, 'output')])

    def requires(self, it, pre, a):
        from .builder import decls_wellformed, NODE_ID
        c1, c2 = z3.Consts('ic1 ic2', PyV)
        return [('declared-names-and-types-are-strings', decls_wellformed()),
                ('validity: get_node_id is injective on the declared classes', FA([c1, c2], z3.Implies(
                    NODE_ID(c1) == NODE_ID(c2), c1 == c2), patterns=[z3.MultiPattern(NODE_ID(c1), NODE_ID(c2))]))]

    def raises(self, it, pre, a):
        return [ExcCase('declaration-rejected-or-user-constructor-failed', None, may=True)]

    def effects_spec(self, it, pre, post, a, outcome, value, effects):
        st = it.st
        bs = calls(effects, 'AnnotationDAGBuilder.build')
        allocs = [e for e in effects if e.kind == 'alloc' and e.cls == 'AnnotationDAGBuilder']
        ok = len(bs) == 1 and len(allocs) == 1 and bs[0].a.self.id == allocs[0].obj.id
        out = [('one-fresh-builder-per-call|C15', ok)]
        if ok:
            b = bs[0]
            out.append(('builds-from-the-given-input-and-output|C15', same_value(b.a.input_node, a.input_node, st) is not False
                        and same_value(b.a.output_node, a.output_node, st) is not False))
            if b.exc is None:
                out.append(('returns-the-built-DAG', outcome == 'return' and same_value(value, b.res, st)))
            else:
                out.append(('a-rejection-propagates-unchanged|C16', outcome == 'raise' and z3.simplify(value.t == b.exc.t)))
        return out
