"""
Contracts for the sequential helpers of ml_pipeline_engine/dag/manager.py and dag/graph.py (DESIGN §3.2, §3.3).
"""
import z3
from pyvc.values import FA

from pyvc.contract import Contract, ExcCase, LoopSpec, contract, A
from pyvc.interp import CallArgs, StarSeq
from pyvc.state import SymMap, SymSet, SymSeq
from pyvc.values import (PyV, NONE, TRUE, FALSE, SymV, SymB, SymI, SymS, Ref, lift, lower, as_z3, subcls, LATTICE,
                         mk_str, truthy_term, IntS, BoolS)
from pyvc.libmodels import GraphOps, T_PENDING, T_OK, T_EXC, T_CANCELLED, Arr

from .shapes import (MANAGER_PY, MGR, new_manager, new_subdag, MV, GV, SubV, StorageView, T, B, new_obj, GRAPH_CLS)

GRAPH_PY = 'ml_pipeline_engine/dag/graph.py'


class MgrContract(Contract):
    path = MANAGER_PY
    replayable = False        # sequential helpers set this: their counter-models are replayed on the real code

    def mv(self, snap, a):
        return MV(snap, a.self)

    def witness(self, model, ctx):
        if not self.replayable:
            return None
        from pyvc.concretize import universe, to_json, ev, map_to_json, set_to_json
        from pyvc.libmodels import NODE_FIELDS, EDGE_FIELDS
        from .shapes import STORAGE_FIELDS
        pre, a = ctx['pre'], ctx['a']
        st = ctx['it'].st
        m = self.mv(pre, a)
        args = {}
        for name, val in vars(a).items():
            if name in ('self', 'dag', 'seq', 'coro_tasks'):
                continue
            try:
                args[name] = T(val, st)
            except Exception:
                pass
        keys = universe(model, extra=list(args.values()) + [m.input, m.output])
        # candidate models may be partial w.r.t. the quantified well-formedness axiom "edges connect nodes": repair it
        touched = set()
        for u in keys:
            for v in keys:
                if z3.is_true(ev(model, m.G.edge(u, v))):
                    touched.add(u.sexpr())
                    touched.add(v.sexpr())
        nodes = [k for k in keys if z3.is_true(ev(model, m.G.node(k))) or k.sexpr() in touched]
        w = {'kind': 'manager', 'method': self.name.split('.')[1], 'args': {k: to_json(ev(model, t)) for k, t in args.items()},
             'input': to_json(ev(model, m.input)), 'output': to_json(ev(model, m.output))}
        g = {'nodes': [to_json(n) for n in nodes], 'edges': [], 'na': {}, 'ea': {}}
        for f in NODE_FIELDS:
            g['na'][f] = [[to_json(n), to_json(ev(model, m.G.na(f, n)))] for n in nodes if not z3.is_true(ev(model, m.G.na(f, n) == NONE))]
        for u in nodes:
            for v in nodes:
                if z3.is_true(ev(model, m.G.edge(u, v))):
                    g['edges'].append([to_json(u), to_json(v)])
                    for f in EDGE_FIELDS:
                        val = ev(model, m.G.ea(f, u, v))
                        if not z3.is_true(ev(model, val == NONE)):
                            g['ea'].setdefault(f, []).append([to_json(u), to_json(v), to_json(val)])
        w['graph'] = g
        skeys = keys + [PyV.tup2(x, y) for x in nodes[:4] for y in nodes[:4]]
        w['storage'] = {f: {'data': map_to_json(model, getattr(m.S, f).data, skeys),
                            'hidden': set_to_json(model, getattr(m.S, f).hidden, skeys)} for f in STORAGE_FIELDS}
        w['input_kwargs'] = map_to_json(model, m.input_kwargs, keys)
        if hasattr(a, 'dag') and isinstance(a.dag, Ref):
            sub = SubV(pre, a.dag)
            w['dag'] = {'nodes': [to_json(n) for n in nodes if z3.is_true(ev(model, sub.node(n)))],
                        'is_recurrent': z3.is_true(ev(model, sub.is_recurrent)), 'is_oneof': z3.is_true(ev(model, sub.is_oneof)),
                        'is_nested_oneof': z3.is_true(ev(model, sub.is_nested_oneof)),
                        'source': to_json(ev(model, sub.source)), 'dest': to_json(ev(model, sub.dest))}
        return w

    def fresh_node(self, it, hint='n'):
        return SymV(it.st.fresh_val(hint))


# --------------------------------------------------------------------------------------
@contract
class M_is_switch(MgrContract):
    replayable = True
    name = 'DAGRunConcurrentManager._is_switch'
    returns = 'bool'
    props = ('C01', 'C03', 'C09', 'C02', 'C06')

    def setup(self, it):
        return new_manager(it), CallArgs([self.fresh_node(it)])

    def result_term(self, it, pre, a):
        return self.mv(pre, a).G.is_switch(T(a.node_id, it.st))

    def ensures(self, it, pre, post, a, res):
        return [('result', B(res) == self.result_term(it, pre, a))]


@contract
class M_is_head_of_oneof(MgrContract):
    replayable = True
    name = 'DAGRunConcurrentManager._is_head_of_oneof'
    returns = 'bool'
    props = ('C03', 'C10', 'C06')

    def setup(self, it):
        return new_manager(it), CallArgs([self.fresh_node(it)])

    def requires(self, it, pre, a):
        return [('node-in-graph', self.mv(pre, a).G.node(T(a.node_id, it.st)))]

    def result_term(self, it, pre, a):
        return self.mv(pre, a).G.is_head(T(a.node_id, it.st))

    def ensures(self, it, pre, post, a, res):
        return [('result', B(res) == self.result_term(it, pre, a))]


# --------------------------------------------------------------------------------------
# tasks
# --------------------------------------------------------------------------------------
def tasks_seq_arg(it, mgr):
    """the *coro_tasks argument as the manager passes it: an enumeration of its task registry"""
    st = it.st
    ts = st.getf(st.getf(mgr, '_coro_tasks'), 'elems')
    seq = it.models.enumerate_set(it, ts, 'tasks')
    return seq


class TaskSeqContract(MgrContract):
    """static methods taking tasks; verified for an arbitrary finite sequence of Task values"""

    def setup_tasks(self, it):
        st = it.st
        from pyvc.libmodels import new_world
        new_world(it)
        seq = SymSeq.fresh(st, 'ts')
        i = z3.Int('tsi')
        st.assume(FA([i], z3.Implies(z3.And(i >= 0, i < seq.len), PyV.is_task(seq.at(i))), patterns=[seq.at(i)]))
        return seq

    def world(self, snap, it):
        return it.st.ghost['world']

    def st_of(self, snap, it, tid):
        return snap.getf(self.world(snap, it), 'task_st').at(tid)

    def exc_of(self, snap, it, tid):
        return snap.getf(self.world(snap, it), 'task_exc').at(tid)

    def cancel_of(self, snap, it, tid):
        return snap.getf(self.world(snap, it), 'task_cancel').at(tid)


@contract
class M_get_first_error_in_tasks(TaskSeqContract):
    name = 'DAGRunConcurrentManager._get_first_error_in_tasks'
    returns = 'val'
    props = ('C05', 'C01', 'C02', 'C13')
    doc = 'never raises; returns the exception of some failed task if one exists, else None'

    def setup(self, it):
        seq = self.setup_tasks(it)
        lst = it.st.alloc('list', items=seq)
        return None, CallArgs([lst])

    def bind(self, it, fi, self_val, ca):
        arg = ca.args[0] if ca.args else ca.kwargs['coro_tasks']
        seq = it.iter_seq(arg)
        if isinstance(seq, tuple):
            s = SymSeq.empty()
            for x in seq:
                s = s.append(lift(x, it.st))
            seq = s
        return A(coro_tasks=arg, seq=seq)

    def requires(self, it, pre, a):
        i = z3.Int('ri')
        return [('all-tasks', FA([i], z3.Implies(z3.And(i >= 0, i < a.seq.len), PyV.is_task(a.seq.at(i)))))]

    def ensures(self, it, pre, post, a, res):
        j = z3.Int('ej')
        r = T(res, it.st)
        failed = lambda k: self.st_of(pre, it, PyV.tid(a.seq.at(k))) == T_EXC
        return [
            ('none-iff-no-failed-task', (r == NONE) == z3.Not(z3.Exists([j], z3.And(j >= 0, j < a.seq.len, failed(j))))),
            ('error-of-a-failed-task', z3.Implies(r != NONE, z3.Exists([j], z3.And(
                j >= 0, j < a.seq.len, failed(j), r == self.exc_of(pre, it, PyV.tid(a.seq.at(j))))))),
        ]

    @property
    def loops(self):
        outer = self

        def inv(ctx):
            j = z3.Int('ij')
            seq = ctx.seq
            return [('no-failed-task-before', FA([j], z3.Implies(
                z3.And(j >= 0, j < ctx.i), outer.st_of(ctx.pre, ctx.it, PyV.tid(seq.at(j))) != T_EXC)))]
        return [LoopSpec(text='coro_tasks', inv=inv)]


@contract
class M_stop_coro_tasks(TaskSeqContract):
    name = 'DAGRunConcurrentManager._stop_coro_tasks'
    returns = 'none'
    props = ('C13', 'C10', 'C05')
    doc = 'every pending task of the argument gets a cancel request; nothing else changes'

    def setup(self, it):
        seq = self.setup_tasks(it)
        return None, CallArgs([StarSeq(seq)])

    def bind(self, it, fi, self_val, ca):
        if len(ca.args) == 1 and isinstance(ca.args[0], StarSeq):
            seq = ca.args[0].seq
        else:
            seq = SymSeq.empty()
            for x in ca.args:
                if isinstance(x, StarSeq):
                    seq = it.models.seq_concat(it, seq, x.seq)
                else:
                    seq = seq.append(lift(x, it.st))
        return A(seq=seq)

    def requires(self, it, pre, a):
        i = z3.Int('ri')
        return [('all-tasks', FA([i], z3.Implies(z3.And(i >= 0, i < a.seq.len), PyV.is_task(a.seq.at(i)))))]

    def modifies(self, it, pre, a):
        return [(self.world(pre, it), 'task_cancel')]

    def _post(self, it, pre, post, seq, upto):
        t, j = z3.Int('pt'), z3.Int('pj')
        member = z3.Exists([j], z3.And(j >= 0, j < upto, PyV.tid(seq.at(j)) == t))
        return [('cancel-requests', FA([t], self.cancel_of(post, it, t) == z3.Or(
            self.cancel_of(pre, it, t), z3.And(member, self.st_of(pre, it, t) == T_PENDING)))),
            ('states-unchanged', post.getf(self.world(post, it), 'task_st').a == pre.getf(self.world(pre, it), 'task_st').a)]

    def ensures(self, it, pre, post, a, res):
        return self._post(it, pre, post, a.seq, a.seq.len)

    @property
    def loops(self):
        outer = self

        def inv(ctx):
            return outer._post(ctx.it, ctx.pre, ctx.now(), ctx.a.seq, ctx.i)

        def heap_havoc(it, env):
            return [(it.st.ghost['world'], 'task_cancel')]
        return [LoopSpec(text='coro_tasks', inv=inv, heap_havoc=heap_havoc)]


@contract
class M_create_task(MgrContract):
    name = 'DAGRunConcurrentManager._create_task'
    returns = 'val'
    props = ('C13', 'C06', 'C02', 'C05')
    doc = 'T\' = T ∪ {t}, t fresh and pending; the only place tasks are created'

    def setup(self, it):
        from pyvc.interp import Coroutine
        m = new_manager(it)
        return m, CallArgs([Coroutine(None, None, [], {}, [], 'some-coroutine'), SymV(it.st.fresh_val('name'))])

    def modifies(self, it, pre, a):
        m = self.mv(pre, a)
        w = m.world
        return [(m.tasks_ref, 'elems'), (w, 'task_st'), (w, 'task_cancel'), (w, 'next_task')]

    def ensures(self, it, pre, post, a, res):
        m0, m1 = self.mv(pre, a), self.mv(post, a)
        nt0 = pre.getf(m0.world, 'next_task').t
        r = T(res, it.st)
        return [('fresh-task', r == PyV.task(nt0)),
                ('registered', m1.tasks.mem == m0.tasks.add(r).mem),
                ('pending', z3.And(m1.task_st(nt0) == T_PENDING, z3.Not(m1.task_cancel(nt0)))),
                ('next', post.getf(m1.world, 'next_task').t == nt0 + 1),
                ('others-unchanged', FA([z3.Int('ot')], z3.Implies(
                    z3.Int('ot') != nt0, z3.And(m1.task_st(z3.Int('ot')) == m0.task_st(z3.Int('ot')),
                                                m1.task_cancel(z3.Int('ot')) == m0.task_cancel(z3.Int('ot'))))))]

    def effects_spec(self, it, pre, post, a, outcome, value, effects):
        spawns = [e for e in effects if e.kind == 'spawn']
        deferred = [e for e in effects if e.kind == 'done_callback']
        return [('exactly-one-spawn-of-the-given-coroutine', len(spawns) == 1 and spawns[0].coro is a.coro),
                # T only grows during a run: run() learns of failed helper tasks from T alone (C02/C05), and cancels
                # exactly T at exit (C13); a completion callback that edits T later breaks both
                ('no-deferred-callback-edits-the-task-registry|C02,C05,C13',
                 not any(e.bound is not None for e in deferred))]

    def call_effects(self, it, pre, post, a, res):
        from pyvc.interp import Coroutine
        coro = a.coro
        if isinstance(coro, Coroutine):
            coro.consumed = True
            it.st.emit('spawn', coro=coro, fn=coro.label, args=coro.args, kwargs=coro.kwargs, self_val=coro.self_val,
                       tid=PyV.tid(T(res, it.st)), name=a.name, snap=pre)


@contract
class M_get_dag_result(MgrContract):
    name = 'DAGRunConcurrentManager._get_dag_result'
    returns = 'val'
    props = ('C01', 'C05')
    doc = 'raises the exception of some failed task if one exists, else returns val(R, output)'

    def setup(self, it):
        return new_manager(it), CallArgs()

    def _failed(self, m):
        v = z3.Const('fv', PyV)
        return z3.Exists([v], z3.And(m.tasks.contains(v), m.task_st(PyV.tid(v)) == T_EXC))

    def ensures(self, it, pre, post, a, res):
        m = self.mv(pre, a)
        return [('value-of-output', T(res, it.st) == m.S.R.val(m.output))]

    def raises(self, it, pre, a):
        m = self.mv(pre, a)

        def ens(post, exc):
            v = z3.Const('fv2', PyV)
            return [('carried-by-a-task', z3.Exists([v], z3.And(m.tasks.contains(v), m.task_st(PyV.tid(v)) == T_EXC,
                                                               exc.t == m.task_exc(PyV.tid(v)))))]
        return [ExcCase('task-failed', None, when=self._failed(m), ensures=ens, modifies=lambda it_, p, a_: [])]


# --------------------------------------------------------------------------------------
# switch
# --------------------------------------------------------------------------------------
SW_OF = z3.Function('switch_decider_of', PyV, PyV)


@contract
class M_add_case_result(MgrContract):
    replayable = True
    name = 'DAGRunConcurrentManager._add_case_result'
    returns = 'none'
    props = ('C09', 'C01', 'C05')
    doc = 'SW\' = SW.set(s, (label, case with that label)); KeyError and no change when no case matches'

    def setup(self, it):
        return new_manager(it), CallArgs([self.fresh_node(it, 's')])

    def requires(self, it, pre, a):
        m = self.mv(pre, a)
        s = T(a.switch_node_id, it.st)
        p, p2 = z3.Consts('cp cp2', PyV)
        q = SW_OF(s)
        return [
            ('node-in-graph', m.G.node(s)),
            ('one-decider-edge', z3.And(m.G.edge(q, s), m.G.sw_edge(q, s),
                                        FA([p], z3.Implies(z3.And(m.G.edge(p, s), m.G.sw_edge(p, s)), p == q)))),
            ('case-labels-distinct', FA([p, p2], z3.Implies(
                z3.And(m.G.edge(p, s), m.G.edge(p2, s), z3.Not(m.G.sw_edge(p, s)), z3.Not(m.G.sw_edge(p2, s)),
                       m.G.case(p, s) == m.G.case(p2, s)), p == p2))),
        ]

    def _label(self, m, s):
        return m.S.R.get(SW_OF(s), z3.BoolVal(False))

    def _matching(self, m, s, c):
        return z3.And(m.G.edge(c, s), z3.Not(m.G.sw_edge(c, s)), m.G.case(c, s) == self._label(m, s))

    def modifies(self, it, pre, a):
        return self.mv(pre, a).S.SW.locs()

    def ensures(self, it, pre, post, a, res):
        m0, m1 = self.mv(pre, a), self.mv(post, a)
        s = T(a.switch_node_id, it.st)
        lab = self._label(m0, s)
        sw1 = m1.S.SW.data.at(s)          # witness: the recorded CaseResult itself
        return [('recorded-is-case-result', z3.And(PyV.is_case(sw1), m1.S.SW.data.eq(m0.S.SW.data.store(s, sw1)))),
                ('recorded-label-is-decider-result', PyV.clabel(sw1) == lab),
                ('recorded-node-is-the-matching-case', self._matching(m0, s, PyV.cnode(sw1))),
            ('unhidden', m1.S.SW.hidden.mem == m0.S.SW.hidden.remove(s).mem),
            ('others-unchanged', m1.S.others_same(m0.S, 'switch_results'))]

    def raises(self, it, pre, a):
        m = self.mv(pre, a)
        s = T(a.switch_node_id, it.st)
        c = z3.Const('cc2', PyV)
        return [ExcCase('no-matching-case', 'KeyError', when=z3.Not(z3.Exists([c], self._matching(m, s, c))),
                        modifies=lambda it_, p, a_: [])]

    @property
    def loops(self):
        outer = self

        def inv(ctx):
            it = ctx.it
            m = MV(ctx.pre, ctx.a.self)
            s = T(ctx.a.switch_node_id, it.st)
            seq = ctx.seq
            j = z3.Int('lj')
            key = z3.Const('lkey', PyV)
            bn = it.dict_sym(ctx.var('branch_nodes'))
            lab = T(ctx.var('selected_branch_label'), it.st)
            seen_decider = z3.Exists([j], z3.And(j >= 0, j < ctx.i, m.G.sw_edge(seq.at(j), s)))
            return [
                ('label', lab == z3.If(seen_decider, outer._label(m, s), NONE)),
                ('branches-domain', FA([key], z3.Implies(bn.has(key), z3.Exists([j], z3.And(
                    j >= 0, j < ctx.i, z3.Not(m.G.sw_edge(seq.at(j), s)), m.G.case(seq.at(j), s) == key))),
                    patterns=[bn.has(key)])),
                ('branches-values', FA([j], z3.Implies(
                    z3.And(j >= 0, j < ctx.i, z3.Not(m.G.sw_edge(seq.at(j), s))),
                    z3.And(bn.has(m.G.case(seq.at(j), s)), bn.at(m.G.case(seq.at(j), s)) == seq.at(j))),
                    patterns=[seq.at(j)])),
                ('storage-untouched', StorageView(ctx.now(), ctx.pre.getf(ctx.a.self, '_node_storage')).others_same(m.S)),
            ]
        return [LoopSpec(text='self.dag.graph.predecessors(switch_node_id)',
                         havoc={'selected_branch_label': 'val', 'branch_nodes': 'content'}, inv=inv)]


# --------------------------------------------------------------------------------------
# kwargs
# --------------------------------------------------------------------------------------
ADDL = mk_str('additional_data')


@contract
class M_get_node_kwargs(MgrContract):
    replayable = True
    name = 'DAGRunConcurrentManager._get_node_kwargs'
    returns = 'dict'
    props = ('C01', 'C03', 'C09', 'C07', 'C08', 'C11')
    doc = ('one key per declared parameter, valued by the declared source (the selected case for a switch); '
           'the input node gets a map equal to the caller\'s input_kwargs, which is not modified')

    def setup(self, it):
        return new_manager(it), CallArgs([self.fresh_node(it)])

    def _value(self, m, p):
        sw = m.S.SW.get(p, z3.BoolVal(False))
        return z3.If(m.G.is_switch(p), m.S.R.val(PyV.cnode(sw)), m.S.R.val(p))

    def requires(self, it, pre, a):
        m = self.mv(pre, a)
        n = T(a.node_id, it.st)
        p, p2 = z3.Consts('kp kp2', PyV)
        return [
            ('node-in-graph', m.G.node(n)),
            ('switch-preds-resolved|C03,C09', FA([p], z3.Implies(
                z3.And(n != m.input, m.G.edge(p, n), m.G.kw(p, n) != NONE, m.G.is_switch(p)),
                PyV.is_case(m.S.SW.get(p, z3.BoolVal(False)))))),
            ('kwarg-names-distinct', FA([p, p2], z3.Implies(
                z3.And(m.G.edge(p, n), m.G.edge(p2, n), m.G.kw(p, n) == m.G.kw(p2, n), m.G.kw(p, n) != NONE), p == p2))),
            ('additional-data-is-not-a-declared-name', FA([p], z3.Implies(m.G.edge(p, n), m.G.kw(p, n) != ADDL))),
        ]

    def ensures(self, it, pre, post, a, res):
        m = self.mv(pre, a)
        n = T(a.node_id, it.st)
        d = post.getf(res, 'map') if isinstance(res, Ref) else None
        if not isinstance(d, SymMap):
            d = it.dict_sym(res)
        key, p = z3.Consts('kk kp3', PyV)
        addl = m.G.addl(n)
        declared = lambda k: z3.Exists([p], z3.And(m.G.edge(p, n), m.G.kw(p, n) == k, k != NONE))
        is_input = n == m.input
        return [
            ('keys', FA([key], d.has(key) == z3.If(
                is_input, z3.Or(m.input_kwargs.has(key), z3.And(key == ADDL, addl != NONE)),
                z3.Or(declared(key), z3.And(key == ADDL, addl != NONE))))),
            ('values-from-declared-sources|C01,C03,C09', FA([p], z3.Implies(
                z3.And(z3.Not(is_input), m.G.edge(p, n), m.G.kw(p, n) != NONE),
                d.at(m.G.kw(p, n)) == self._value(m, p)))),
            ('input-node-gets-input-kwargs|C03,C01', FA([key], z3.Implies(
                z3.And(is_input, m.input_kwargs.has(key), z3.Not(z3.And(key == ADDL, addl != NONE))),
                d.at(key) == m.input_kwargs.at(key)))),
            ('additional-data|C11', z3.Implies(addl != NONE, d.at(ADDL) == addl)),
        ]

    @property
    def loops(self):
        outer = self

        def inv(ctx):
            it = ctx.it
            m = MV(ctx.pre, ctx.a.self)
            n = T(ctx.a.node_id, it.st)
            seq = ctx.seq
            j = z3.Int('lj')
            key = z3.Const('lkey', PyV)
            d = it.dict_sym(ctx.var('kwargs'))
            return [
                ('keys', FA([key], d.has(key) == z3.Exists([j], z3.And(
                    j >= 0, j < ctx.i, m.G.kw(seq.at(j), n) == key, key != NONE)))),
                ('values', FA([j], z3.Implies(
                    z3.And(j >= 0, j < ctx.i, m.G.kw(seq.at(j), n) != NONE),
                    d.at(m.G.kw(seq.at(j), n)) == outer._value(m, seq.at(j))))),
            ]
        return [LoopSpec(text='self.dag.graph.predecessors(node_id)', havoc={'kwargs': 'content'}, inv=inv)]


# --------------------------------------------------------------------------------------
# scheduling helpers
# --------------------------------------------------------------------------------------
def node_in_dag(it, snap, dag, x):
    """membership of x in a (sub)dag object, read from a snapshot"""
    k = snap.getf(dag, 'g_kind')
    if k in ('sub', 'base'):
        return snap.getf(dag, 'g_nodes').contains(x)
    return GraphOps(it).node_in(dag, x)


def mgr_and_dag(it):
    m = new_manager(it)
    return m, new_subdag(it, m)


@contract
class M_get_node_order(MgrContract):
    replayable = True
    name = 'DAGRunConcurrentManager._get_node_order'
    returns = 'list'
    props = ('C04', 'C06', 'C11', 'C03', 'C19')
    doc = ('the nodes of dag that are not yet processed (all nodes if dag.is_recurrent), each once, '
           'in topological and non-decreasing-depth order')

    def setup(self, it):
        m, d = mgr_and_dag(it)
        return m, CallArgs([d])

    def _keep(self, m, sub, x):
        return z3.Or(sub.is_recurrent, z3.Not(m.S.P.vis(x)))

    def ensures(self, it, pre, post, a, res):
        m = self.mv(pre, a)
        sub = SubV(pre, a.dag)
        L = post.getf(res, 'items')
        ops = GraphOps(it)
        depth = ops.depth_fn(a.dag)
        i, j = z3.Ints('oi oj')
        x = z3.Const('ox', PyV)
        inr = lambda k: z3.And(k >= 0, k < L.len)
        return [
            ('only-dag-nodes-to-run', FA([j], z3.Implies(inr(j), z3.And(
                node_in_dag(it, pre, a.dag, L.at(j)), self._keep(m, sub, L.at(j)))), patterns=[L.at(j)])),
            ('all-dag-nodes-to-run|C04,C11', FA([x], z3.Implies(
                z3.And(node_in_dag(it, pre, a.dag, x), self._keep(m, sub, x)),
                z3.Exists([j], z3.And(inr(j), L.at(j) == x))))),
            ('no-duplicates|C04', FA([i, j], z3.Implies(z3.And(inr(i), inr(j), i < j), L.at(i) != L.at(j)),
                                           patterns=[z3.MultiPattern(L.at(i), L.at(j))])),
            ('topological|C03,C06', FA([i, j], z3.Implies(
                z3.And(inr(i), inr(j), ops.edge_in(a.dag, L.at(i), L.at(j))), i < j),
                patterns=[ops.edge_trigger(a.dag, L.at(i), L.at(j))])),
            ('depth-monotone|C06', FA([i, j], z3.Implies(z3.And(inr(i), inr(j), i < j),
                                                                depth(L.at(i)) <= depth(L.at(j))),
                                             patterns=[z3.MultiPattern(L.at(i), L.at(j))])),
        ]


@contract
class M_get_node_dependencies(MgrContract):
    replayable = True
    name = 'DAGRunConcurrentManager._get_node_dependencies'
    returns = 'set'
    props = ('C03', 'C10', 'C11')
    doc = 'nodes(dag) ∩ predecessors of n in the full graph; @cachedmethod treated as transparent (assumption)'

    def setup(self, it):
        m, d = mgr_and_dag(it)
        return m, CallArgs([d, self.fresh_node(it)])

    def ensures(self, it, pre, post, a, res):
        m = self.mv(pre, a)
        n = T(a.node_id, it.st)
        s = post.getf(res, 'elems')
        x = z3.Const('dx', PyV)
        return [('result', FA([x], s.contains(x) == z3.And(m.G.edge(x, n), node_in_dag(it, pre, a.dag, x)),
                                     patterns=[s.contains(x)]))]


def SUBST(m, p):
    """the node whose result stands for predecessor p: the selected case of a resolved switch, else p"""
    sw = m.S.SW.get(p, z3.BoolVal(False))
    return z3.If(z3.And(m.G.is_switch(p), PyV.is_case(sw)), PyV.cnode(sw), p)


def BASE_PRED(it, pre, m, dag, n, x):
    sub = SubV(pre, dag)
    restricted = z3.Or(m.G.is_switch(n), m.G.is_head(n), sub.is_recurrent)
    return z3.And(m.G.edge(x, n), z3.Or(z3.Not(restricted), node_in_dag(it, pre, dag, x)))


@contract
class M_get_predecessors(MgrContract):
    replayable = True
    name = 'DAGRunConcurrentManager._get_predecessors'
    returns = 'list'
    props = ('C01', 'C03', 'C09', 'C10', 'C11')
    doc = ('{sub(p) | p in base}: base = dag-restricted dependencies for switch / one-of head / recurrent scope, '
           'else all graph predecessors; sub = selected case of a resolved switch')

    def setup(self, it):
        m, d = mgr_and_dag(it)
        return m, CallArgs([d, self.fresh_node(it)])

    def requires(self, it, pre, a):
        return [('node-in-graph', self.mv(pre, a).G.node(T(a.node_id, it.st)))]

    def ensures(self, it, pre, post, a, res):
        m = self.mv(pre, a)
        n = T(a.node_id, it.st)
        L = post.getf(res, 'items')
        j = z3.Int('pj')
        x = z3.Const('px', PyV)
        W = z3.Function('pred_wit', PyV, PyV)
        return [
            ('each-element-substitutes-a-base-predecessor', FA([j], z3.Implies(
                z3.And(j >= 0, j < L.len),
                z3.Exists([x], z3.And(BASE_PRED(it, pre, m, a.dag, n, x), L.at(j) == SUBST(m, x)))),
                patterns=[L.at(j)])),
            ('every-base-predecessor-is-represented', FA([x], z3.Implies(
                BASE_PRED(it, pre, m, a.dag, n, x),
                z3.Exists([j], z3.And(j >= 0, j < L.len, L.at(j) == SUBST(m, x)))))),
        ]

    @property
    def loops(self):
        def inv(ctx):
            it = ctx.it
            m = MV(ctx.pre, ctx.a.self)
            cur = it.st.getf(ctx.var('predecessors'), 'items')
            orig = ctx.seq
            j = z3.Int('lj')
            return [
                ('length', cur.len == orig.len),
                ('prefix-substituted', FA([j], z3.Implies(z3.And(j >= 0, j < ctx.i), cur.at(j) == SUBST(m, orig.at(j))),
                                                 patterns=[cur.at(j)])),
                ('suffix-untouched', FA([j], z3.Implies(z3.And(j >= ctx.i, j < orig.len), cur.at(j) == orig.at(j)),
                                               patterns=[cur.at(j)])),
            ]
        sp = LoopSpec(text='enumerate(predecessors)', havoc={'predecessors': 'content'}, inv=inv)
        sp.live_list = 'predecessors'
        return [sp]


def READY(m, p):
    return z3.And(m.S.R.vis(p), z3.Not(PyV.is_rec(m.S.R.get(p, z3.BoolVal(False)))))


@contract
class M_is_ready_to_execute(MgrContract):
    replayable = True
    name = 'DAGRunConcurrentManager._is_ready_to_execute'
    returns = 'bool'
    props = ('C01', 'C03', 'C06', 'C09', 'C10', 'C11')
    doc = 'ready ⇔ every effective predecessor has a visible, non-Recurrent result'

    def setup(self, it):
        m, d = mgr_and_dag(it)
        return m, CallArgs([d, self.fresh_node(it)])

    def requires(self, it, pre, a):
        return [('node-in-graph', self.mv(pre, a).G.node(T(a.node_id, it.st)))]

    def result_term(self, it, pre, a):
        m = self.mv(pre, a)
        n = T(a.node_id, it.st)
        x = z3.Const('rx', PyV)
        return FA([x], z3.Implies(BASE_PRED(it, pre, m, a.dag, n, x), READY(m, SUBST(m, x))))

    def ensures(self, it, pre, post, a, res):
        return [('result', B(res) == self.result_term(it, pre, a))]

    @property
    def loops(self):
        def inv(ctx):
            m = MV(ctx.pre, ctx.a.self)
            j = z3.Int('lj')
            return [('all-earlier-ready', FA([j], z3.Implies(z3.And(j >= 0, j < ctx.i), READY(m, ctx.seq.at(j))),
                                                    patterns=[ctx.seq.at(j)]))]
        return [LoopSpec(text='self._get_predecessors(dag, node_id)', inv=inv)]


@contract
class M_has_subgraph_error(MgrContract):
    replayable = True
    name = 'DAGRunConcurrentManager.__has_subgraph_error'
    returns = 'bool'
    props = ('C10', 'C03', 'C11')
    doc = 'some node of the dag has a visible stored exception'

    def setup(self, it):
        m, d = mgr_and_dag(it)
        return m, CallArgs([d])

    def result_term(self, it, pre, a):
        m = self.mv(pre, a)
        x = z3.Const('ex', PyV)
        return z3.Exists([x], z3.And(node_in_dag(it, pre, a.dag, x), PyV.is_exc(m.S.R.get(x, z3.BoolVal(False)))))

    def ensures(self, it, pre, post, a, res):
        return [('result', B(res) == self.result_term(it, pre, a))]


NOTIF = z3.Function('notifset', PyV, PyV, BoolS)      # NOTIF(n, x): x is notified when n completes


def notif_axioms(m):
    n, x, s = z3.Consts('nn nx ns', PyV)
    return [FA([n, x], NOTIF(n, x) == z3.Or(m.G.edge(n, x), z3.Exists([s], z3.And(
        m.G.edge(n, s), m.G.is_switch(s), NOTIF(s, x)))), patterns=[NOTIF(n, x)])]


@contract
class M_get_descendants(MgrContract):
    replayable = True
    name = 'DAGRunConcurrentManager.__get_descendants'
    returns = 'list'
    props = ('C02', 'C09')
    doc = 'covers notifset(n) = succ(n) ∪ ⋃ notifset(s) for switch successors s (recursive; graph acyclic)'

    def setup(self, it):
        m = new_manager(it)
        for ax in notif_axioms(MV(it.st.snapshot(), m)):
            it.st.assume(ax)
        return m, CallArgs([self.fresh_node(it)])

    def ensures(self, it, pre, post, a, res):
        m = self.mv(pre, a)
        n = T(a.node_id, it.st)
        L = post.getf(res, 'items')
        x = z3.Const('gx', PyV)
        j = z3.Int('gj')
        return [
            ('covers-direct-successors', FA([x], z3.Implies(
                m.G.edge(n, x), z3.Exists([j], z3.And(j >= 0, j < L.len, L.at(j) == x))))),
            ('covers-successors-of-switch-successors', FA([x, z3.Const('gs', PyV)], z3.Implies(
                z3.And(m.G.edge(n, z3.Const('gs', PyV)), m.G.is_switch(z3.Const('gs', PyV)), NOTIF(z3.Const('gs', PyV), x)),
                z3.Exists([j], z3.And(j >= 0, j < L.len, L.at(j) == x))))),
        ]

    def apply_at_call(self, it, fi, self_val, ca):
        for ax in notif_axioms(MV(it.st.snapshot(), self_val)):
            if not it.st.ghost.get('notif_ax'):
                it.st.assume(ax)
        it.st.ghost['notif_ax'] = True
        return super().apply_at_call(it, fi, self_val, ca)

    @property
    def loops(self):
        def inv(ctx):
            it = ctx.it
            m = MV(ctx.pre, ctx.a.self)
            n = T(ctx.a.node_id, it.st)
            cur = it.st.getf(ctx.var('descendants'), 'items')
            x, s = z3.Consts('lx ls', PyV)
            j, k = z3.Ints('lj lk')
            member = lambda v: z3.Exists([k], z3.And(k >= 0, k < cur.len, cur.at(k) == v))
            return [
                ('length-grows', cur.len >= ctx.len),
                ('direct-successors-present', FA([x], z3.Implies(m.G.edge(n, x), z3.Exists(
                    [k], z3.And(k >= 0, k < ctx.len, cur.at(k) == x))))),
                ('first-entries-are-successors', FA([k], z3.Implies(z3.And(k >= 0, k < ctx.len), m.G.edge(n, cur.at(k))),
                                                          patterns=[cur.at(k)])),
                ('switch-successors-expanded', FA([j, x], z3.Implies(
                    z3.And(j >= 0, j < ctx.i, m.G.is_switch(cur.at(j)), NOTIF(cur.at(j), x)), member(x)))),
            ]
        return [LoopSpec(text='range(len(descendants))', havoc={'descendants': 'content'}, inv=inv)]


# --------------------------------------------------------------------------------------
# sub-dag construction
# --------------------------------------------------------------------------------------
@contract
class G_get_connected_subgraph(Contract):
    path = GRAPH_PY
    name = 'get_connected_subgraph'
    returns = 'val'
    inline_at_calls = True      # the result carries live filter closures: executed, not abstracted, at call sites
    props = ('C01', 'C09', 'C10', 'C11')
    doc = ('a single-node graph is returned as is; otherwise a view whose node set is {x | source ->* x ->* dest} in '
           'the given graph, carrying exactly the given flags and end points; the given graph is not modified')

    def setup(self, it):
        st = it.st
        g = GraphOps.fresh_base(it, 'G')
        return None, CallArgs([g, SymV(st.fresh_val('source')), SymV(st.fresh_val('dest'))],
                              dict(is_recurrent=SymB(st.fresh_bool('rec')), is_oneof=SymB(st.fresh_bool('oneof')),
                                   is_nested_oneof=SymB(st.fresh_bool('nested'))))

    def raises(self, it, pre, a):
        ops = GraphOps(it)
        return [ExcCase('source-not-in-graph', 'KeyError', may=True)]

    def ensures(self, it, pre, post, a, res):
        st = it.st
        ops = GraphOps(it)
        out = []
        if isinstance(res, Ref) and res.id == a.dag.id:
            out.append(('same-object-only-for-a-single-node-graph', True))
            return out
        ok = isinstance(res, Ref) and post.getf(res, 'g_kind') == 'sub'
        out.append(('result-is-a-subgraph-view', ok))
        if not ok:
            return out
        rec = st.ghost.get('paths', [])
        out.append(('node-set-from-one-path-query', len(rec) == 1))
        if len(rec) != 1:
            return out
        r = rec[0]
        x = z3.Const('cx', PyV)
        ns = post.getf(res, 'g_nodes')
        out += [
            ('paths-searched-in-the-given-graph-between-the-given-end-points', (r['g'] is a.dag or r['g'].id == a.dag.id)
             and z3.simplify(z3.And(r['s'] == T(a.source, st), r['d'] == T(a.dest, st)))),
            ('node-set-is-the-nodes-between-source-and-dest', FA([x], ns.contains(x) == z3.And(
                ops.node_in(a.dag, x), r['rs'](x), r['rd'](x)), patterns=[ns.contains(x)])),
            ('view-of-the-same-underlying-graph', post.getf(res, 'g_base').id == ops.root(a.dag).id),
            ('flags', z3.And(B(post.getf(res, 'is_recurrent')) == B(a.is_recurrent),
                             B(post.getf(res, 'is_oneof')) == B(a.is_oneof),
                             B(post.getf(res, 'is_nested_oneof')) == B(a.is_nested_oneof))),
            ('end-points', z3.And(T(post.getf(res, 'source'), st) == T(a.source, st),
                                  T(post.getf(res, 'dest'), st) == T(a.dest, st))),
        ]
        return out


@contract
class M_get_reduced_dag(MgrContract):
    name = 'DAGRunConcurrentManager._get_reduced_dag'
    returns = 'val'
    inline_at_calls = True
    props = ('C01', 'C09', 'C10', 'C07', 'C08', 'C11')
    doc = ('the nodes between source and dest in the graph without case edges and without still-untried one-of candidates; '
           'clears is_oneof_child of dest when building a one-of scope (on the run\'s own graph) and changes nothing else')

    def setup(self, it):
        st = it.st
        m = new_manager(it)
        return m, CallArgs([SymV(st.fresh_val('source')), SymV(st.fresh_val('dest'))],
                           dict(is_recurrent=SymB(st.fresh_bool('rec')), is_oneof=SymB(st.fresh_bool('oneof')),
                                is_nested_oneof=SymB(st.fresh_bool('nested'))))

    def requires(self, it, pre, a):
        m = self.mv(pre, a)
        return [('end-points-in-graph', z3.And(m.G.node(T(a.source, it.st)), m.G.node(T(a.dest, it.st))))]

    def raises(self, it, pre, a):
        return [ExcCase('source-filtered-out', 'KeyError', may=True)]

    def modifies(self, it, pre, a):
        return [(self.mv(pre, a).G.g, 'na:is_oneof_child')]

    def ensures(self, it, pre, post, a, res):
        st = it.st
        m0, m1 = self.mv(pre, a), self.mv(post, a)
        dest = T(a.dest, st)
        child0 = pre.getf(m0.G.g, 'na:is_oneof_child').a
        child1 = post.getf(m1.G.g, 'na:is_oneof_child').a
        out = [('only-the-tried-candidate-is-unmarked|C10', child1 == z3.If(B(a.is_oneof), z3.Store(child0, dest, FALSE), child0))]
        if not isinstance(res, Ref):
            return out + [('result-is-a-graph', False)]
        kind = post.getf(res, 'g_kind')
        ops = GraphOps(it)
        if kind == 'view':
            # single-node case: the filtered view itself
            out.append(('single-node-view-filters', post.getf(res, 'g_fedge') is not None and post.getf(res, 'g_fnode') is not None))
            return out
        ns = post.getf(res, 'g_nodes')
        x, u, v = z3.Consts('rx ru rv', PyV)
        rec = st.ghost.get('paths', [])
        out.append(('node-set-from-one-path-query', len(rec) == 1))
        if len(rec) != 1:
            return out
        r = rec[0]
        out += [
            ('between-the-given-end-points', z3.simplify(z3.And(r['s'] == T(a.source, st), r['d'] == dest))),
            ('untried-one-of-candidates-are-excluded|C10', FA([x], z3.Implies(ns.contains(x), z3.And(
                m1.G.node(x), z3.Not(m1.G.is_child(x)))), patterns=[ns.contains(x)])),
            ('reachability-ignores-case-edges|C09', FA([u, v], ops.edge_in(r['g'], u, v) == z3.And(
                m1.G.edge(u, v), m1.G.case(u, v) == NONE,
                z3.Not(m1.G.is_child(u)), z3.Not(m1.G.is_child(v))))),
            ('node-set-is-the-nodes-between-source-and-dest', FA([x], ns.contains(x) == z3.And(
                ops.node_in(r['g'], x), r['rs'](x), r['rd'](x)), patterns=[ns.contains(x)])),
            ('flags', z3.And(B(post.getf(res, 'is_recurrent')) == B(a.is_recurrent),
                             B(post.getf(res, 'is_oneof')) == B(a.is_oneof),
                             B(post.getf(res, 'is_nested_oneof')) == B(a.is_nested_oneof))),
            ('end-points', z3.And(T(post.getf(res, 'source'), st) == T(a.source, st), T(post.getf(res, 'dest'), st) == dest)),
            ('view-of-the-run-graph', post.getf(res, 'g_base').id == m1.G.g.id),
        ]
        return out
