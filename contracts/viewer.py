"""
Contracts for ml_pipeline_viewer/visualization/dag.py, schema.py and node/enums.py (C20).
"""
import z3
from pyvc.values import FA

from pyvc.contract import Contract, ExcCase, LoopSpec, contract, A, same_value, lemma, Lemma
from pyvc.interp import CallArgs, attr_fn, STR_OF
from pyvc.state import SymMap, SymSet, SymSeq
from pyvc.values import (PyV, NONE, TRUE, FALSE, SymV, SymB, SymI, SymS, Ref, lift, lower, as_z3, subcls, LATTICE,
                         mk_str, mk_int, truthy_term, IntS, BoolS, StrS, ClsRef, EnumMember)
from pyvc.libmodels import GraphOps

from .shapes import new_obj, new_dag, T, B, GV
from .collab import user_calls, calls

VIEW_PY = 'ml_pipeline_viewer/visualization/dag.py'
SCHEMA_PY = 'ml_pipeline_viewer/visualization/schema.py'
ENUMS_PY = 'ml_pipeline_engine/node/enums.py'
IMPL = f'{VIEW_PY}::GraphConfigImpl'
NODE_TYPES = ('processor', 'generic', 'switch', 'input_one_of', 'recurrent')


def S(x):
    return z3.StringVal(x)


@contract
class ByPrefix(Contract):
    path = ENUMS_PY
    name = 'NodeType.by_prefix'
    returns = 'val'
    inline_at_calls = True
    props = ('C20',)
    doc = 'the first member (definition order) whose value is a prefix of the id; RuntimeError iff there is none'

    def setup(self, it):
        ci = it.repo.klass(ENUMS_PY, 'NodeType')
        return ClsRef(ci.key, ci), CallArgs([SymS(it.st.fresh_str('value'))])

    def bind(self, it, fi, self_val, ca):
        return A(cls=self_val, value=ca.args[0])

    def _v(self, a, it):
        return it.as_str(a.value)

    def raises(self, it, pre, a):
        v = self._v(a, it)
        return [ExcCase('no-known-prefix', 'RuntimeError', when=z3.Not(z3.Or(*[z3.PrefixOf(S(t), v) for t in NODE_TYPES])))]

    def ensures(self, it, pre, post, a, res):
        v = self._v(a, it)
        out = []
        ok = isinstance(res, EnumMember)
        out.append(('returns-a-member', ok))
        if ok:
            idx = NODE_TYPES.index(res.value)
            out.append(('its-value-prefixes-the-id', z3.PrefixOf(S(res.value), v)))
            out.append(('no-earlier-member-does', z3.And(*[z3.Not(z3.PrefixOf(S(t), v)) for t in NODE_TYPES[:idx]]) if idx else True))
        return out


@contract
class EdgePostInit(Contract):
    path = SCHEMA_PY
    name = 'Edge.__post_init__'
    returns = 'none'
    inline_at_calls = True
    props = ('C20',)
    doc = 'id = source + "->" + target'

    def setup(self, it):
        st = it.st
        e = new_obj(it, f'{SCHEMA_PY}::Edge', source=SymS(st.fresh_str('source')), target=SymS(st.fresh_str('target')))
        return e, CallArgs()

    def modifies(self, it, pre, a):
        return [(a.self, 'id')]

    def ensures(self, it, pre, post, a, res):
        s, t_ = it.as_str(pre.getf(a.self, 'source')), it.as_str(pre.getf(a.self, 'target'))
        return [('id', it.as_str(post.getf(a.self, 'id')) == z3.Concat(s, S('->'), t_))]


def new_impl(it):
    dag = new_dag(it)
    return new_obj(it, IMPL, _dag=dag), dag


@contract
class RelativePath(Contract):
    path = VIEW_PY
    name = 'GraphConfigImpl._get_node_relative_path'
    returns = 'str'
    assumed = True
    props = ('C20',)
    doc = 'ASSUMED (reflection over user classes: inspect.getsourcelines, __module__): returns some string, touches nothing'

    def setup(self, it):
        raise NotImplementedError


@contract
class GenerateNodes(Contract):
    path = VIEW_PY
    name = 'GraphConfigImpl._generate_nodes'
    returns = 'list'
    props = ('C20',)
    doc = ('one entry per graph node, in graph order, with the node\'s id; synthetic nodes are virtual and typed by their id '
           'prefix, real nodes carry name / verbose name / declared type; the DAG is not modified')

    def setup(self, it):
        impl, dag = new_impl(it)
        return impl, CallArgs()

    def raises(self, it, pre, a):
        return [ExcCase('unknown-synthetic-prefix-or-user-class-failure', None, may=True)]

    def ensures(self, it, pre, post, a, res):
        items = post.getf(res, 'items')
        n = items.len if isinstance(items, SymSeq) else z3.IntVal(len(items))
        return [('one-entry-per-graph-node', n == it.st.ghost['loop_len'] if 'loop_len' in it.st.ghost else True)]

    @property
    def loops(self):
        def ghost_init(it, env):
            pass

        def inv(ctx):
            it = ctx.it
            items = it.st.getf(ctx.var('nodes'), 'items')
            n = items.len if isinstance(items, SymSeq) else z3.IntVal(len(items))
            it.st.ghost['loop_len'] = ctx.len
            return [('entries-so-far-equal-nodes-visited', n == ctx.i)]

        def body_post(ctx):
            it, st = ctx.it, ctx.st
            nid = ctx.seq.at(ctx.i_before)
            dag = ctx.pre.getf(ctx.a.self, '_dag')
            nm = ctx.pre.getf(ctx.pre.getf(dag, 'node_map'), 'map')
            allocs = [e for e in ctx.iter_effects if e.kind == 'alloc' and e.cls == 'Node']
            out = [('exactly-one-entry-per-node', len(allocs) == 1)]
            if len(allocs) != 1:
                return out
            n = allocs[0].obj
            g = lambda f: st.getf(n, f)
            out.append(('entry-carries-the-node-id', T(g('id'), st) == nid))
            synthetic = z3.Or(z3.Not(nm.has(nid)), nm.at(nid) == NONE)
            out.append(('virtual-iff-synthetic', B(g('is_virtual')) == synthetic))
            if g('is_virtual') is True:
                out.append(('synthetic-node-typed-by-its-id-prefix', z3.Or(*[z3.And(
                    T(g('type'), st) == mk_str(t), z3.PrefixOf(S(t), STR_OF(nid)) if False else True) for t in NODE_TYPES])))
                out.append(('synthetic-node-has-no-attributes', g('data') is None))
            else:
                cls = nm.at(nid)
                d = g('data')
                out.append(('real-node-carries-its-declared-type', T(g('type'), st) == attr_fn('node_type')(cls)))
                ok = isinstance(d, Ref)
                out.append(('real-node-has-attributes', ok))
                if ok:
                    out.append(('real-node-carries-name-and-verbose-name', z3.And(
                        T(st.getf(d, 'name'), st) == attr_fn('name')(cls),
                        T(st.getf(d, 'verbose_name'), st) == attr_fn('verbose_name')(cls))))
                    # the documentation a node declares: the docstring of its process method, else that of the class
                    ucs = user_calls(ctx.iter_effects)
                    if ucs and ucs[0].result is not None:
                        GETDOC = z3.Function('getdoc', PyV, PyV)
                        mdoc = GETDOC(attr_fn('process')(T(ucs[0].result, st)))
                        out.append(('real-node-carries-its-declared-documentation (process docstring, else class docstring)', T(
                            st.getf(d, 'doc'), st) == z3.If(truthy_term(mdoc), mdoc, GETDOC(cls))))
            return out
        return [LoopSpec(text='self._dag.graph.nodes', havoc={'nodes': 'content'}, inv=inv, body_post=body_post,
                         ghost_init=ghost_init)]


@contract
class GenerateNodeTypes(Contract):
    path = VIEW_PY
    name = 'GraphConfigImpl._generate_node_types'
    returns = 'dict'
    props = ('C20',)
    doc = ('a table with a key for every type that occurs among the graph nodes; never fails on a buildable DAG '
           '(synthetic ids carry a known prefix; real nodes declare any string or None as node_type)')

    def setup(self, it):
        impl, dag = new_impl(it)
        st = it.st
        colors = st.alloc('dict', map=SymMap.fresh(st, 'node_colors'))
        return impl, CallArgs([colors])

    def requires(self, it, pre, a):
        # buildable DAG: every synthetic node id starts with a NodeType prefix the builder generates
        dag = pre.getf(a.self, '_dag')
        nm = pre.getf(pre.getf(dag, 'node_map'), 'map')
        g = GV(pre, pre.getf(dag, 'graph'))
        x = z3.Const('vx', PyV)
        return [('synthetic-ids-carry-a-builder-prefix', FA([x], z3.Implies(
            z3.And(g.node(x), z3.Or(z3.Not(nm.has(x)), nm.at(x) == NONE)),
            z3.And(PyV.is_str_(x), z3.Or(z3.PrefixOf(S('switch'), PyV.s(x)), z3.PrefixOf(S('input_one_of'), PyV.s(x)))))))]

    def raises(self, it, pre, a):
        return []       # the property: generating the description never fails on a buildable pipeline

    @staticmethod
    def type_of(nm, x):
        """the type name the node list reports for graph node x (None = real node without a type)"""
        synthetic = z3.Or(z3.Not(nm.has(x)), nm.at(x) == NONE)
        pref = NONE
        for t in reversed(NODE_TYPES):
            pref = z3.If(z3.PrefixOf(S(t), PyV.s(x)), mk_str(t), pref)
        return z3.If(synthetic, pref, attr_fn('node_type')(nm.at(x)))

    def ensures(self, it, pre, post, a, res):
        dag = pre.getf(a.self, '_dag')
        nm = pre.getf(pre.getf(dag, 'node_map'), 'map')
        g = GV(pre, pre.getf(dag, 'graph'))
        table = post.getf(res, 'map')
        if not isinstance(table, SymMap):
            table = it.dict_sym(res)
        x = z3.Const('tx2', PyV)
        return [('every-occurring-type-has-an-entry', FA([x], z3.Implies(
            z3.And(g.node(x), self.type_of(nm, x) != NONE), table.has(self.type_of(nm, x))), patterns=[g.node(x)]))]

    @property
    def loops(self):
        outer = self

        def inv(ctx):
            it = ctx.it
            dag = ctx.pre.getf(ctx.a.self, '_dag')
            nm = ctx.pre.getf(ctx.pre.getf(dag, 'node_map'), 'map')
            table = it.dict_sym(ctx.var('node_types'))
            j = z3.Int('tj')
            return [('types-of-visited-nodes-are-in-the-table', FA([j], z3.Implies(
                z3.And(j >= 0, j < ctx.i, outer.type_of(nm, ctx.seq.at(j)) != NONE),
                table.has(outer.type_of(nm, ctx.seq.at(j)))), patterns=[ctx.seq.at(j)]))]
        return [LoopSpec(text='self._dag.graph.nodes', havoc={'node_types': 'content'}, inv=inv)]


@contract
class GenerateEdges(Contract):
    path = VIEW_PY
    name = 'GraphConfigImpl._generate_edges'
    returns = 'list'
    props = ('C20',)
    doc = 'one entry per graph edge, in graph order, with exactly that edge\'s end points (which are graph nodes)'

    def setup(self, it):
        impl, dag = new_impl(it)
        # schema.Edge objects live in the result list as the pair (source, target); id is a function of both
        it.st.value_classes[f'{SCHEMA_PY}::Edge'] = lambda st, ref: PyV.tup2(lift(st.getf(ref, 'source'), st), lift(st.getf(ref, 'target'), st))
        return impl, CallArgs()

    def ensures(self, it, pre, post, a, res):
        items = post.getf(res, 'items')
        dag = pre.getf(a.self, '_dag')
        g = GV(pre, pre.getf(dag, 'graph'))
        comp = it.st.ghost.get('comp', {}).get(res.id)
        j = z3.Int('ej')
        out = []
        if it.verifying == f'{VIEW_PY}::{self.name}':
            out.append(('built-by-one-pass-over-the-graph-edges', comp is not None))
            if comp is None:
                return out
            out.append(('one-entry-per-edge', items.len == comp['base'].len))
        out += [
            ('entries-are-edges-of-the-graph', FA([j], z3.Implies(z3.And(j >= 0, j < items.len), z3.And(
                PyV.is_tup2(items.at(j)), g.edge(PyV.t0(items.at(j)), PyV.t1(items.at(j))),
                g.node(PyV.t0(items.at(j))), g.node(PyV.t1(items.at(j))))), patterns=[items.at(j)])),
        ]
        return out


@lemma
class EdgeIdsUnique(Lemma):
    name = 'viewer-edge-ids-unique'
    props = ('C20',)
    doc = 'distinct edges get distinct ids source + "->" + target (for arbitrary node-id strings)'

    def obligations(self, it):
        s1, t1, s2, t2 = z3.Strings('s1 t1 s2 t2')
        return [('distinct-edges-have-distinct-ids', z3.Implies(
            z3.Or(s1 != s2, t1 != t2), z3.Concat(s1, S('->'), t1) != z3.Concat(s2, S('->'), t2)))]


@contract
class Generate(Contract):
    path = VIEW_PY
    name = 'GraphConfigImpl.generate'
    returns = 'val'
    props = ('C20',)
    doc = 'the description is assembled from exactly the node list, edge list and type table of this DAG; the DAG is not modified'

    def setup(self, it):
        impl, dag = new_impl(it)
        st = it.st
        return impl, CallArgs([SymS(st.fresh_str('name'))], dict(verbose_name=SymV(st.fresh_val('verbose_name')),
                                                                 repo_link=SymV(st.fresh_val('repo_link')),
                                                                 node_colors=st.alloc('dict', map=SymMap.fresh(st, 'colors'))))

    def requires(self, it, pre, a):
        return GenerateNodeTypes().requires(it, pre, a)

    def raises(self, it, pre, a):
        return [ExcCase('unknown-synthetic-prefix-or-user-class-failure', None, may=True)]

    def effects_spec(self, it, pre, post, a, outcome, value, effects):
        ns, es, ts = calls(effects, '_generate_nodes'), calls(effects, '_generate_edges'), calls(effects, '_generate_node_types')
        failed = any(e.exc is not None for e in ns + es + ts)
        out = [('each-part-generated-once-for-this-dag', failed or (len(ns) == 1 and len(es) == 1 and len(ts) == 1
                and all(e.a.self.id == a.self.id for e in ns + es + ts)))]
        if outcome == 'return' and isinstance(value, Ref) and len(ns) == 1 and len(es) == 1 and len(ts) == 1:
            out.append(('description-holds-exactly-those-parts', post.getf(value, 'nodes').id == ns[0].res.id
                        and post.getf(value, 'edges').id == es[0].res.id and post.getf(value, 'node_types').id == ts[0].res.id))
            attrs = post.getf(value, 'attributes')
            out.append(('graph-name-passed-through', same_value(post.getf(attrs, 'name'), a.name, it.st)))
        return out
