"""
Contracts for artifact_store/store/filesystem.py and serializers.py (C18): the store against an abstract map
keyed *exactly* by node id:  key k of store (artifact_dir, model, pipeline) is present iff the directory holds
k.pickle or k.json, and its value is what that file decodes to.
"""
import z3
from pyvc.values import FA

from pyvc.contract import Contract, ExcCase, LoopSpec, contract, A, same_value
from pyvc.interp import CallArgs, attr_fn, STR_OF
from pyvc.state import SymMap, SymSet, SymSeq
from pyvc.values import (PyV, NONE, TRUE, FALSE, SymV, SymB, SymI, SymS, Ref, lift, lower, as_z3, subcls, LATTICE,
                         mk_str, mk_int, truthy_term, IntS, BoolS, StrS, ClsRef, EnumMember)
from pyvc.libmodels3 import PathV, fs_of, new_fs, content, K_EMPTY, K_PICKLE, K_JSON, IS_ENUM, PICKLABLE, JSONABLE

from .shapes import new_obj, T, B

FS_PY = 'ml_pipeline_engine/artifact_store/store/filesystem.py'
SER_PY = 'ml_pipeline_engine/artifact_store/serializers.py'
STORE = f'{FS_PY}::FileSystemArtifactStore'
EXISTS = 'ArtifactAlreadyExists'
MISSING = 'ArtifactDoesNotExist'

SLASH = z3.StringVal('/')


def new_store(it):
    st = it.st
    new_fs(it)
    pid = st.fresh_val('pipeline_id')
    # the model name is a string or an Enum member whose *value* is the name (both are supported by _ensure_dir)
    if st.choose([True, True], 'model-name-is-an-enum-member') == 0:
        mn = SymS(st.fresh_str('model_name'))
    else:
        from pyvc.libmodels3 import IS_ENUM
        from pyvc.interp import attr_fn
        m = st.fresh_val('model_enum')
        st.assume(z3.And(IS_ENUM(m), PyV.is_opq(m), PyV.is_str_(attr_fn('value')(m)), PyV.is_str_(attr_fn('name')(m))))
        mn = SymV(m)
    ctx = st.alloc('ctxlike', model_name=mn, pipeline_id=SymV(pid))
    return new_obj(it, STORE, ctx=ctx, artifact_dir=PathV(st.fresh_str('artifact_dir')))


def store_dir(snap, store, st):
    ctx = snap.getf(store, 'ctx')
    mn = snap.getf(ctx, 'model_name')
    if isinstance(mn, SymS):
        model = mn.t
    else:
        from pyvc.interp import attr_fn
        model = PyV.s(attr_fn('value')(mn.t))          # the key is the model *name*: for an Enum member its value
    pid = STR_OF(T(snap.getf(ctx, 'pipeline_id'), st))
    return z3.Concat(snap.getf(store, 'artifact_dir').s, SLASH, model, SLASH, pid)


def file_of(d, k, ext):
    return PyV.str_(z3.Concat(d, SLASH, k, z3.StringVal('.' + ext)))


class View:
    """abstract map of one store directory in a snapshot"""

    def __init__(self, snap, store, it):
        self.st = it.st
        self.fs = it.st.ghost['fs']
        self.files = snap.getf(self.fs, 'files')
        self.dirs = snap.getf(self.fs, 'dirs')
        self.d = store_dir(snap, store, it.st)

    def has(self, k):
        return z3.Or(self.files.has(file_of(self.d, k, 'pickle')), self.files.has(file_of(self.d, k, 'json')))

    def value(self, k):
        return z3.If(self.files.has(file_of(self.d, k, 'pickle')), PyV.t1(self.files.at(file_of(self.d, k, 'pickle'))),
                     PyV.t1(self.files.at(file_of(self.d, k, 'json'))))

    def well_formed(self):
        """every artifact file holds a complete document of its format (invariant of the store's own writes)"""
        k = z3.String('wfk')
        fp, fj = file_of(self.d, k, 'pickle'), file_of(self.d, k, 'json')
        return z3.And(
            FA([k], z3.And(z3.Not(self.dirs.contains(fp)), z3.Not(self.dirs.contains(fj))), patterns=[self.dirs.contains(fp), self.dirs.contains(fj)]),
            FA([k], z3.Implies(self.files.has(fp), z3.And(PyV.is_tup2(self.files.at(fp)), PyV.t0(self.files.at(fp)) == mk_int(K_PICKLE))),
               patterns=[self.files.has(fp)]),
            FA([k], z3.Implies(self.files.has(fj), z3.And(PyV.is_tup2(self.files.at(fj)), PyV.t0(self.files.at(fj)) == mk_int(K_JSON))),
               patterns=[self.files.has(fj)]))


def key_ok(k):
    """node ids are file-name safe: no path separator (the engine's ids are built from module and class names)"""
    return z3.Not(z3.Contains(k, SLASH))


class StoreContract(Contract):
    path = FS_PY
    props = ('C18',)

    def fmt_arg(self, it):
        st = it.st
        ci = it.repo.klass('ml_pipeline_engine/artifact_store/enums.py', 'DataFormat')
        which = st.choose([True, True], 'format')
        return EnumMember('DataFormat', 'PICKLE', 'pickle') if which == 0 else EnumMember('DataFormat', 'JSON', 'json')

    def modifies(self, it, pre, a):
        fs = it.st.ghost['fs']
        return [(fs, 'files'), (fs, 'dirs')]


@contract
class FsSave(StoreContract):
    name = 'FileSystemArtifactStore.save'
    returns = 'none'
    doc = ('a key never saved becomes present with exactly the saved value, no other key changes; an existing key raises '
           'ArtifactAlreadyExists and nothing changes; a failing save leaves no trace')

    def setup(self, it):
        st = it.st
        s = new_store(it)
        return s, CallArgs([SymS(st.fresh_str('node_id')), SymV(st.fresh_val('data')), self.fmt_arg(it)])

    def requires(self, it, pre, a):
        v = View(pre, a.self, it)
        k = a.node_id.t
        return [('key-is-a-file-name', key_ok(k)), ('store-directory-well-formed', v.well_formed())]

    def storable(self, it, a):
        v = T(a.data, it.st)
        return PICKLABLE(v) if a.fmt.value == 'pickle' else JSONABLE(v)

    def raises(self, it, pre, a):
        v = View(pre, a.self, it)
        k = a.node_id.t
        return [ExcCase('already-saved', EXISTS, when=v.has(k),
                        ensures=lambda post, exc: [('stored-value-intact', View(post, a.self, it).files.same_view(v.files))]),
                ExcCase('value-not-representable-in-this-format', None, when=z3.And(z3.Not(v.has(k)), z3.Not(self.storable(it, a))),
                        ensures=lambda post, exc: [('a-failed-save-leaves-no-trace', View(post, a.self, it).files.same_view(v.files))])]

    def ensures(self, it, pre, post, a, res):
        v0, v1 = View(pre, a.self, it), View(post, a.self, it)
        k = a.node_id.t
        kind = K_PICKLE if a.fmt.value == 'pickle' else K_JSON
        f = file_of(v0.d, k, a.fmt.value)
        k2 = z3.String('ok2')
        return [
            ('only-a-new-key-is-saved', z3.Not(v0.has(k))),
            ('exactly-one-file-named-after-the-key-is-written', v1.files.eq(v0.files.store(f, content(kind, T(a.data, it.st))))),
            ('the-key-now-maps-to-the-saved-value', z3.And(v1.has(k), v1.value(k) == T(a.data, it.st))),
            ('no-other-key-appears-or-changes', FA([k2], z3.Implies(z3.And(k2 != k, key_ok(k2)), z3.And(
                v1.has(k2) == v0.has(k2), v1.value(k2) == v0.value(k2))))),
        ]


@contract
class FsLoad(StoreContract):
    name = 'FileSystemArtifactStore.load'
    returns = 'val'
    doc = 'returns the value saved under exactly this key; ArtifactDoesNotExist iff the key was never saved; read-only for files'

    def setup(self, it):
        st = it.st
        return new_store(it), CallArgs([SymS(st.fresh_str('node_id'))])

    def requires(self, it, pre, a):
        v = View(pre, a.self, it)
        return [('key-is-a-file-name', key_ok(a.node_id.t)), ('store-directory-well-formed', v.well_formed())]

    def modifies(self, it, pre, a):
        return [(it.st.ghost['fs'], 'dirs')]

    def raises(self, it, pre, a):
        v = View(pre, a.self, it)
        return [ExcCase('never-saved', MISSING, when=z3.Not(v.has(a.node_id.t)))]

    def ensures(self, it, pre, post, a, res):
        v = View(pre, a.self, it)
        return [('returns-the-saved-value', z3.And(v.has(a.node_id.t), T(res, it.st) == v.value(a.node_id.t)))]


@contract
class FsEnsureDir(StoreContract):
    name = 'FileSystemArtifactStore._ensure_dir'
    returns = 'val'
    inline_at_calls = True
    doc = 'the directory artifact_dir/model/pipeline exists afterwards and is returned; distinct (model, pipeline) give distinct directories'

    def setup(self, it):
        return new_store(it), CallArgs()

    def modifies(self, it, pre, a):
        return [(it.st.ghost['fs'], 'dirs')]

    def ensures(self, it, pre, post, a, res):
        d = store_dir(pre, a.self, it.st)
        fs = it.st.ghost['fs']
        ok = isinstance(res, PathV)
        return [('returns-the-store-directory', ok and z3.simplify(res.s == d)),
                ('directory-exists-afterwards', z3.Or(post.getf(fs, 'dirs').contains(PyV.str_(d)), post.getf(fs, 'files').has(PyV.str_(d))))]
