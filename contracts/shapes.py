"""
Symbolic shapes of /repo objects used by contract ``setup`` functions, and read-only views used by
contract clauses.  A shape allocates an *arbitrary* instance (every field a fresh symbol).
"""
import z3
from pyvc.values import FA

from pyvc.state import SymMap, SymSet, SymSeq
from pyvc.values import PyV, NONE, Ref, SymV, SymB, SymI, lift, lower

STORAGE_PY = 'ml_pipeline_engine/dag/storage.py'
HD = f'{STORAGE_PY}::HiddenDict'
STORAGE = f'{STORAGE_PY}::DAGNodeStorage'
STORAGE_FIELDS = ('node_results', 'processed_nodes', 'switch_results', 'recurrent_subgraph', 'waiting_list')


def new_obj(it, cls, **fields):
    ref = it.st.alloc(cls, **fields)
    it.st.setf(ref, '__class__', cls)
    return ref


def new_hidden_dict(it, hint):
    st = it.st
    hk = st.alloc('set', elems=SymSet.fresh(st, hint + '_hid'))
    return new_obj(it, HD, data=SymMap.fresh(st, hint), _hidden_keys=hk)


def new_storage(it, hint='S'):
    return new_obj(it, STORAGE, **{f: new_hidden_dict(it, f'{hint}_{f}') for f in STORAGE_FIELDS})


class HDView:
    """abstract view (data, hidden) of a HiddenDict in a snapshot"""

    def __init__(self, snap, ref):
        self.ref = ref
        self.data = snap.getf(ref, 'data')
        self.hidden_ref = snap.getf(ref, '_hidden_keys')
        self.hidden = snap.getf(self.hidden_ref, 'elems')
        if not isinstance(self.hidden, SymSet):
            s = SymSet.empty()
            for x in self.hidden:
                s = s.add(lift(x, snap.state))
            self.hidden = s

    def has(self, k):
        return self.data.has(k)

    def val(self, k):
        return self.data.get(k)

    def vis(self, k):
        """key present and not hidden (what exists(k, with_hidden=False) returns)"""
        return z3.And(self.data.has(k), z3.Not(self.hidden.contains(k)))

    def get(self, k, wh):
        return z3.If(z3.And(z3.Not(wh), self.hidden.contains(k)), NONE, self.data.get(k))

    def exists(self, k, wh):
        return z3.If(z3.And(z3.Not(wh), self.hidden.contains(k)), False, self.data.has(k))

    def locs(self):
        return [(self.ref, 'data'), (self.hidden_ref, 'elems')]

    def same(self, other):
        return z3.And(self.data.eq(other.data), self.hidden.mem == other.hidden.mem)


class StorageView:
    def __init__(self, snap, ref):
        self.ref = ref
        for f in STORAGE_FIELDS:
            setattr(self, f, HDView(snap, snap.getf(ref, f)))
        self.R = self.node_results
        self.P = self.processed_nodes
        self.SW = self.switch_results

    def others_same(self, other, *changed):
        return z3.And(*[getattr(self, f).same(getattr(other, f)) for f in STORAGE_FIELDS if f not in changed])


def T(v, st=None):
    """python-side value -> PyV term"""
    return lift(v, st)


def B(v):
    """python-side bool-like value -> z3 Bool"""
    from pyvc.values import as_bool_term, as_z3
    return as_z3(as_bool_term(v))


# ======================================================================================
# manager / dag / ctx
# ======================================================================================
from pyvc.libmodels import GraphOps, Arr, new_world, GRAPH_CLS, NODE_FIELDS, EDGE_FIELDS  # noqa: E402
from pyvc.values import SymS, mk_str, truthy_term, TRUE, FALSE  # noqa: E402

MANAGER_PY = 'ml_pipeline_engine/dag/manager.py'
MGR = f'{MANAGER_PY}::DAGRunConcurrentManager'
LOCK = f'{MANAGER_PY}::DAGConcurrentManagerLock'
DAG_CLS = 'ml_pipeline_engine/dag/dag.py::DAG'
CTX_CLS = 'ml_pipeline_engine/context/dag.py::DAGPipelineContext'
CHART_CLS = 'ml_pipeline_engine/chart.py::PipelineChart'


def new_lock_manager(it):
    from pyvc.values import ClsRef
    st = it.st
    ev = st.alloc('defaultdict', factory=ClsRef('asyncio.Event'), map={})
    cd = st.alloc('defaultdict', factory=ClsRef('asyncio.Condition'), map={})
    return new_obj(it, LOCK, node_ids=None, event_lock_store=ev, condition_lock_store=cd)


def new_ctx(it, hint='ctx'):
    st = it.st
    ik = st.alloc('dict', map=SymMap.fresh(st, 'input_kwargs'))
    ems = st.alloc('list', items=SymSeq.fresh(st, 'event_managers'))
    store = st.fresh_val('store')
    st.assume(store != NONE)      # representation invariant of DAGPipelineContext: __init__ installs a store instance
    return _new_ctx(it, st, ik, ems, store)


def _new_ctx(it, st, ik, ems, store):
    return new_obj(it, CTX_CLS, chart=SymV(st.fresh_val('chart')), pipeline_id=SymV(st.fresh_val('pipeline_id')),
                   input_kwargs=ik, meta=SymV(st.fresh_val('meta')), artifact_store=SymV(store),
                   _event_managers=ems)


def new_dag(it, hint='dag'):
    st = it.st
    g = GraphOps.fresh_base(it, 'G')
    nm = st.alloc('dict', map=SymMap.fresh(st, 'node_map'))
    from pyvc.values import ClsRef
    rp = it.repo.klass('ml_pipeline_engine/node/retrying.py', 'NodeRetryPolicy')
    rm = it.repo.klass(MANAGER_PY, 'DAGRunConcurrentManager')
    return new_obj(it, DAG_CLS, graph=g, retry_policy=ClsRef(rp.key, rp), run_manager=ClsRef(rm.key, rm),
                   input_node=SymV(st.fresh_val('input_node')),
                   output_node=SymV(st.fresh_val('output_node')), node_map=nm,
                   is_process_pool_needed=SymB(st.fresh_bool('need_proc')),
                   is_thread_pool_needed=SymB(st.fresh_bool('need_thr')))


def new_manager(it):
    st = it.st
    w = new_world(it)
    dag = new_dag(it)
    ctx = new_ctx(it)
    storage = new_storage(it)
    tasks = st.alloc('set', elems=SymSet.fresh(st, 'coro_tasks'))
    memo = st.alloc('dict', map={})
    mgr = new_obj(it, MGR, ctx=ctx, dag=dag, _node_storage=storage, _lock_manager=new_lock_manager(it),
                  _memorization_store=memo, _coro_tasks=tasks, _alias_run_method='run')
    # representation invariant: registered tasks are Task values created before now
    v = z3.Const('tv', PyV)
    ts = st.getf(tasks, 'elems')
    nt = st.getf(w, 'next_task').t
    st.assume(FA([v], z3.Implies(ts.contains(v), z3.And(PyV.is_task(v), PyV.tid(v) < nt, PyV.tid(v) >= 0)),
                        patterns=[ts.contains(v)]))
    st.assume(nt >= 0)
    return mgr


def new_subdag(it, mgr, hint='sub'):
    """an arbitrary (sub)graph object handed to _run_dag & co: a 'sub' view of the manager's graph with a fixed
    node set and arbitrary flags"""
    st = it.st
    root = st.getf(st.getf(mgr, 'dag'), 'graph')
    ns = SymSet.fresh(st, hint + '_nodes')
    g = new_obj(it, GRAPH_CLS, g_kind='sub', g_base=root, g_nodes=ns, g_fedge=None,
                is_recurrent=SymB(st.fresh_bool(hint + '_is_rec')), is_oneof=SymB(st.fresh_bool(hint + '_is_oneof')),
                is_nested_oneof=SymB(st.fresh_bool(hint + '_is_nested')), source=SymV(st.fresh_val(hint + '_src')),
                dest=SymV(st.fresh_val(hint + '_dest')), name=SymS(st.fresh_str(hint + '_name')))
    st.setf(g, '_DiGraph__hash_value', None)
    x = z3.Const('sdx', PyV)
    st.assume(FA([x], z3.Implies(ns.contains(x), st.getf(root, 'g_nodes').contains(x)), patterns=[ns.contains(x)]))
    return g


class GV:
    """read-only view of a *base* graph in a snapshot"""

    def __init__(self, snap, g):
        self.snap, self.g = snap, g
        self.nodes = snap.getf(g, 'g_nodes')
        self.edges = snap.getf(g, 'g_edges')

    def node(self, x):
        return self.nodes.contains(x)

    def edge(self, u, v):
        return self.edges.contains(PyV.tup2(u, v))

    def na(self, name, n):
        return self.snap.getf(self.g, f'na:{name}').at(n)

    def ea(self, name, u, v):
        return self.snap.getf(self.g, f'ea:{name}').at(PyV.tup2(u, v))

    def is_switch(self, n):
        return z3.And(self.node(n), self.na('is_switch', n) == TRUE)

    def is_head(self, n):
        return truthy_term(self.na('is_oneof', n))

    def is_child(self, n):
        return truthy_term(self.na('is_oneof_child', n))

    def kw(self, u, v):
        return self.ea('kwarg_name', u, v)

    def sw_edge(self, u, v):
        return truthy_term(self.ea('is_switch', u, v))

    def case(self, u, v):
        return self.ea('case_branch', u, v)

    def addl(self, n):
        return self.na('additional_data', n)

    def attr_locs(self):
        return [(self.g, f'na:{f}') for f in NODE_FIELDS] + [(self.g, f'ea:{f}') for f in EDGE_FIELDS]


class MV:
    """manager view in a snapshot"""

    def __init__(self, snap, mgr):
        self.snap, self.mgr = snap, mgr
        self.dag = snap.getf(mgr, 'dag')
        self.ctx = snap.getf(mgr, 'ctx')
        self.S = StorageView(snap, snap.getf(mgr, '_node_storage'))
        self.G = GV(snap, snap.getf(self.dag, 'graph'))
        self.input = T(snap.getf(self.dag, 'input_node'), snap.state)
        self.output = T(snap.getf(self.dag, 'output_node'), snap.state)
        self.tasks_ref = snap.getf(mgr, '_coro_tasks')
        self.tasks = snap.getf(self.tasks_ref, 'elems')
        if not isinstance(self.tasks, SymSet):
            ts = SymSet.empty()
            for x in self.tasks:
                ts = ts.add(lift(x, snap.state))
            self.tasks = ts
        self.node_map = snap.getf(snap.getf(self.dag, 'node_map'), 'map')
        self.input_kwargs_ref = snap.getf(self.ctx, 'input_kwargs')
        self.input_kwargs = snap.getf(self.input_kwargs_ref, 'map')
        self.world = snap.state.ghost.get('world')

    def task_st(self, tid):
        return self.snap.getf(self.world, 'task_st').at(tid)

    def task_exc(self, tid):
        return self.snap.getf(self.world, 'task_exc').at(tid)

    def task_cancel(self, tid):
        return self.snap.getf(self.world, 'task_cancel').at(tid)

    def event_set(self, name):
        return self.snap.getf(self.world, 'event_set').contains(name)


class SubV:
    """view of a sub-dag object (flags + fixed node set)"""

    def __init__(self, snap, g):
        self.snap, self.g = snap, g
        self.kind = snap.getf(g, 'g_kind')
        self.nodes = snap.getf(g, 'g_nodes') if self.kind in ('sub', 'base') else None
        self.is_recurrent = B(snap.getf(g, 'is_recurrent'))
        self.is_oneof = B(snap.getf(g, 'is_oneof'))
        self.is_nested_oneof = B(snap.getf(g, 'is_nested_oneof'))
        self.dest = T(snap.getf(g, 'dest'), snap.state)
        self.source = T(snap.getf(g, 'source'), snap.state)

    def node(self, x):
        return self.nodes.contains(x)
