"""
Symbolic shapes of /repo objects used by contract ``setup`` functions, and read-only views used by
contract clauses.  A shape allocates an *arbitrary* instance (every field a fresh symbol).
"""
import z3

from pyvc.state import SymMap, SymSet, SymSeq
from pyvc.values import PyV, NONE, Ref, SymV, SymB, SymI, lift, lower

STORAGE_PY = 'ml_pipeline_engine/dag/storage.py'
HD = f'{STORAGE_PY}::HiddenDict'
STORAGE = f'{STORAGE_PY}::DAGNodeStorage'
STORAGE_FIELDS = ('node_results', 'processed_nodes', 'switch_results', 'recurrent_subgraph', 'waiting_list')


def new_obj(it, cls, **fields):
    ref = it.st.alloc(cls, **fields)
    it.st.setf(ref, '__class__', cls)
    return ref


def new_hidden_dict(it, hint):
    st = it.st
    hk = st.alloc('set', elems=SymSet.fresh(st, hint + '_hid'))
    return new_obj(it, HD, data=SymMap.fresh(st, hint), _hidden_keys=hk)


def new_storage(it, hint='S'):
    return new_obj(it, STORAGE, **{f: new_hidden_dict(it, f'{hint}_{f}') for f in STORAGE_FIELDS})


class HDView:
    """abstract view (data, hidden) of a HiddenDict in a snapshot"""

    def __init__(self, snap, ref):
        self.ref = ref
        self.data = snap.getf(ref, 'data')
        self.hidden_ref = snap.getf(ref, '_hidden_keys')
        self.hidden = snap.getf(self.hidden_ref, 'elems')
        if not isinstance(self.hidden, SymSet):
            s = SymSet.empty()
            for x in self.hidden:
                s = s.add(lift(x, snap.state))
            self.hidden = s

    def has(self, k):
        return self.data.has(k)

    def val(self, k):
        return self.data.get(k)

    def vis(self, k):
        """key present and not hidden (what exists(k, with_hidden=False) returns)"""
        return z3.And(self.data.has(k), z3.Not(self.hidden.contains(k)))

    def get(self, k, wh):
        return z3.If(z3.And(z3.Not(wh), self.hidden.contains(k)), NONE, self.data.get(k))

    def exists(self, k, wh):
        return z3.If(z3.And(z3.Not(wh), self.hidden.contains(k)), False, self.data.has(k))

    def locs(self):
        return [(self.ref, 'data'), (self.hidden_ref, 'elems')]

    def same(self, other):
        return z3.And(self.data.eq(other.data), self.hidden.mem == other.hidden.mem)


class StorageView:
    def __init__(self, snap, ref):
        self.ref = ref
        for f in STORAGE_FIELDS:
            setattr(self, f, HDView(snap, snap.getf(ref, f)))
        self.R = self.node_results
        self.P = self.processed_nodes
        self.SW = self.switch_results

    def others_same(self, other, *changed):
        return z3.And(*[getattr(self, f).same(getattr(other, f)) for f in STORAGE_FIELDS if f not in changed])


def T(v, st=None):
    """python-side value -> PyV term"""
    return lift(v, st)


def B(v):
    """python-side bool-like value -> z3 Bool"""
    from pyvc.values import as_bool_term, as_z3
    return as_z3(as_bool_term(v))
