"""
BOUNDED stand-in for the run-time engine (dag/manager.py, dag/storage.py, dag/dag.py, context, node runner) —
never counted as proved.

Used when a sidecar contract of a run-time function no longer fits the code (refactoring) or could not be decided, and in
the thorough tier as an extra exploration.  It runs the *real* engine (PipelineChart.run under /venv's interpreter,
PYTHONPATH = the tree being checked) on a bounded family of pipelines x failure placements x completion orders and
compares what it observes with the dataflow semantics of the property statements, computed by a small independent
interpreter over the pipeline description (`Ref` below).

Bound (stated in the evidence):
  acyclic family   16 templates (plain, shared, switch, one-of, nested constructs; <= 8 node classes) x every placement of at
                   most one failing node x both switch labels x 5 completion orders; each chart is run, run again, run
                   twice overlapped, and (after a failing placement) run once more with nothing failing
  retry family     attempts in {1,2,3} x use_default x exceptions in {narrow, default} x every outcome sequence over
                   {ok, retryable, non-retryable} of length attempts
  recurrent family 3 templates x requested re-iterations 0..max_iterations+1 x default / no default; a retrying node
                   inside a recurrent subgraph x 5 x 5 outcome sequences over two iterations

  collaborators    5 templates x an event manager raising at every event site / the store raising at every save, and the caller
                   cancelling the run at 6 points in time (termination, CancelledError only, nothing left behind)

  execution modes  one pipeline with its middle node as coroutine / thread-pool / inline node (same result), and thread / process
                   nodes with the pool never registered or shut down, with and without default (fails fast)

Outside the family on purpose (genuine known findings of the unchanged tree, each with its own obligation and
demonstration): candidates returning None, switch labels matching no case, a case node that another consumer also uses,
a candidate that depends on another one-of's consumer, switch / one-of inside a recurrent subgraph, stores whose save
really suspends; a second save of the same value for a node that two
scopes request (C19 known finding) is tolerated in the one template that has such a node.

usage: /venv/bin/python bounded/engine.py [--json FILE] [--only acyclic|retry|recurrent]
"""
import asyncio
import contextvars
import itertools
import json
import sys
import time
import typing as t

from ml_pipeline_engine.chart import PipelineChart
from ml_pipeline_engine.dag_builders.annotation import build_dag
from ml_pipeline_engine.dag_builders.annotation.marks import Input, InputOneOf, RecurrentSubGraph, SwitchCase
from ml_pipeline_engine.node import ProcessorBase, RecurrentProcessor

import logging
logging.disable(logging.CRITICAL)

BOUND = ('acyclic: 16 templates x <=1 failing node at every position x both switch labels x 5 completion orders x '
         '(first run, second run, two overlapped runs); retry: attempts 1..3 x use_default x narrow/default exceptions x '
         'all outcome sequences; recurrent: 3 templates x 0..max+1 requested re-iterations x default / no default, and a retrying '
         'node inside a recurrent subgraph x 25 outcome sequences; collaborators: 5 templates x every event / save site raising, '
         'and 6 cancellation points')
FAILURES = []
N_CASES = [0]
RUN_KEY = contextvars.ContextVar('run_key', default=None)


def fail(prop, family, case, observed, expected):
    FAILURES.append(dict(property=prop, template=family, case=case, observed=str(observed)[:400], expected=str(expected)[:300]))


class Boom(Exception):
    pass


class Transient(Exception):
    pass


class Fatal(Exception):
    pass


# ----------------------------------------------------------------------------------------------------------------------
# observations shared by all families
# ----------------------------------------------------------------------------------------------------------------------
class Obs:
    def __init__(self):
        self.calls = []          # (run key, node, kwargs)
        self.defaults = []       # (run key, node, kwargs)
        self.events = []         # (run key, kind, node id, payload)
        self.saves = []          # (run key, node id, value)
        self.ended = set()
        self.late = []
        self.times = []          # (run key, node, monotonic time of the invocation)

    def note(self, what, node):
        k = RUN_KEY.get()
        if k in self.ended:
            self.late.append((what, k, node))
        return k


def collaborators(obs):
    class Events:
        async def on_pipeline_start(self, ctx):
            obs.events.append((RUN_KEY.get(), 'pipeline_start', None, None))

        async def on_pipeline_complete(self, ctx, result):
            obs.events.append((RUN_KEY.get(), 'pipeline_complete', None, result))

        async def on_node_start(self, ctx, node_id):
            obs.events.append((obs.note('event', node_id), 'node_start', node_id, None))

        async def on_node_complete(self, ctx, node_id, error):
            obs.events.append((obs.note('event', node_id), 'node_complete', node_id, error))

    class Store:
        def __init__(self, ctx, *a, **kw):
            pass

        async def save(self, node_id, data):
            obs.saves.append((obs.note('save', node_id), node_id, data))

        async def load(self, node_id):
            raise KeyError(node_id)
    return Events, Store


async def run_keyed(chart, key, obs, timeout=3.0):
    """one run in its own task (own context: every task the engine creates inherits the run key)"""
    async def go():
        RUN_KEY.set(key)
        return await chart.run(input_kwargs=dict(x=key))
    task = asyncio.ensure_future(go())
    done, _ = await asyncio.wait({task}, timeout=timeout)
    if not done:
        task.cancel()
        try:
            await task
        except BaseException:   # noqa
            pass
        obs.ended.add(key)
        return 'hung', None
    obs.ended.add(key)
    try:
        return 'done', task.result()
    except BaseException as e:   # noqa
        return 'raised', e


async def settle(obs, family, case):
    """C13: nothing starts after a run has returned, nothing is left on the loop"""
    await asyncio.sleep(0.03)
    for what, k, n in obs.late:
        fail('C13', family, case, f'{what} for {n} started after run {k} had returned', 'nothing is started after run ends')
    obs.late.clear()
    left = [t_ for t_ in asyncio.all_tasks() if t_ is not asyncio.current_task() and not t_.done()]
    if left:
        fail('C13', family, case, f'{len(left)} tasks still pending after run returned: {[t_.get_name() for t_ in left][:5]}',
             'no task left behind')
        for t_ in left:
            t_.cancel()
        await asyncio.sleep(0)


# ----------------------------------------------------------------------------------------------------------------------
# acyclic family
#   spec: name -> [(pname, mark)]       mark: ('raw',) | ('in', X) | ('sw', D, [(label, X)...]) | ('oneof', [X...])
#   every node returns  base(name) + sum(inputs)  (a switch decider returns the label): all values distinct and checkable
# ----------------------------------------------------------------------------------------------------------------------
RAW = [('x', ('raw',))]


def acyclic_templates():
    T = []
    T.append(('chain', dict(In=RAW, A=[('a', ('in', 'In'))], B=[('b', ('in', 'A'))], Out=[('o', ('in', 'B'))])))
    T.append(('rhombus', dict(In=RAW, A=[('a', ('in', 'In'))], B=[('b', ('in', 'In'))], Out=[('p', ('in', 'A')), ('q', ('in', 'B'))])))
    T.append(('shared', dict(In=RAW, A=[('a', ('in', 'In'))], B=[('b', ('in', 'A'))], C=[('c', ('in', 'A'))],
                             E=[('e1', ('in', 'B')), ('e2', ('in', 'C'))], Out=[('o1', ('in', 'E')), ('o2', ('in', 'A'))])))
    T.append(('switch', dict(In=RAW, D=[('d', ('in', 'In'))], A=[('a', ('in', 'In'))], B=[('b', ('in', 'In'))],
                             Out=[('p', ('sw', 'D', [('l0', 'A'), ('l1', 'B')]))])))
    T.append(('switch-deep-cases', dict(In=RAW, D=[('d', ('in', 'In'))], A0=[('a', ('in', 'In'))], A=[('a', ('in', 'A0'))],
                                        B0=[('b', ('in', 'In'))], B=[('b', ('in', 'B0'))],
                                        Out=[('p', ('sw', 'D', [('l0', 'A'), ('l1', 'B')])), ('q', ('in', 'D'))])))
    T.append(('oneof', dict(In=RAW, A=[('a', ('in', 'In'))], B=[('b', ('in', 'In'))], Out=[('p', ('oneof', ['A', 'B']))])))
    T.append(('oneof-deep', dict(In=RAW, F=[('f', ('in', 'In'))], M0=[('m', ('in', 'F'))], M1=[('m', ('in', 'M0'))],
                                 Cand=[('c', ('in', 'M1'))], Fb=[('f', ('in', 'In'))], Out=[('p', ('oneof', ['Cand', 'Fb']))])))
    T.append(('oneof-three', dict(In=RAW, A=[('a', ('in', 'In'))], B=[('b', ('in', 'In'))], C=[('c', ('in', 'In'))],
                                  Out=[('p', ('oneof', ['A', 'B', 'C'])), ('q', ('in', 'In'))])))
    T.append(('oneof-with-side-consumer', dict(In=RAW, S=[('s', ('in', 'In'))], A=[('a', ('in', 'S'))], B=[('b', ('in', 'In'))],
                                               Y=[('y', ('in', 'S'))], Out=[('p', ('oneof', ['A', 'B'])), ('q', ('in', 'Y'))])))
    T.append(('switch-in-candidate', dict(In=RAW, D=[('d', ('in', 'In'))], A=[('a', ('in', 'In'))], B=[('b', ('in', 'In'))],
                                          Cand=[('c', ('sw', 'D', [('l0', 'A'), ('l1', 'B')]))], Fb=[('f', ('in', 'In'))],
                                          Out=[('p', ('oneof', ['Cand', 'Fb']))])))
    T.append(('oneof-feeds-switch-case', dict(In=RAW, D=[('d', ('in', 'In'))], A=[('a', ('in', 'In'))], B=[('b', ('in', 'In'))],
                                              X=[('x', ('oneof', ['A', 'B']))], Y=[('y', ('in', 'In'))],
                                              Out=[('p', ('sw', 'D', [('l0', 'X'), ('l1', 'Y')]))])))
    T.append(('switch-branch-downstream-of-oneof-consumer', dict(
        In=RAW, D=[('d', ('in', 'In'))], A=[('a', ('in', 'In'))], BS=[('s', ('in', 'In'))], B=[('b', ('in', 'BS'))],
        F=[('f', ('oneof', ['A', 'B']))], G=[('g', ('in', 'F'))], Y=[('y', ('in', 'In'))],
        Out=[('p', ('sw', 'D', [('l0', 'G'), ('l1', 'Y')])), ('q', ('in', 'F'))])))
    T.append(('uneven-depths', dict(In=RAW, A1=[('a', ('in', 'In'))], A2=[('a', ('in', 'A1'))], B=[('b', ('in', 'In'))],
                                    Out=[('p', ('in', 'A2')), ('q', ('in', 'B'))])))
    T.append(('very-uneven-depths', dict(In=RAW, L1=[('a', ('in', 'In'))], L2=[('a', ('in', 'L1'))], L3=[('a', ('in', 'L2'))],
                                         S=[('b', ('in', 'In'))], Out=[('p', ('in', 'L3')), ('q', ('in', 'S'))])))
    T.append(('wide-and-deep', dict(In=RAW, A=[('a', ('in', 'In'))], B=[('b', ('in', 'In'))], C=[('c', ('in', 'In'))],
                                    U=[('u', ('in', 'A'))], V=[('v', ('in', 'U'))],
                                    W=[('w1', ('in', 'A')), ('w2', ('in', 'B')), ('w3', ('in', 'C'))],
                                    Out=[('p', ('in', 'V')), ('q', ('in', 'W'))])))
    T.append(('shared-node-behind-a-switch-branch-and-the-main-pipeline', dict(
        In=RAW, D=[('d', ('in', 'In'))], Pre=[('p', ('in', 'In'))], Pre2=[('p', ('in', 'Pre'))], Shared=[('s', ('in', 'Pre2'))],
        A=[('a', ('in', 'Shared'))], B=[('b', ('in', 'In'))], F=[('f', ('in', 'In'))],
        Out=[('p', ('sw', 'D', [('l0', 'A'), ('l1', 'B')])), ('q', ('in', 'Shared')), ('r', ('in', 'F'))])))
    return T


def base(name):
    return sum(ord(c) for c in name) * 1000


def refs(spec, name):
    for _p, m in spec[name]:
        if m[0] == 'in':
            yield m[1]
        elif m[0] == 'sw':
            yield m[1]
            for _l, x in m[2]:
                yield x
        elif m[0] == 'oneof':
            yield from m[1]


def topo(spec):
    seen, out = set(), []

    def visit(n):
        if n in seen:
            return
        seen.add(n)
        for r in refs(spec, n):
            visit(r)
        out.append(n)
    for n in spec:
        visit(n)
    return out


def deciders(spec):
    return {m[1] for ps in spec.values() for _p, m in ps if m[0] == 'sw'}


class Ref:
    """dataflow semantics of one run of an acyclic pipeline: value or failure of every node that may run"""

    def __init__(self, spec, x, label, failing):
        self.spec, self.x, self.label, self.failing = spec, x, label, failing
        self.dec = deciders(spec)
        self.memo = {}
        self.kwargs = {}

    def node(self, n):
        if n in self.memo:
            return self.memo[n]
        kw, err = {}, None
        for p, m in self.spec[n]:
            r = self.mark(m)
            if r[0] == 'err':
                err = err or r
            else:
                kw[p] = r[1]
        if err is not None:
            res = err
        else:
            self.kwargs[n] = kw
            if n in self.failing:
                res = ('err', ('Boom', n))
            elif n in self.dec:
                res = ('ok', self.label)
            else:
                res = ('ok', base(n) + sum(v for v in kw.values() if isinstance(v, int)))
        self.memo[n] = res
        return res

    def mark(self, m):
        if m[0] == 'raw':
            return ('ok', self.x)
        if m[0] == 'in':
            return self.node(m[1])
        if m[0] == 'sw':
            d = self.node(m[1])
            if d[0] == 'err':
                return d
            return self.node(dict(m[2])[d[1]])
        if m[0] == 'oneof':
            for c in m[1]:
                r = self.node(c)
                if r[0] == 'ok':
                    return r
            return ('err', ('OneOfDoesNotHaveResultError', None))
        raise ValueError(m)

    def needed(self):
        """nodes whose value a successful output really consumes"""
        need = set()

        def visit(n):
            if n in need:
                return
            need.add(n)
            for _p, m in self.spec[n]:
                if m[0] == 'in':
                    visit(m[1])
                elif m[0] == 'sw':
                    visit(m[1])
                    d = self.memo.get(m[1])
                    if d and d[0] == 'ok':
                        visit(dict(m[2])[d[1]])
                elif m[0] == 'oneof':
                    for c in m[1]:
                        if self.memo.get(c, ('err',))[0] == 'ok':
                            visit(c)
                            break
        visit('Out')
        return need


def make_process(names):
    src = (f"async def process(self, *, {', '.join(names)}):\n    return await self._body({', '.join(f'{n}={n}' for n in names)})\n"
           if names else "async def process(self):\n    return await self._body()\n")
    ns = {}
    exec(src, ns)      # noqa: S102   (generated from the fixed templates of this file)
    return ns['process']


def materialise(spec, tag, obs, cfg):
    cls = {}
    dec = deciders(spec)
    for name in topo(spec):
        params = spec[name]
        anns = {}
        for p, m in params:
            if m[0] == 'raw':
                anns[p] = int
            elif m[0] == 'in':
                anns[p] = Input(cls[m[1]])
            elif m[0] == 'sw':
                anns[p] = SwitchCase(cls[m[1]], [(lab, cls[x]) for lab, x in m[2]])
            elif m[0] == 'oneof':
                anns[p] = InputOneOf([cls[x] for x in m[1]])

        def make(name=name):
            async def body(self, **kw):
                k = obs.note('node body', name)
                obs.calls.append((k, name, dict(kw)))
                obs.times.append((k, name, 'start', time.monotonic()))
                try:
                    await asyncio.sleep(cfg['delays'].get(name, 0))
                finally:
                    obs.times.append((k, name, 'end', time.monotonic()))
                if name in cfg['failing']:
                    raise Boom(name)
                return cfg['label'] if name in dec else base(name) + sum(x for x in kw.values() if isinstance(x, int))
            return body
        fn = make_process([p for p, _m in params])
        fn.__annotations__ = dict(anns, **{'return': int})
        cls[name] = type(name, (ProcessorBase,), dict(name=f'{tag}_{name}'.lower(), process=fn, _body=make(),
                                                     __module__='bounded_engine'))
    return cls


def schedules(order):
    yield {}
    yield {n: 0.002 * (i + 1) for i, n in enumerate(order)}
    yield {n: 0.002 * (len(order) - i) for i, n in enumerate(order)}
    yield {n: (0.006 if i % 2 else 0.001) for i, n in enumerate(order)}
    yield {n: (0.001 if i % 2 else 0.006) for i, n in enumerate(order)}


def check_acyclic(tname, spec, tag, key, cfg, kind, res, obs, case):
    ref = Ref(spec, key, cfg['label'], cfg['failing'])
    want = ref.node('Out')
    nid = lambda n: f'processor__{tag}_{n}'.lower()
    name_of = {nid(n): n for n in spec}
    if kind == 'hung':
        fail('C02', tname, case, 'PipelineChart.run still pending after 3 s with an idle loop', 'the run terminates')
        return
    if kind == 'raised':
        fail('C05', tname, case, f'run raised {type(res).__name__}: {res}', 'a PipelineResult (run never raises for Exception subclasses)')
        return
    if want[0] == 'ok':
        if res.error is not None:
            fail('C05', tname, case, f'value={res.value!r} error={res.error!r}', f'value={want[1]} error=None')
        elif res.value != want[1]:
            fail('C01', tname, case, f'value={res.value!r}', f'value={want[1]}')
    else:
        cls_, node = want[1]
        ran_and_failed = {n for k, n, _kw in obs.calls if k == key and n in cfg['failing']}
        # C05: the error is one actually raised by a failing node of this run, or the documented one-of error when every
        # candidate failed
        ok = res.value is None and res.error is not None and (
            (type(res.error).__name__ == 'Boom' and res.error.args and res.error.args[0] in ran_and_failed)
            or (node is None and type(res.error).__name__ == cls_))
        if not ok:
            fail('C05', tname, case, f'value={res.value!r} error={res.error!r}', f'value=None error={cls_}({node or ""})')
    has_sw = bool(deciders(spec))
    count = {}
    for k, n, kw in obs.calls:
        if k != key:
            continue
        count[n] = count.get(n, 0) + 1
        if n not in ref.memo:
            fail('C09' if has_sw and not any(m[0] == 'oneof' for ps in spec.values() for _p, m in ps) else 'C10', tname, case,
                 f'node {n} was executed', 'only the selected case / the candidates up to the first successful one (and what they need)')
        elif n not in ref.kwargs:
            fail('C03', tname, case, f'node {n} invoked with {kw} although a node it depends on failed', 'not invoked')
        elif kw != ref.kwargs[n]:
            fail('C03', tname, case, f'node {n} invoked with {kw}', f'{ref.kwargs[n]} (the final values of its declared inputs)')
    for n, c in count.items():
        if c > 1:
            fail('C04', tname, case, f'node {n} executed {c} times in one run', 'at most once')
    if want[0] == 'ok':
        for n in ref.needed():
            if count.get(n, 0) != 1:
                fail('C01', tname, case, f'node {n} executed {count.get(n, 0)} times although the output consumes its value', 'exactly once')
    # ---- C06: independent nodes of equal depth are in flight together (plain dependencies only)
    if not has_sw and not any(m[0] == 'oneof' for ps in spec.values() for _p, m in ps) and want[0] == 'ok':
        depth = {}

        def dep(n):
            if n not in depth:
                depth[n] = 0 if n == 'In' else 1 + max([dep(r) for r in refs(spec, n)] or [0])
            return depth[n]
        tm = {}
        for k, n, what, t_ in obs.times:
            if k == key:
                tm[(n, what)] = t_
        names = [n for n in spec if (n, 'start') in tm and (n, 'end') in tm]
        for u in names:
            for v in names:
                if u != v and dep(u) == dep(v) and cfg['delays'].get(u, 0) >= 0.006 and tm[(v, 'start')] > tm[(u, 'end')]:
                    fail('C06', tname, case, f'{v} (depth {dep(v)}) was started only after {u} (same depth, {cfg["delays"].get(u)} s long) had finished',
                         'independent nodes of equal depth run concurrently')
    ev = [(kd, n, p) for k, kd, n, p in obs.events if k == key]
    kinds = [e[0] for e in ev]
    if not ev or kinds[0] != 'pipeline_start' or kinds[-1] != 'pipeline_complete' or kinds.count('pipeline_start') != 1 \
            or kinds.count('pipeline_complete') != 1:
        fail('C14', tname, case, kinds[:14], 'pipeline_start first and once, pipeline_complete last and once')
    elif ev[-1][2] is not res:
        fail('C14', tname, case, 'on_pipeline_complete carried another result object', 'the PipelineResult that run returns')
    per = {}
    for kd, n, p in ev:
        if n is not None:
            per.setdefault(n, []).append((kd, p))
    for n, hist in per.items():
        ks = [h[0] for h in hist]
        if ks != ['node_start', 'node_complete'][:len(ks)]:
            fail('C14', tname, case, f'{n}: {ks}', 'one node_start followed by one node_complete per execution')
        elif len(ks) == 2 and n in name_of and name_of[n] in ref.kwargs:
            r, err = ref.memo[name_of[n]], hist[1][1]
            if (r[0] == 'ok') != (err is None):
                fail('C14', tname, case, f'{n}: node_complete(error={err!r})', f'error=None iff the node produced a value ({r})')
    stray = {n for n in per if n in name_of and name_of[n] not in count}
    if stray:
        fail('C14', tname, case, f'node events for nodes whose body never ran: {sorted(stray)}', 'events only for executed nodes')
    saves = {}
    for k, n, v in obs.saves:
        if k == key:
            saves.setdefault(n, []).append(v)
    for n, got in saves.items():
        if any(isinstance(v, BaseException) for v in got):
            fail('C19', tname, case, f'{n}: a failure object was saved as the artifact: {got}', 'only final values are saved')
    if want[0] == 'ok':
        for n in count:
            r = ref.memo.get(n)
            got = saves.get(nid(n), [])
            if r is not None and r[0] == 'ok' and n in ref.kwargs and got != [r[1]]:
                if got == [r[1], r[1]] and tname.startswith('shared-node-behind-a-switch-branch'):
                    continue    # recorded known finding (C19): a node requested by two scopes hands its value to the store twice
                fail('C19', tname, case, f'{nid(n)} saved {got}', f'exactly once, value {r[1]}')


def known_excluded(tname, spec, failing, label):
    """placements that fall under a recorded known finding of the unchanged tree (see the module docstring and
    known_findings.json): the selected case of a switch consumed inside a one-of candidate fails"""
    if tname == 'switch-in-candidate':
        selected = dict(spec['Cand'][0][1][2])[label]
        return selected in failing
    return False


async def acyclic(only_templates=None):
    counter = itertools.count()
    for ti, (tname, spec) in enumerate(acyclic_templates()):
        if only_templates is not None and ti not in only_templates:
            continue
        counter = itertools.count(ti * 100000)
        order = topo(spec)
        labels = ['l0', 'l1'] if deciders(spec) else ['l0']
        placements = [frozenset()] + [frozenset([n]) for n in order if n != 'In'] + [frozenset(['In'])]
        for failing in placements:
            for label in labels:
                if known_excluded(tname, spec, failing, label):
                    continue
                for si, delays in enumerate(schedules(order)):
                    tag = f'e{next(counter)}'
                    obs = Obs()
                    cfg = dict(failing=failing, label=label, delays=delays)
                    cls = materialise(spec, tag, obs, cfg)
                    Events, Store = collaborators(obs)
                    chart = PipelineChart(f'bounded_{tag}', build_dag(cls['In'], cls['Out']), artifact_store=Store,
                                          event_managers=[Events])
                    # a read-only look at the built graph, as a viewer or a debugger takes one (networkx caches its views on
                    # the graph object)
                    _ = (len(chart.entrypoint.graph.nodes), len(chart.entrypoint.graph.edges), list(chart.entrypoint.graph.adj))
                    case = f'failing={sorted(failing)} label={label} schedule={si}'
                    hung = False
                    for mode, keys in (('first', [1]), ('second', [2]), ('overlapped', [3, 4])):
                        N_CASES[0] += 1
                        results = await asyncio.gather(*[run_keyed(chart, k, obs) for k in keys])
                        await settle(obs, tname, f'{case} run={mode}')
                        n_before = len(FAILURES)
                        for k, (kind, res) in zip(keys, results):
                            check_acyclic(tname, spec, tag, k, cfg, kind, res, obs, f'{case} run={mode}')
                            hung = hung or kind == 'hung'
                        suspects = [f_ for f_ in FAILURES[n_before:] if f_['property'] == 'C06']
                        if suspects:
                            # timing-based: confirm with every delay five times longer before reporting (a stalled
                            # machine must not look like lost concurrency)
                            FAILURES[n_before:] = [f_ for f_ in FAILURES[n_before:] if f_['property'] != 'C06']
                            slow = dict(cfg, delays={n_: max(0.03, 5 * d_) for n_, d_ in delays.items()})
                            cfg['delays'] = slow['delays']
                            kind, res = await run_keyed(chart, 6, obs)
                            await settle(obs, tname, f'{case} confirmation run')
                            n1 = len(FAILURES)
                            check_acyclic(tname, spec, tag, 6, slow, kind, res, obs, f'{case} run={mode} (confirmed with 5x delays)')
                            FAILURES[n1:] = [f_ for f_ in FAILURES[n1:] if f_['property'] == 'C06']
                            cfg['delays'] = delays
                        if hung:
                            break
                    if not hung and failing:
                        # C07: a failure in an earlier run leaves no trace on the chart: the same chart, now with nothing
                        # failing, behaves like a fresh one
                        N_CASES[0] += 1
                        healthy = dict(cfg, failing=frozenset())
                        cfg['failing'] = frozenset()
                        kind, res = await run_keyed(chart, 5, obs)
                        await settle(obs, tname, f'{case} then a run with nothing failing')
                        n0 = len(FAILURES)
                        check_acyclic(tname, spec, tag, 5, healthy, kind, res, obs, f'{case} then a run of the same chart with nothing failing')
                        for f_ in list(FAILURES[n0:]):
                            if f_['property'] != 'C07':
                                FAILURES.append(dict(f_, property='C07'))     # the chart is not reusable (as well)
                        cfg['failing'] = failing
                    if hung and failing:
                        break       # one schedule is enough to report a hang of this placement


# ----------------------------------------------------------------------------------------------------------------------
# retry family (C12)
# ----------------------------------------------------------------------------------------------------------------------
async def retry():
    counter = itertools.count()
    for attempts, use_default, narrow in itertools.product((1, 2, 3), (False, True), (True, False)):
        for seq in itertools.product(('ok', 'T', 'F'), repeat=attempts):
            if 'ok' in seq[:-1] and any(s != 'ok' for s in seq[seq.index('ok'):]):
                continue            # nothing after the first success is ever consumed
            N_CASES[0] += 1
            tag = f'r{next(counter)}'
            obs = Obs()
            state = dict(i=0)
            DELAY = 0.02

            class In(ProcessorBase):
                name = f'{tag}_in'

                async def process(self, x: int) -> int:
                    return x

            class N(ProcessorBase):
                name = f'{tag}_n'

                async def process(self, v: Input(In)) -> int:
                    obs.calls.append((RUN_KEY.get(), 'N', dict(v=v)))
                    obs.times.append(time.monotonic())
                    o = seq[state['i']] if state['i'] < len(seq) else 'ok'
                    state['i'] += 1
                    if o == 'T':
                        raise Transient(state['i'])
                    if o == 'F':
                        raise Fatal(state['i'])
                    return 500 + v

                def get_default(self, **kw):
                    obs.defaults.append((RUN_KEY.get(), 'N', dict(kw)))
                    return 900

            N.attempts, N.delay, N.use_default = attempts, DELAY, use_default
            if narrow:
                N.exceptions = (Transient,)

            class Out(ProcessorBase):
                name = f'{tag}_out'

                async def process(self, n: Input(N)) -> int:
                    return n + 1

            chart = PipelineChart(f'bounded_{tag}', build_dag(In, Out))
            kind, res = await run_keyed(chart, 7, obs)
            case = f'attempts={attempts} use_default={use_default} exceptions={"(Transient,)" if narrow else "default"} outcomes={seq}'
            # reference
            i, last, value = 0, None, None
            while True:
                o = seq[i]
                i += 1
                if o == 'ok':
                    value = 507
                    break
                last = ('Transient' if o == 'T' else 'Fatal', i)
                retryable = (o == 'T') or not narrow
                if retryable and i < attempts:
                    continue
                value = 900 if use_default else None
                break
            if kind != 'done':
                fail('C02' if kind == 'hung' else 'C05', 'retry', case, kind, 'the run completes with a PipelineResult')
                continue
            n_calls = len(obs.calls)
            if n_calls != i:
                fail('C12', 'retry', case, f'node body invoked {n_calls} times', f'{i} times')
            if any(kw != dict(v=7) for _k, _n, kw in obs.calls):
                fail('C12', 'retry', case, f'invocations received {[kw for _k, _n, kw in obs.calls]}', 'the same arguments every time')
            want_default = value == 900
            if bool(obs.defaults) != want_default or any(kw != dict(v=7) for _k, _n, kw in obs.defaults) or len(obs.defaults) > 1:
                fail('C12', 'retry', case, f'get_default calls: {[kw for _k, _n, kw in obs.defaults]}',
                     'exactly one call with the same keyword arguments' if want_default else 'no call')
            if value is not None:
                if res.error is not None or res.value != value + 1:
                    fail('C12', 'retry', case, f'value={res.value!r} error={res.error!r}', f'value={value + 1}')
            else:
                if res.value is not None or type(res.error).__name__ != last[0] or res.error.args != (last[1],):
                    fail('C12', 'retry', case, f'value={res.value!r} error={res.error!r}', f'error={last[0]}({last[1]}) (the last exception)')
            gaps = [b - a for a, b in zip(obs.times, obs.times[1:])]
            if any(g < DELAY * 0.8 for g in gaps):
                fail('C12', 'retry', case, f'gaps between attempts {[round(g, 4) for g in gaps]}', f'at least delay={DELAY} s')
            await settle(obs, 'retry', case)


async def retry_overlapped():
    """two overlapping runs of one chart, the same retrying node failing in both: the policy is applied per run (C12, C08)"""
    counter = itertools.count(7000000)
    for use_default in (False, True):
        for seq in (('T', 'T', 'ok'), ('T', 'ok'), ('T', 'T', 'T')):
            N_CASES[0] += 1
            tag = f'o{next(counter)}'
            obs = Obs()
            pos = {}

            class In(ProcessorBase):
                name = f'{tag}_in'

                async def process(self, x: int) -> int:
                    return x

            class N(ProcessorBase):
                name = f'{tag}_n'
                attempts, delay, exceptions = 3, 0.01, (Transient,)

                async def process(self, v: Input(In)) -> int:
                    k = RUN_KEY.get()
                    obs.calls.append((k, 'N', dict(v=v)))
                    i = pos.get(k, 0)
                    pos[k] = i + 1
                    o = seq[i] if i < len(seq) else 'ok'
                    if o == 'T':
                        raise Transient(i + 1)
                    return 500 + v

                def get_default(self, **kw):
                    obs.defaults.append((RUN_KEY.get(), 'N', dict(kw)))
                    return 900

            N.use_default = use_default

            class Out(ProcessorBase):
                name = f'{tag}_out'

                async def process(self, n: Input(N)) -> int:
                    return n + 1

            chart = PipelineChart(f'bounded_{tag}', build_dag(In, Out))
            results = await asyncio.gather(run_keyed(chart, 1, obs), run_keyed(chart, 2, obs))
            for key, (kind, res) in zip((1, 2), results):
                case = f'two overlapped runs, attempts=3 use_default={use_default} outcomes={seq} (run {key})'
                if kind != 'done':
                    fail('C02' if kind == 'hung' else 'C05', 'retry-overlapped', case, kind, 'the run completes')
                    continue
                n_calls = sum(1 for k, _n, _kw in obs.calls if k == key)
                want_calls = 3 if 'ok' not in seq else seq.index('ok') + 1
                exhausted = 'ok' not in seq
                for prop_ in ('C12', 'C08'):
                    if n_calls != want_calls:
                        fail(prop_, 'retry-overlapped', case, f'node body invoked {n_calls} times in this run', f'{want_calls} times')
                    n_def = sum(1 for k, _n, _kw in obs.defaults if k == key)
                    if n_def != (1 if exhausted and use_default else 0):
                        fail(prop_, 'retry-overlapped', case, f'get_default called {n_def} times in this run',
                             'once' if exhausted and use_default else 'not at all')
                    if not exhausted and (res.error is not None or res.value != 500 + key + 1):
                        fail(prop_, 'retry-overlapped', case, f'value={res.value!r} error={res.error!r}', f'value={500 + key + 1}')
                    if exhausted and use_default and (res.error is not None or res.value != 901):
                        fail(prop_, 'retry-overlapped', case, f'value={res.value!r} error={res.error!r}', 'value=901')
                    if exhausted and not use_default and type(res.error).__name__ != 'Transient':
                        fail(prop_, 'retry-overlapped', case, f'value={res.value!r} error={res.error!r}', 'error=Transient(3)')
            await settle(obs, 'retry-overlapped', 'two overlapped runs')


# ----------------------------------------------------------------------------------------------------------------------
# recurrent family (C11, C04)
# ----------------------------------------------------------------------------------------------------------------------
async def recurrent():
    counter = itertools.count()
    MAXI = 2
    for shape in ('start-mid-dest', 'start-dest', 'two-paths'):
        for k_req in range(0, MAXI + 2):
            for use_default in (True, False):
                N_CASES[0] += 1
                tag = f'c{next(counter)}'
                obs = Obs()
                state = dict(dest_calls=0)

                class In(ProcessorBase):
                    name = f'{tag}_in'

                    async def process(self, x: int) -> int:
                        obs.calls.append((RUN_KEY.get(), 'In', {}))
                        return x

                class Z(ProcessorBase):
                    name = f'{tag}_z'

                    async def process(self, v: Input(In)) -> int:
                        obs.calls.append((RUN_KEY.get(), 'Z', dict(v=v)))
                        return 10 + v

                class S(ProcessorBase):
                    name = f'{tag}_s'

                    async def process(self, v: Input(In), additional_data: t.Optional[int] = None) -> int:
                        obs.calls.append((RUN_KEY.get(), 'S', dict(v=v, additional_data=additional_data)))
                        return 100 + v + (additional_data or 0)

                class M1(ProcessorBase):
                    name = f'{tag}_m1'

                    async def process(self, s: Input(S)) -> int:
                        obs.calls.append((RUN_KEY.get(), 'M1', dict(s=s)))
                        await asyncio.sleep(0.002)
                        return s + 1

                class M2(ProcessorBase):
                    name = f'{tag}_m2'

                    async def process(self, s: Input(S)) -> int:
                        obs.calls.append((RUN_KEY.get(), 'M2', dict(s=s)))
                        return s + 2

                def dest_body(self, total):
                    state['dest_calls'] += 1
                    if state['dest_calls'] <= k_req:
                        return self.next_iteration(state['dest_calls'] * 1000)
                    return total

                if shape == 'start-mid-dest':
                    class R(RecurrentProcessor):
                        name = f'{tag}_r'

                        async def process(self, m: Input(M1)) -> int:
                            obs.calls.append((RUN_KEY.get(), 'R', dict(m=m)))
                            return dest_body(self, m)
                    inner = ['S', 'M1', 'R']
                elif shape == 'start-dest':
                    class R(RecurrentProcessor):
                        name = f'{tag}_r'

                        async def process(self, m: Input(S)) -> int:
                            obs.calls.append((RUN_KEY.get(), 'R', dict(m=m)))
                            return dest_body(self, m)
                    inner = ['S', 'R']
                else:
                    class R(RecurrentProcessor):
                        name = f'{tag}_r'

                        async def process(self, m: Input(M1), n: Input(M2)) -> int:
                            obs.calls.append((RUN_KEY.get(), 'R', dict(m=m, n=n)))
                            return dest_body(self, m + n)
                    inner = ['S', 'M1', 'M2', 'R']
                R.use_default = use_default
                R.get_default = lambda self, **kw: (obs.defaults.append((RUN_KEY.get(), 'R', dict(kw))), 777)[1]

                class Out(ProcessorBase):
                    name = f'{tag}_out'

                    async def process(self, r: RecurrentSubGraph(start_node=S, dest_node=R, max_iterations=MAXI), z: Input(Z)) -> int:
                        obs.calls.append((RUN_KEY.get(), 'Out', dict(r=r, z=z)))
                        return r + z

                chart = PipelineChart(f'bounded_{tag}', build_dag(In, Out))
                kind, res = await run_keyed(chart, 5, obs)
                case = f'shape={shape} re-iterations requested={k_req} max_iterations={MAXI} use_default={use_default}'
                if kind != 'done':
                    fail('C02' if kind == 'hung' else 'C05', 'recurrent', case, kind, 'the run completes with a PipelineResult')
                    continue
                rounds = min(k_req, MAXI) + 1                      # executions of the subgraph
                exhausted = k_req > MAXI
                count = {}
                for _k, n, _kw in obs.calls:
                    count[n] = count.get(n, 0) + 1
                for n in inner:
                    if count.get(n, 0) != rounds:
                        fail('C11', 'recurrent', case, f'{n} executed {count.get(n, 0)} times', f'{rounds} (once per iteration of the subgraph)')
                for n in ('In', 'Z'):
                    if count.get(n, 0) != 1:
                        fail('C11' if count.get(n, 0) > 1 else 'C01', 'recurrent', case, f'{n} (outside the subgraph) executed {count.get(n, 0)} times', 'once')
                datas = [kw['additional_data'] for _k, n, kw in obs.calls if n == 'S']
                want_datas = [None] + [i * 1000 for i in range(1, rounds)]
                if datas != want_datas:
                    fail('C11', 'recurrent', case, f'start node received additional_data={datas}', want_datas)

                def s_val(i):
                    return 100 + 5 + (want_datas[i] or 0)
                last = s_val(rounds - 1)
                dest_in = {'start-mid-dest': last + 1, 'start-dest': last, 'two-paths': (last + 1) + (last + 2)}[shape]
                if not exhausted:
                    final = dest_in
                elif use_default:
                    final = 777
                else:
                    final = None
                outs = [kw for _k, n, kw in obs.calls if n == 'Out']
                if final is not None:
                    if outs != [dict(r=final, z=15)]:
                        for prop_ in ('C11', 'C03'):
                            fail(prop_, 'recurrent', case, f'consumer of the destination invoked with {outs}',
                                 f'once, with r={final} (the first non-Recurrent result{" / get_default()" if exhausted else ""})')
                    if res.error is not None or res.value != final + 15:
                        for prop_ in ('C11', 'C01'):
                            fail(prop_, 'recurrent', case, f'value={res.value!r} error={res.error!r}', f'value={final + 15}')
                else:
                    if outs:
                        fail('C11', 'recurrent', case, f'consumer invoked with {outs}', 'not invoked: iterations exhausted without default')
                    if res.value is not None or type(res.error).__name__ != 'RecurrentSubgraphDoesNotHaveResultError':
                        fail('C11', 'recurrent', case, f'value={res.value!r} error={res.error!r}', 'RecurrentSubgraphDoesNotHaveResultError')
                await settle(obs, 'recurrent', case)


async def retry_in_recurrent():
    """a node with a retry policy inside a recurrent subgraph: the policy applies afresh in every iteration (C12 + C11)"""
    counter = itertools.count()
    SEQS = (('ok',), ('T', 'ok'), ('T', 'F'), ('T', 'T', 'ok'), ('T', 'T', 'T'))
    for s1, s2 in itertools.product(SEQS, SEQS):
        N_CASES[0] += 1
        tag = f'q{next(counter)}'
        obs = Obs()
        state = dict(dest_calls=0, it=0, i=0)

        class In(ProcessorBase):
            name = f'{tag}_in'

            async def process(self, x: int) -> int:
                return x

        class S(ProcessorBase):
            name = f'{tag}_s'

            async def process(self, v: Input(In), additional_data: t.Optional[int] = None) -> int:
                state['it'] += 1
                state['i'] = 0
                return 100 + v + (additional_data or 0)

        class M(ProcessorBase):
            name = f'{tag}_m'
            attempts, delay, exceptions, use_default = 3, 0.001, (Transient,), True

            async def process(self, s: Input(S)) -> int:
                seq = (s1, s2)[state['it'] - 1]
                obs.calls.append((state['it'], 'M', dict(s=s)))
                o = seq[state['i']] if state['i'] < len(seq) else 'ok'
                state['i'] += 1
                if o == 'T':
                    raise Transient()
                if o == 'F':
                    raise Fatal()
                return s + 1

            def get_default(self, **kw):
                obs.defaults.append((state['it'], 'M', dict(kw)))
                return -5

        class R(RecurrentProcessor):
            name = f'{tag}_r'
            use_default = True

            async def process(self, m: Input(M)) -> int:
                state['dest_calls'] += 1
                if state['dest_calls'] == 1:
                    return self.next_iteration(1000)
                return m

            def get_default(self, **kw):
                return 777

        class Out(ProcessorBase):
            name = f'{tag}_out'

            async def process(self, r: RecurrentSubGraph(start_node=S, dest_node=R, max_iterations=2)) -> int:
                return r

        chart = PipelineChart(f'bounded_{tag}', build_dag(In, Out))
        kind, res = await run_keyed(chart, 5, obs)
        case = f'retry inside a recurrent subgraph: iteration 1 outcomes={s1}, iteration 2 outcomes={s2}'
        if kind != 'done':
            fail('C02' if kind == 'hung' else 'C05', 'retry-in-recurrent', case, kind, 'the run completes')
            continue

        def expect(seq):
            i = 0
            while True:
                o = seq[i]
                i += 1
                if o == 'ok':
                    return i, False
                if o == 'T' and i < 3:
                    continue
                return i, True
        for itn, seq in ((1, s1), (2, s2)):
            n, dflt = expect(seq)
            got = sum(1 for k, _n, _kw in obs.calls if k == itn)
            gd = sum(1 for k, _n, _kw in obs.defaults if k == itn)
            if got != n or gd != (1 if dflt else 0):
                fail('C12', 'retry-in-recurrent', case, f'iteration {itn}: body invoked {got} times, get_default {gd} times',
                     f'{n} invocations, get_default {"once" if dflt else "not called"}')
        n2, d2 = expect(s2)
        want = -5 if d2 else (100 + 5 + 1000) + 1
        if res.error is not None or res.value != want:
            fail('C12', 'retry-in-recurrent', case, f'value={res.value!r} error={res.error!r}', f'value={want}')
        await settle(obs, 'retry-in-recurrent', case)


async def recurrent_overlapped():
    """two overlapping runs of one chart with a recurrent subgraph, one of them re-iterating while the other is still ahead
    of the subgraph: the additional_data of one run never reaches the other (C08, C11)"""
    counter = itertools.count(8000000)
    for k_a, k_b, slow_b in itertools.product((1, 2), (0, 1), (0.01, 0.03)):
        N_CASES[0] += 1
        tag = f'v{next(counter)}'
        obs = Obs()
        dest_calls = {}
        want_k = {1: k_a, 2: k_b}

        class In(ProcessorBase):
            name = f'{tag}_in'

            async def process(self, x: int) -> int:
                return x

        class Pre(ProcessorBase):
            name = f'{tag}_pre'

            async def process(self, v: Input(In)) -> int:
                await asyncio.sleep(slow_b if RUN_KEY.get() == 2 else 0)
                return v

        class S(ProcessorBase):
            name = f'{tag}_s'

            async def process(self, v: Input(Pre), additional_data: t.Optional[int] = None) -> int:
                obs.calls.append((RUN_KEY.get(), 'S', dict(additional_data=additional_data)))
                await asyncio.sleep(0.004)
                return 100 + v + (additional_data or 0)

        class R(RecurrentProcessor):
            name = f'{tag}_r'
            use_default = True

            async def process(self, m: Input(S)) -> int:
                k = RUN_KEY.get()
                dest_calls[k] = dest_calls.get(k, 0) + 1
                await asyncio.sleep(0.004)
                if dest_calls[k] <= want_k[k]:
                    return self.next_iteration(k * 1000 + dest_calls[k])
                return m

            def get_default(self, **kw):
                return 777

        class Out(ProcessorBase):
            name = f'{tag}_out'

            async def process(self, r: RecurrentSubGraph(start_node=S, dest_node=R, max_iterations=3)) -> int:
                return r

        chart = PipelineChart(f'bounded_{tag}', build_dag(In, Out))
        _ = len(chart.entrypoint.graph.nodes)
        results = await asyncio.gather(run_keyed(chart, 1, obs), run_keyed(chart, 2, obs))
        for key, (kind, res) in zip((1, 2), results):
            case = f'overlapped runs: run 1 re-iterates {k_a}x, run 2 {k_b}x and is {slow_b} s late into the subgraph (run {key})'
            if kind != 'done':
                fail('C02' if kind == 'hung' else 'C05', 'recurrent-overlapped', case, kind, 'the run completes')
                continue
            datas = [kw['additional_data'] for k, _n, kw in obs.calls if k == key]
            want = [None] + [key * 1000 + i for i in range(1, want_k[key] + 1)]
            value = 100 + key + (want[-1] or 0)
            for prop_ in ('C08', 'C11'):
                if datas != want:
                    fail(prop_, 'recurrent-overlapped', case, f'start node of this run received additional_data={datas}', want)
                if res.error is not None or res.value != value:
                    fail(prop_, 'recurrent-overlapped', case, f'value={res.value!r} error={res.error!r}', f'value={value}')
        await settle(obs, 'recurrent-overlapped', 'two overlapped runs')


async def modes():
    """execution modes (C17): the same pipeline with a node run as coroutine / in the thread pool / inline (non_async) gives the
    same result; without the pool it needs, a run fails fast: RuntimeError result, no node body invoked, even when the node
    has a default; a pool that was shut down counts as missing"""
    from concurrent.futures import ThreadPoolExecutor
    from ml_pipeline_engine.node import NodeTag
    from ml_pipeline_engine.parallelism import threads_pool_registry, process_pool_registry
    counter = itertools.count(6000000)

    def reset(reg):
        try:
            reg.shutdown()
        except Exception:   # noqa: BLE001
            pass
        reg._pool_executor = None

    def make(tag, mode, use_default, invoked):
        class In(ProcessorBase):
            name = f'{tag}_in'

            async def process(self, x: int) -> int:
                invoked.append('In')
                return x

        if mode == 'coroutine':
            class Mid(ProcessorBase):
                name = f'{tag}_mid'

                async def process(self, v: Input(In)) -> int:
                    invoked.append('Mid')
                    return v * 2
        else:
            class Mid(ProcessorBase):
                name = f'{tag}_mid'
                tags = {'thread': (), 'non_async': (NodeTag.non_async,), 'process': (NodeTag.process,)}[mode]

                def process(self, v: Input(In)) -> int:
                    invoked.append('Mid')
                    return v * 2
        Mid.use_default = use_default
        Mid.get_default = lambda self, **kw: -1

        class Side(ProcessorBase):
            name = f'{tag}_side'

            async def process(self, v: Input(In)) -> int:
                invoked.append('Side')
                return v + 100

        class Out(ProcessorBase):
            name = f'{tag}_out'

            async def process(self, m: Input(Mid), s: Input(Side)) -> int:
                invoked.append('Out')
                return m + s
        return In, Out

    for mode in ('coroutine', 'thread', 'non_async'):
        reset(threads_pool_registry)
        threads_pool_registry.register_pool_executor(ThreadPoolExecutor(max_workers=2))
        N_CASES[0] += 1
        tag = f'm{next(counter)}'
        invoked = []
        In, Out = make(tag, mode, False, invoked)
        kind, res = await run_keyed(PipelineChart(f'bounded_{tag}', build_dag(In, Out)), 7, Obs())
        if kind != 'done' or res.error is not None or res.value != 7 * 2 + 107:
            fail('C17', 'modes', f'middle node run as {mode}, pool registered', f'{kind}: {res!r}', 'value=121 error=None in every mode')
    # modes that use no pool give the same result whatever the registries hold (nothing registered, or a pool shut down)
    for mode, state in itertools.product(('coroutine', 'non_async'), ('never registered', 'shut down')):
        reset(threads_pool_registry)
        reset(process_pool_registry)
        if state == 'shut down':
            threads_pool_registry.register_pool_executor(ThreadPoolExecutor(max_workers=1))
            threads_pool_registry.shutdown()
        N_CASES[0] += 1
        tag = f'm{next(counter)}'
        invoked = []
        In, Out = make(tag, mode, False, invoked)
        kind, res = await run_keyed(PipelineChart(f'bounded_{tag}', build_dag(In, Out)), 7, Obs())
        if kind != 'done' or res.error is not None or res.value != 7 * 2 + 107:
            fail('C17', 'modes', f'middle node run as {mode} (uses no pool), thread pool {state}', f'{kind}: {res!r}',
                 'value=121 error=None: no mode in use needs a pool')
    for mode, state in itertools.product(('thread', 'process'), ('never registered', 'shut down')):
        if mode == 'process' and state == 'shut down':
            continue            # would need a real process pool
        for use_default in (False, True):
            reset(threads_pool_registry)
            reset(process_pool_registry)
            if state == 'shut down':
                threads_pool_registry.register_pool_executor(ThreadPoolExecutor(max_workers=1))
                threads_pool_registry.shutdown()
            N_CASES[0] += 1
            tag = f'm{next(counter)}'
            invoked = []
            In, Out = make(tag, mode, use_default, invoked)
            case = f'{mode} node, pool {state}, use_default={use_default}'
            try:
                chart = PipelineChart(f'bounded_{tag}', build_dag(In, Out))
            except Exception as e:   # noqa: BLE001
                fail('C17', 'modes', case, f'build failed: {type(e).__name__}: {e}', 'builds')
                continue
            kind, res = await run_keyed(chart, 7, Obs())
            ok = kind == 'done' and res.value is None and isinstance(res.error, RuntimeError) and not invoked
            if not ok:
                fail('C17', 'modes', case, f'{kind}: value={getattr(res, "value", None)!r} error={getattr(res, "error", res)!r} invoked={invoked}',
                     'fails fast: RuntimeError result, no node body invoked')
    reset(threads_pool_registry)
    reset(process_pool_registry)


# ----------------------------------------------------------------------------------------------------------------------
# collaborators that raise, callers that cancel (C02, C13)
# ----------------------------------------------------------------------------------------------------------------------
class CollabError(Exception):
    pass


async def collab():
    counter = itertools.count(9000000)
    wanted = {'chain', 'rhombus', 'oneof', 'switch', 'shared'}
    for tname, spec in acyclic_templates():
        if tname not in wanted:
            continue
        order = topo(spec)
        delays = {n: 0.002 * (i + 1) for i, n in enumerate(order)}
        nid_of = lambda tag_, n: f'processor__{tag_}_{n}'.lower()
        sites = [('event', 'pipeline_start', None), ('event', 'pipeline_complete', None)]
        for n in order:
            sites += [('event', 'node_start', n), ('event', 'node_complete', n), ('save', None, n)]
        for kind_, ev_, node_ in sites:
            for failing in ([frozenset()] + ([frozenset(['A'])] if 'A' in spec else [])):
                N_CASES[0] += 1
                tag = f'k{next(counter)}'
                obs = Obs()
                cfg = dict(failing=failing, label='l0', delays=delays)
                cls = materialise(spec, tag, obs, cfg)
                Events0, Store0 = collaborators(obs)
                target = nid_of(tag, node_) if node_ else None

                class Events(Events0):
                    async def on_pipeline_start(self, ctx):
                        await Events0.on_pipeline_start(self, ctx)
                        if kind_ == 'event' and ev_ == 'pipeline_start':
                            raise CollabError('pipeline_start')

                    async def on_pipeline_complete(self, ctx, result):
                        await Events0.on_pipeline_complete(self, ctx, result)
                        if kind_ == 'event' and ev_ == 'pipeline_complete':
                            raise CollabError('pipeline_complete')

                    async def on_node_start(self, ctx, node_id):
                        await Events0.on_node_start(self, ctx, node_id)
                        if kind_ == 'event' and ev_ == 'node_start' and node_id == target:
                            raise CollabError(f'node_start {node_id}')

                    async def on_node_complete(self, ctx, node_id, error):
                        await Events0.on_node_complete(self, ctx, node_id, error)
                        if kind_ == 'event' and ev_ == 'node_complete' and node_id == target:
                            raise CollabError(f'node_complete {node_id}')

                class Store(Store0):
                    async def save(self, node_id, data):
                        await Store0.save(self, node_id, data)
                        if kind_ == 'save' and node_id == target:
                            raise CollabError(f'save {node_id}')

                chart = PipelineChart(f'bounded_{tag}', build_dag(cls['In'], cls['Out']), artifact_store=Store, event_managers=[Events])
                case = f'{kind_} {ev_ or ""} {node_ or ""} raises; failing={sorted(failing)}'
                kind, res = await run_keyed(chart, 1, obs)
                if kind == 'hung':
                    fail('C02', f'collaborator-failure/{tname}', case, 'PipelineChart.run still pending after 3 s with an idle loop',
                         'the run terminates when an event manager or the artifact store raises')
                elif kind == 'raised' and not isinstance(res, CollabError):
                    fail('C05', f'collaborator-failure/{tname}', case, f'run raised {type(res).__name__}: {res}',
                         'a result, or the collaborator\'s own exception')
                await settle(obs, f'collaborator-failure/{tname}', case)
        # the caller cancels the run
        for at in (0.0, 0.001, 0.003, 0.006, 0.012, 0.02):
            N_CASES[0] += 1
            tag = f'k{next(counter)}'
            obs = Obs()
            cfg = dict(failing=frozenset(), label='l0', delays=delays)
            cls = materialise(spec, tag, obs, cfg)
            Events, Store = collaborators(obs)
            chart = PipelineChart(f'bounded_{tag}', build_dag(cls['In'], cls['Out']), artifact_store=Store, event_managers=[Events])
            case = f'caller cancels the run {at} s after starting it'

            async def go():
                RUN_KEY.set(1)
                return await chart.run(input_kwargs=dict(x=1))
            task = asyncio.ensure_future(go())
            await asyncio.sleep(at)
            already = task.done()
            task.cancel()
            done, _ = await asyncio.wait({task}, timeout=3.0)
            obs.ended.add(1)
            if not done:
                fail('C13', f'cancellation/{tname}', case, 'the cancelled run did not finish within 3 s', 'cancelling a run never hangs')
                continue
            if not already:
                try:
                    task.result()
                    if not task.cancelled():
                        pass        # the run had just finished: fine
                except asyncio.CancelledError:
                    pass
                except BaseException as e:   # noqa
                    fail('C13', f'cancellation/{tname}', case, f'the canceller got {type(e).__name__}: {e}', 'CancelledError only')
            await settle(obs, f'cancellation/{tname}', case)


# ----------------------------------------------------------------------------------------------------------------------
def _job(job):
    kind, arg = job
    if kind == 'acyclic':
        asyncio.run(acyclic({arg}))
    elif kind == 'retry':
        asyncio.run(retry())
        asyncio.run(retry_overlapped())
    elif kind == 'collab':
        asyncio.run(collab())
    elif kind == 'modes':
        asyncio.run(modes())
    else:
        asyncio.run(recurrent())
        asyncio.run(retry_in_recurrent())
        asyncio.run(recurrent_overlapped())
    return FAILURES, N_CASES[0]


def main():
    only = sys.argv[sys.argv.index('--only') + 1] if '--only' in sys.argv else None
    t0 = time.time()
    jobs = []
    if only in (None, 'acyclic'):
        jobs += [('acyclic', i) for i in range(len(acyclic_templates()))]
    if only in (None, 'retry'):
        jobs.append(('retry', None))
    if only in (None, 'recurrent'):
        jobs.append(('recurrent', None))
    if only in (None, 'collab'):
        jobs.append(('collab', None))
    if only in (None, 'modes'):
        jobs.append(('modes', None))
    failures, cases = [], 0
    import concurrent.futures as cf
    import multiprocessing as mp
    with cf.ProcessPoolExecutor(max_workers=min(len(jobs), 8), mp_context=mp.get_context('fork')) as ex:
        for fl, n in ex.map(_job, jobs):
            failures += fl
            cases += n
    result = dict(harness='bounded/engine.py', bound=BOUND, cases=cases, failures=failures, wall_s=round(time.time() - t0, 1))
    if '--json' in sys.argv:
        with open(sys.argv[sys.argv.index('--json') + 1], 'w') as f:
            json.dump(result, f, indent=1, default=str)
    print(f'bounded/engine.py: {cases} cases, {len(failures)} failures, {result["wall_s"]} s')
    seen = set()
    for f_ in failures:
        sig = (f_['property'], f_['template'], f_['observed'][:50])
        if sig not in seen and len(seen) < 14:
            seen.add(sig)
            print('  ', f_)
    sys.exit(1 if failures else 0)


if __name__ == '__main__':
    main()
