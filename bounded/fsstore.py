"""
BOUNDED stand-in for the filesystem artifact store (C18) — never counted as proved.

Runs the real FileSystemArtifactStore (under /venv's interpreter, PYTHONPATH = the tree being checked) in a temporary
directory on a bounded family of operation sequences and compares every outcome with a write-once map keyed exactly by
(model name, pipeline id, node id), kept in a Python dict.

Bound (stated in the evidence): every sequence of 1..3 operations over
  2 contexts (two pipeline ids under one artifact_dir and model name) x 6 node ids ('n', 'n.x', 'n.json', 'a*', '[n]', '')
  x save(value, format) with 2 formats and 6 values (a dict, '', 0, None, a value only pickle can store, a string that can be
    serialised but not encoded) | load
restricted to sequences that touch at most 2 distinct (context, id) keys (the single-key sequences of length >= 2 also with two
live store objects per context taking turns), plus the failed-save-then-save/load sequences for
every failing (value, format) pair.

usage: /venv/bin/python bounded/fsstore.py [--json FILE]
"""
import asyncio
import itertools
import json
import shutil
import sys
import tempfile
import warnings

from ml_pipeline_engine.artifact_store.enums import DataFormat
from ml_pipeline_engine.artifact_store.errors import ArtifactAlreadyExists, ArtifactDoesNotExist
from ml_pipeline_engine.artifact_store.store.filesystem import FileSystemArtifactStore

warnings.simplefilter('ignore')


class Ctx:
    def __init__(self, pid):
        self.model_name, self.pipeline_id = 'model', pid


IDS = ('n', 'n.x', 'n.json', 'a*', '[n]', '')
ONLY_PICKLE = {1, 2}                       # a set: picklable, not JSON
NOT_ENCODABLE = 'caf\ud800'               # json.dumps(ensure_ascii=False) accepts it, utf-8 encoding refuses it
VALUES = ({'k': [1, 2]}, '', 0, None, ONLY_PICKLE, NOT_ENCODABLE)
FORMATS = (DataFormat.PICKLE, DataFormat.JSON)


def storable(value, fmt):
    if fmt == DataFormat.JSON:
        return value is not ONLY_PICKLE and value is not NOT_ENCODABLE
    return True


def ops():
    out = [('load', None, None)]
    for v in range(len(VALUES)):
        for f in FORMATS:
            out.append(('save', v, f))
    return out


def sequences():
    keys = [(c, i) for c in (0, 1) for i in IDS]
    single = ops()
    seen = 0
    # all sequences of length <= 3 over at most 2 keys; to keep the family small the second key is either the same id in the
    # other context or another id in the same context
    for k1 in keys:
        partners = [k1, (1 - k1[0], k1[1])] + [(k1[0], i) for i in IDS if i != k1[1]]
        for n in (1, 2, 3):
            for combo in itertools.product(single, repeat=n):
                # prune: at most one load per sequence position pattern to bound the size
                if sum(1 for o in combo if o[0] == 'save') > 2:
                    continue
                for assign in itertools.product(range(2), repeat=n):
                    if n > 1 and assign[0] != 0:
                        continue
                    for k2 in partners[1:3] if any(assign) else [k1]:
                        yield [(k1 if a == 0 else k2, o) for a, o in zip(assign, combo)]
                        seen += 1


async def run_sequence(seq, root, failures, two_objects=False):
    # two_objects: every context has two live store objects (as two components of one process would hold them); the steps
    # alternate between them, starting with the second one -- the map is keyed by (model, pipeline, node), not by the object
    objs = {c: [FileSystemArtifactStore(Ctx(f'pipe{c}'), root) for _ in range(2 if two_objects else 1)] for c in (0, 1)}
    if two_objects:
        for c in (0, 1):          # the second object has looked at the directory before anything was saved
            try:
                await objs[c][1].load('never-saved')
            except ArtifactDoesNotExist:
                pass
    model = {}
    for step, ((c, node_id), (op, vi, fmt)) in enumerate(seq):
        stores = {c_: o[(step + 1) % len(o)] for c_, o in objs.items()}
        key = (c, node_id)
        desc = lambda: ' ; '.join(f"ctx{k[0]}.{o[0]}({k[1]!r}" + (f', {VALUES[o[1]]!r}, {o[2].value})' if o[0] == 'save' else ')')
                                   for k, o in seq[:step + 1])
        if op == 'save':
            value = VALUES[vi]
            try:
                await stores[c].save(node_id, value, fmt)
                outcome = 'ok'
            except ArtifactAlreadyExists:
                outcome = 'exists'
            except BaseException as e:   # noqa
                outcome = f'error:{type(e).__name__}'
            if key in model:
                want = 'exists'
            elif storable(value, fmt):
                want = 'ok'
                model[key] = value
            else:
                want = 'error'
            if want == 'error' and not outcome.startswith('error'):
                failures.append(dict(property='C18', template='filesystem store', case=desc(), observed=outcome,
                                     expected='the save fails (value not representable in this format)'))
            elif want != 'error' and outcome != want:
                failures.append(dict(property='C18', template='filesystem store', case=desc(), observed=outcome,
                                     expected={'ok': 'the save succeeds (the key was never saved)',
                                               'exists': 'ArtifactAlreadyExists (write-once)'}[want]))
                return
        else:
            try:
                got = ('value', await stores[c].load(node_id))
            except ArtifactDoesNotExist:
                got = ('missing', None)
            except BaseException as e:   # noqa
                got = (f'error:{type(e).__name__}', None)
            want = ('value', model[key]) if key in model else ('missing', None)
            same = got[0] == want[0] and (got[0] != 'value' or got[1] == want[1] or (isinstance(want[1], set) and got[1] == want[1]))
            if not same:
                failures.append(dict(property='C18', template='filesystem store', case=desc(), observed=repr(got)[:200],
                                     expected=repr(want)[:200]))
                return


async def main_async():
    failures, n = [], 0
    seen = set()
    for seq in sequences():
        sig = repr(seq)
        if sig in seen:
            continue
        seen.add(sig)
        n += 1
        root = tempfile.mkdtemp(prefix='pyvc_fs_')
        try:
            await run_sequence(seq, root, failures)
        finally:
            shutil.rmtree(root, ignore_errors=True)
        if len(seq) >= 2 and len({k for k, _o in seq}) == 1:
            n += 1
            root = tempfile.mkdtemp(prefix='pyvc_fs_')
            n0 = len(failures)
            try:
                await run_sequence(seq, root, failures, two_objects=True)
            finally:
                shutil.rmtree(root, ignore_errors=True)
            for f_ in failures[n0:]:
                f_['case'] = 'two store objects per context, steps alternating between them: ' + f_['case']
        if len(failures) > 200:
            break
    # ---- the model name may be an Enum member: the key is its *value*
    import enum

    class ModelsV1(enum.Enum):
        SCORING = 'model'

    class ModelsV2(enum.Enum):
        SCORING = 'model-v2'

    class ECtx:
        def __init__(self, model_name, pid):
            self.model_name, self.pipeline_id = model_name, pid
    for fmt in FORMATS:
        n += 1
        root = tempfile.mkdtemp(prefix='pyvc_fs_')
        try:
            s_enum = FileSystemArtifactStore(ECtx(ModelsV1.SCORING, 'pipe0'), root)
            s_str = FileSystemArtifactStore(ECtx('model', 'pipe0'), root)
            s_other = FileSystemArtifactStore(ECtx(ModelsV2.SCORING, 'pipe0'), root)
            await s_enum.save('n', {'k': 1}, fmt)
            try:
                got = await s_str.load('n')
            except BaseException as e:   # noqa
                got = f'{type(e).__name__}'
            if got != {'k': 1}:
                failures.append(dict(property='C18', template='filesystem store', case=f'save under Enum model name (value "model"), load under the string "model" ({fmt.value})',
                                     observed=repr(got), expected="{'k': 1}: the key is the model name, i.e. the member's value"))
            try:
                await s_other.load('n')
                failures.append(dict(property='C18', template='filesystem store', case=f'two Enum classes with the same member name, different values ({fmt.value})',
                                     observed='the other model sees the value', expected='ArtifactDoesNotExist (distinct keys never alias)'))
            except ArtifactDoesNotExist:
                pass
            except BaseException as e:   # noqa
                failures.append(dict(property='C18', template='filesystem store', case=f'two Enum classes, same member name ({fmt.value})',
                                     observed=type(e).__name__, expected='ArtifactDoesNotExist'))
        finally:
            shutil.rmtree(root, ignore_errors=True)
    return n, failures


def main():
    n, failures = asyncio.run(main_async())
    result = dict(harness='bounded/fsstore.py', bound='sequences of <= 3 operations (<= 2 saves) over 2 contexts x 6 node ids x '
                  '(save of 6 values in 2 formats | load), touching at most 2 keys; single-key sequences also with two live store objects per context taking turns', cases=n, failures=failures)
    if '--json' in sys.argv:
        with open(sys.argv[sys.argv.index('--json') + 1], 'w') as f:
            json.dump(result, f, indent=1, default=str)
    print(f'bounded/fsstore.py: {n} cases, {len(failures)} failures')
    for f_ in failures[:8]:
        print('  ', f_)
    sys.exit(1 if failures else 0)


if __name__ == '__main__':
    main()
