"""
BOUNDED stand-in for the annotation builder (C15, C16, C17 pool flags) — never counted as proved.

Used when a sidecar contract of the builder no longer fits the code it is anchored in (a refactoring changed the
representation the invariants talk about): the verifier then cannot decide the function, and this harness runs the *real*
`build_dag` (under /venv's interpreter, PYTHONPATH = the tree being checked) on a bounded family of declaration sets and
compares the outcome with what the property statement demands.

Bound (stated in the evidence): the 16 program templates below (every mark kind, shared and nested constructs, up to 9
node classes), all parameter orders of their multi-parameter nodes (at most 24 per template), and for C16 every
single-defect mutation (8 defect kinds) at every node position the defect kind is applicable to.

Known findings of the unchanged tree are outside the family on purpose (they have their own obligations and demos):
two parameters of one node bound to the same source (C15), a referenced object that is not a class (C16).

usage: /venv/bin/python bounded/builder.py [--json FILE]      exit 0 = all cases as demanded, 1 = some case fails
"""
import itertools
import json
import sys
import typing as t

from ml_pipeline_engine.dag_builders.annotation import build_dag
from ml_pipeline_engine.dag_builders.annotation import errors as berr
from ml_pipeline_engine.dag_builders.annotation.marks import (GenericInput, Input, InputGeneric, InputOneOf,
                                                                RecurrentSubGraph, SwitchCase)
from ml_pipeline_engine.node import ProcessorBase, RecurrentProcessor
from ml_pipeline_engine.node.errors import RunMethodExpectedError

import logging
logging.disable(logging.CRITICAL)


# ----------------------------------------------------------------------------------------------------------------------
# program descriptions
#   spec: name -> dict(params=[(pname, mark)], rec=False)
#   mark: ('raw',) | ('in', X) | ('sw', decider, [(label, X), ...], name_or_None) | ('oneof', [X, ...]) | ('rec', start, dest, n)
#         | ('addl',)   (the additional_data parameter of a recurrent start node)
# ----------------------------------------------------------------------------------------------------------------------
def P(**nodes):
    return {k: dict(params=list(v[0]) if v else [], rec=bool(v[1]) if len(v) > 1 else False) for k, v in nodes.items()}


def templates():
    out = []
    raw = [('x', ('raw',))]
    out.append(('chain', P(In=(raw,), A=([('a', ('in', 'In'))],), B=([('b', ('in', 'A'))],), Out=([('o', ('in', 'B'))],)), 'In', 'Out'))
    out.append(('rhombus', P(In=(raw,), A=([('a', ('in', 'In'))],), B=([('b', ('in', 'In'))],),
                             Out=([('p', ('in', 'A')), ('q', ('in', 'B'))],)), 'In', 'Out'))
    out.append(('leaf-without-marks', P(In=(raw,), L=([],), A=([('a', ('in', 'In'))],),
                                        Out=([('p', ('in', 'L')), ('q', ('in', 'A'))],)), 'In', 'Out'))
    out.append(('switch-unnamed', P(In=(raw,), D=([('d', ('in', 'In'))],), A=([('a', ('in', 'In'))],), B=([('b', ('in', 'In'))],),
                                    Out=([('p', ('sw', 'D', [('a', 'A'), ('b', 'B')], None))],)), 'In', 'Out'))
    out.append(('switch-named', P(In=(raw,), D=([('d', ('in', 'In'))],), A=([('a', ('in', 'In'))],), B=([('b', ('in', 'In'))],),
                                  Out=([('p', ('sw', 'D', [('a', 'A'), ('b', 'B')], 'my_switch'))],)), 'In', 'Out'))
    out.append(('oneof', P(In=(raw,), A=([('a', ('in', 'In'))],), B=([('b', ('in', 'In'))],), C=([],),
                           Out=([('p', ('oneof', ['A', 'B', 'C']))],)), 'In', 'Out'))
    out.append(('recurrent', P(In=(raw,), S=([('s', ('in', 'In')), ('additional_data', ('addl',))],), M=([('m', ('in', 'S'))],),
                               R=([('r', ('in', 'M'))], True), Out=([('p', ('rec', 'S', 'R', 3))],)), 'In', 'Out'))
    out.append(('mixed-parameters', P(In=(raw,), D=([('d', ('in', 'In'))],), A=([('a', ('in', 'In'))],), B=([('b', ('in', 'In'))],),
                                      C=([('c', ('in', 'In'))],), E=([('e', ('in', 'In'))],),
                                      Out=([('p', ('in', 'E')), ('q', ('sw', 'D', [('a', 'A'), ('b', 'B')], None)),
                                            ('r', ('oneof', ['C', 'A']))],)), 'In', 'Out'))
    out.append(('two-unnamed-switches-one-decider', P(
        In=(raw,), D=([('d', ('in', 'In'))],), A=([('a', ('in', 'In'))],), B=([('b', ('in', 'In'))],),
        C=([('c', ('in', 'In'))],), E=([('e', ('in', 'In'))],),
        Out=([('p', ('sw', 'D', [('a', 'A'), ('b', 'B')], None)), ('q', ('sw', 'D', [('a', 'C'), ('b', 'E')], None))],)), 'In', 'Out'))
    out.append(('switch-in-two-consumers', P(
        In=(raw,), D=([('d', ('in', 'In'))],), A=([('a', ('in', 'In'))],), B=([('b', ('in', 'In'))],),
        X=([('p', ('sw', 'D', [('a', 'A'), ('b', 'B')], None))],), Y=([('q', ('sw', 'D', [('a', 'B'), ('b', 'A')], None))],),
        Out=([('x', ('in', 'X')), ('y', ('in', 'Y'))],)), 'In', 'Out'))
    out.append(('oneof-candidate-with-switch', P(
        In=(raw,), D=([('d', ('in', 'In'))],), A=([('a', ('in', 'In'))],), B=([('b', ('in', 'In'))],),
        Cand=([('p', ('sw', 'D', [('a', 'A'), ('b', 'B')], None))],), Fb=([('f', ('in', 'In'))],),
        Out=([('v', ('oneof', ['Cand', 'Fb']))],)), 'In', 'Out'))
    out.append(('nested-oneof', P(
        In=(raw,), A=([('a', ('in', 'In'))],), B=([('b', ('in', 'In'))],), C=([('c', ('in', 'In'))],),
        Inner=([('i', ('oneof', ['A', 'B']))],), Out=([('v', ('oneof', ['Inner', 'C']))],)), 'In', 'Out'))
    out.append(('switch-inside-recurrent', P(
        In=(raw,), S=([('s', ('in', 'In')), ('additional_data', ('addl',))],), D=([('d', ('in', 'S'))],),
        A=([('a', ('in', 'S'))],), B=([('b', ('in', 'S'))],),
        R=([('r', ('sw', 'D', [('a', 'A'), ('b', 'B')], None))], True), Out=([('p', ('rec', 'S', 'R', 2))],)), 'In', 'Out'))
    out.append(('two-recurrent-subgraphs-one-start (siblings)', P(
        In=(raw,), S=([('s', ('in', 'In')), ('additional_data', ('addl',))],),
        L=([('l', ('in', 'S'))], True), R=([('r', ('in', 'S'))], True),
        Out=([('p', ('rec', 'S', 'L', 2)), ('q', ('rec', 'S', 'R', 3))],)), 'In', 'Out'))
    out.append(('two-recurrent-subgraphs-one-start (nested)', P(
        In=(raw,), S=([('s', ('in', 'In')), ('additional_data', ('addl',))],),
        Inner=([('i', ('in', 'S'))], True), Mid=([('m', ('rec', 'S', 'Inner', 2))],),
        Outer=([('o', ('in', 'Mid'))], True), Out=([('p', ('rec', 'S', 'Outer', 3))],)), 'In', 'Out'))
    out.append(('shared-subtree', P(
        In=(raw,), A=([('a', ('in', 'In'))],), B=([('b', ('in', 'A'))],), C=([('c', ('in', 'A'))],),
        E=([('e1', ('in', 'B')), ('e2', ('in', 'C'))],), Out=([('o1', ('in', 'E')), ('o2', ('in', 'A'))],)), 'In', 'Out'))
    out.append(('output-is-the-input (one class)', P(In=(raw,)), 'In', 'In'))
    return out


DEFECTS = ('nonclass-output', 'nobase', 'noprocess', 'unannotated', 'noannotations', 'generic-InputGeneric', 'generic-GenericInput',
           'rec-dest-without-protocol', 'rec-start-without-additional_data')
EXPECT = {
    'nonclass-output': berr.IncorrectTypeClass, 'nobase': berr.IncorrectBaseClass, 'noprocess': RunMethodExpectedError,
    'unannotated': berr.UndefinedParamAnnotation, 'noannotations': berr.UndefinedAnnotation,
    'generic-InputGeneric': berr.NonRedefinedGenericTypeError, 'generic-GenericInput': berr.NonRedefinedGenericTypeError,
    'rec-dest-without-protocol': berr.IncorrectRecurrentMixinClass,
    'rec-start-without-additional_data': berr.IncorrectParamsRecurrentNode,
}


# ----------------------------------------------------------------------------------------------------------------------
# turning a description into real classes
# ----------------------------------------------------------------------------------------------------------------------
class Materialised:
    def __init__(self, spec, tag, defect=None, at=None, modes=None):
        self.spec, self.tag, self.defect, self.at = spec, tag, defect, at
        self.modes = modes or {}          # name -> 'thread' (sync node) | 'process' (sync node with the process tag)
        self.cls = {}
        order = self._topo()
        for name in order:
            self.cls[name] = self._make(name)

    def _refs(self, name):
        for _p, m in self.spec[name]['params']:
            if m[0] == 'in':
                yield m[1]
            elif m[0] == 'sw':
                yield m[1]
                for _l, x in m[2]:
                    yield x
            elif m[0] == 'oneof':
                yield from m[1]
            elif m[0] == 'rec':
                yield m[1]
                yield m[2]

    def _topo(self):
        seen, out = set(), []

        def visit(n):
            if n in seen:
                return
            seen.add(n)
            for r in self._refs(n):
                visit(r)
            out.append(n)
        for n in self.spec:
            visit(n)
        return out

    def _ann(self, mark):
        k = mark[0]
        if k == 'raw':
            return int
        if k == 'addl':
            return t.Optional[int]
        if k == 'in':
            return Input(self.cls[mark[1]])
        if k == 'sw':
            return SwitchCase(self.cls[mark[1]], [(lab, self.cls[x]) for lab, x in mark[2]], name=mark[3])
        if k == 'oneof':
            return InputOneOf([self.cls[x] for x in mark[1]])
        if k == 'rec':
            return RecurrentSubGraph(self.cls[mark[1]], self.cls[mark[2]], mark[3])
        raise ValueError(mark)

    def _make(self, name):
        d = self.spec[name]
        defect = self.defect if self.at == name else None
        params = list(d['params'])
        ns = {}
        names, anns = [], {}
        for p, m in params:
            if defect == 'rec-start-without-additional_data' and m[0] == 'addl':
                continue
            names.append(p + (' = None' if m[0] == 'addl' else ''))
            anns[p] = self._ann(m)
        if defect == 'unannotated':
            names.append('extra_unannotated')
            if not anns:
                anns['return'] = int          # some annotation must exist for this defect to be *this* defect
        if defect in ('generic-InputGeneric', 'generic-GenericInput'):
            names.append('generic_param')
            target = self.cls[next(iter(self.cls))] if self.cls else int
            anns['generic_param'] = (InputGeneric if defect == 'generic-InputGeneric' else GenericInput)(target)
        if defect == 'noannotations':
            names, anns = ['unannotated_only'], {}
        kw = 'def' if self.modes.get(name) else 'async def'
        src = f"{kw} process(self, *, {', '.join(names)}):\n    return 0\n" if names else f"{kw} process(self):\n    return 0\n"
        exec(src, ns)                                     # noqa: S102  (generated from the fixed templates above)
        fn = ns['process']
        fn.__annotations__ = dict(anns)
        if defect != 'noannotations' and 'return' not in fn.__annotations__ and defect != 'unannotated':
            fn.__annotations__['return'] = int
        base = RecurrentProcessor if d['rec'] else ProcessorBase
        if defect == 'rec-dest-without-protocol':
            base = ProcessorBase
        body = dict(name=f'{self.tag}_{name}'.lower(), process=fn, __module__='bounded_builder')
        if self.modes.get(name) in ('process', 'inline', 'inline+process'):
            from ml_pipeline_engine.node import NodeTag
            body['tags'] = {'process': (NodeTag.process,), 'inline': (NodeTag.non_async,),
                            'inline+process': (NodeTag.process, NodeTag.non_async)}[self.modes[name]]
        if defect == 'nobase':
            return type(name, (), body)
        if defect == 'noprocess':
            body['process'] = None
        if d['rec'] or defect == 'rec-dest-without-protocol':
            body['use_default'] = True
            body['get_default'] = lambda self, **kw: 0
        return type(name, (base,), body)


# ----------------------------------------------------------------------------------------------------------------------
# what C15 demands of the built graph (computed from the description alone)
# ----------------------------------------------------------------------------------------------------------------------
def node_id(m, name):
    return f'processor__{m.tag}_{name}'.lower()


def reachable(spec, inp, out):
    seen, order = set(), [out]
    real_edges, implicit, switches, oneofs, recs = [], [], [], [], []
    while order:
        x = order.pop()
        if x in seen:
            continue
        seen.add(x)
        marks = [(p, m) for p, m in spec[x]['params'] if m[0] in ('in', 'sw', 'oneof', 'rec')]
        if not marks and x != inp:
            implicit.append(x)
            order.append(inp)
        for idx, (p, m) in enumerate(marks):
            if m[0] == 'in':
                real_edges.append((m[1], x, p))
                order.append(m[1])
            elif m[0] == 'sw':
                switches.append((x, p, m[1], list(m[2]), m[3]))
                order.append(m[1])
                order.extend(c for _l, c in m[2])
            elif m[0] == 'oneof':
                oneofs.append((x, p, idx, list(m[1])))
                order.extend(m[1])
            elif m[0] == 'rec':
                recs.append((x, p, m[1], m[2], m[3]))
                order.append(m[2])
    return seen, real_edges, implicit, switches, oneofs, recs


def check_c15(m, dag, inp, out):
    """returns a list of discrepancies between the built DAG and the declared relation"""
    g = dag.graph
    bad = []
    seen, real_edges, implicit, switches, oneofs, recs = reachable(m.spec, inp, out)
    nid = lambda n: node_id(m, n)
    real_ids = {nid(n) for n in seen}
    got_real = {n for n in g.nodes if n in dag.node_map}
    if set(dag.node_map) != real_ids:
        bad.append(f'node map keys {sorted(dag.node_map)} != declared reachable classes {sorted(real_ids)}')
    for n in seen:
        if dag.node_map.get(nid(n)) is not m.cls[n]:
            bad.append(f'node map does not resolve {nid(n)} to its class')
    synthetic = [n for n in g.nodes if n not in real_ids]
    if len(synthetic) != len(switches) + len(oneofs):
        bad.append(f'{len(synthetic)} synthetic nodes for {len(switches)} switch and {len(oneofs)} one-of parameters: {sorted(synthetic)}')
    if not real_ids <= set(g.nodes):
        bad.append(f'declared classes missing from the graph: {sorted(real_ids - set(g.nodes))}')
    if dag.input_node != nid(inp) or dag.output_node != nid(out):
        bad.append('wrong end points')
    expected_edges = {}
    for s, x, p in real_edges:
        expected_edges[(nid(s), nid(x))] = {'kwarg_name': p}
    for x in implicit:
        expected_edges[(nid(inp), nid(x))] = {}
    for x, p, s, d, n in recs:
        expected_edges[(nid(d), nid(x))] = {'kwarg_name': p}
        attrs = g.nodes.get(nid(d), {})
        if attrs.get('start_node') != nid(s) or attrs.get('max_iterations') != n:
            bad.append(f'recurrent destination {nid(d)} carries {attrs}, expected start={nid(s)} max_iterations={n}')
    used_synth = set()
    for x, p, decider, cases, _name in switches:
        preds = [u for u in g.predecessors(nid(x)) if g.edges[u, nid(x)].get('kwarg_name') == p] if nid(x) in g else []
        if len(preds) != 1 or preds[0] in real_ids:
            bad.append(f'parameter {p} of {nid(x)}: expected one synthetic switch source, got {preds}')
            continue
        s = preds[0]
        used_synth.add(s)
        if not g.nodes[s].get('is_switch'):
            bad.append(f'{s} is not marked as a switch node')
        want = {(nid(decider), s): {'is_switch': True}}
        for lab, c in cases:
            want[(nid(c), s)] = {'case_branch': lab}
        got = {(u, s): dict(g.edges[u, s]) for u in g.predecessors(s)}
        if got != want:
            bad.append(f'switch node of parameter {p} of {nid(x)}: in-edges {got} != declared {want}')
        if [v for v in g.successors(s)] != [nid(x)] and len(switches) == len({(sw[2], tuple(sw[3]), sw[4]) for sw in switches}):
            # (a mark object shared by several consumers may share its node; distinct marks may not)
            bad.append(f'switch node {s} of parameter {p} of {nid(x)} also delivers to {sorted(g.successors(s))}')
        expected_edges[(s, nid(x))] = {'kwarg_name': p}
        for u in want:
            expected_edges[u] = want[u]
    for x, p, _idx, cands in oneofs:
        preds = [u for u in g.predecessors(nid(x)) if g.edges[u, nid(x)].get('kwarg_name') == p] if nid(x) in g else []
        if len(preds) != 1 or preds[0] in real_ids:
            bad.append(f'parameter {p} of {nid(x)}: expected one synthetic one-of source, got {preds}')
            continue
        h = preds[0]
        used_synth.add(h)
        a = g.nodes[h]
        if not a.get('is_oneof') or list(a.get('oneof_nodes') or []) != [nid(c) for c in cands]:
            bad.append(f'one-of head {h}: attributes {a}, expected candidates {[nid(c) for c in cands]} in declared order')
        want = {(nid(inp), h): {}}
        for c in cands:
            want[(nid(c), h)] = {}
            if not g.nodes.get(nid(c), {}).get('is_oneof_child'):
                bad.append(f'candidate {nid(c)} is not marked as a one-of candidate')
        got = {(u, h): dict(g.edges[u, h]) for u in g.predecessors(h)}
        if got != want:
            bad.append(f'one-of head of parameter {p} of {nid(x)}: in-edges {got} != declared {want}')
        expected_edges[(h, nid(x))] = {'kwarg_name': p}
        expected_edges.update(want)
    got_edges = {(u, v): dict(d) for u, v, d in g.edges(data=True)}
    if got_edges != expected_edges:
        extra = {k: v for k, v in got_edges.items() if expected_edges.get(k) != v}
        missing = {k: v for k, v in expected_edges.items() if got_edges.get(k) != v}
        bad.append(f'edges differ from the declared dependencies: unexpected {extra}; missing {missing}')
    return bad


def canonical(m, dag):
    """the graph with synthetic ids replaced by what identifies them (consumer, parameter): for order-independence"""
    g = dag.graph
    ren = {}
    for n in g.nodes:
        if n not in dag.node_map:
            outs = sorted((v, g.edges[n, v].get('kwarg_name')) for v in g.successors(n))
            ren[n] = f'synthetic{outs}'
    r = lambda n: ren.get(n, n)
    nodes = sorted((r(n), sorted((k, str([r(x) for x in v]) if k == 'oneof_nodes' else str(v)) for k, v in d.items()))
                   for n, d in g.nodes(data=True))
    edges = sorted((r(u), r(v), sorted((k, str(x)) for k, x in d.items())) for u, v, d in g.edges(data=True))
    return nodes, edges


# ----------------------------------------------------------------------------------------------------------------------
def permutations_of(spec, limit=24):
    multi = [n for n, d in spec.items() if len(d['params']) > 1]
    variants = [list(itertools.permutations(range(len(spec[n]['params'])))) for n in multi]
    out = []
    for combo in itertools.islice(itertools.product(*variants), limit):
        s = {n: dict(params=list(d['params']), rec=d['rec']) for n, d in spec.items()}
        for n, perm in zip(multi, combo):
            s[n]['params'] = [spec[n]['params'][i] for i in perm]
        out.append(s)
    return out or [spec]


def applicable(spec, inp, out, defect):
    seen, *_ = reachable(spec, inp, out)
    if defect == 'nonclass-output':
        return [out]
    if defect == 'rec-dest-without-protocol':
        return [n for n in seen if spec[n]['rec']]
    if defect == 'rec-start-without-additional_data':
        return [n for n in seen if any(m[0] == 'addl' for _p, m in spec[n]['params'])]
    if defect == 'noannotations':
        return sorted(seen)
    return sorted(seen)


def main():
    failures, n_cases = [], 0
    counter = itertools.count()
    for tname, spec, inp, out in templates():
        canon = None
        for vi, variant in enumerate(permutations_of(spec)):
            tag = f't{next(counter)}'
            n_cases += 1
            try:
                m = Materialised(variant, tag)
                dag = build_dag(input_node=m.cls[inp], output_node=m.cls[out])
            except Exception as e:   # noqa: BLE001
                failures.append(dict(property='C16', template=tname, variant=vi, case='valid program',
                                     observed=f'{type(e).__name__}: {e}', expected='builds successfully'))
                continue
            for b in check_c15(m, dag, inp, out):
                failures.append(dict(property='C15', template=tname, variant=vi, case='faithful translation', observed=b,
                                     expected='exactly the declared dependency relation'))
            c = canonical(m, dag)
            c = json.dumps(c).replace(tag + '_', '')
            if canon is None:
                canon = c
            elif canon != c:
                failures.append(dict(property='C15', template=tname, variant=vi, case='declaration-order independence',
                                     observed='a permutation of the parameters gives a different graph',
                                     expected='the same graph for every parameter order'))
        for defect in DEFECTS:
            for at in applicable(spec, inp, out, defect):
                tag = f't{next(counter)}'
                n_cases += 1
                want = EXPECT[defect]
                try:
                    m = Materialised(spec, tag, defect, at)
                    o = 5 if defect == 'nonclass-output' else m.cls[out]
                    build_dag(input_node=m.cls[inp], output_node=o)
                    failures.append(dict(property='C16', template=tname, case=f'{defect} at {at}', observed='a DAG was returned',
                                         expected=want.__name__))
                except want:
                    pass
                except Exception as e:   # noqa: BLE001
                    failures.append(dict(property='C16', template=tname, case=f'{defect} at {at}',
                                         observed=f'{type(e).__name__}: {e}', expected=want.__name__))
    # ---- C17: the pool flags of the built DAG say exactly which pools its nodes need
    from ml_pipeline_engine.dag_builders.annotation import build_dag_single
    for tname, spec, inp, out in templates():
        seen_nodes, *_ = reachable(spec, inp, out)
        names = sorted(seen_nodes)
        # 'inline' = a sync node tagged non_async: run_node executes it in the loop thread, it uses no pool (also when it carries
        # the process tag as well: non_async is looked at first)
        variants = [{}] + [{n: m} for n in names for m in ('thread', 'process', 'inline', 'inline+process')] \
            + [{names[0]: 'thread', names[-1]: 'process'}, {n: 'inline' for n in names}]
        for modes in variants:
            tag = f't{next(counter)}'
            n_cases += 1
            try:
                m = Materialised(spec, tag, modes=modes)
                dag = build_dag(input_node=m.cls[inp], output_node=m.cls[out])
            except Exception as e:   # noqa: BLE001
                failures.append(dict(property='C17', template=tname, case=f'sync nodes {modes}', observed=f'{type(e).__name__}: {e}',
                                     expected='builds successfully'))
                continue
            want_thr = any(v == 'thread' for k, v in modes.items() if k in seen_nodes)
            want_proc = any(v == 'process' for k, v in modes.items() if k in seen_nodes)
            if (bool(dag.is_thread_pool_needed), bool(dag.is_process_pool_needed)) != (want_thr, want_proc):
                failures.append(dict(property='C17', template=tname, case=f'sync nodes {modes}',
                                     observed=f'is_thread_pool_needed={dag.is_thread_pool_needed} is_process_pool_needed={dag.is_process_pool_needed}',
                                     expected=f'is_thread_pool_needed={want_thr} is_process_pool_needed={want_proc}'))
    for mode in (None, 'thread', 'process', 'inline'):
        tag = f't{next(counter)}'
        n_cases += 1
        m = Materialised(P(Only=([('x', ('raw',))],)), tag, modes={'Only': mode} if mode else {})
        dag = build_dag_single(m.cls['Only'])
        if (bool(dag.is_thread_pool_needed), bool(dag.is_process_pool_needed)) != (mode == 'thread', mode == 'process'):
            failures.append(dict(property='C17', template='single node', case=f'build_dag_single of a {mode or "coroutine"} node',
                                 observed=f'is_thread_pool_needed={dag.is_thread_pool_needed} is_process_pool_needed={dag.is_process_pool_needed}',
                                 expected=f'is_thread_pool_needed={mode == "thread"} is_process_pool_needed={mode == "process"}'))
    # the switch structure is also what C09 needs from the builder
    failures += [dict(f_, property='C09') for f_ in failures if f_['property'] == 'C15' and 'switch' in str(f_['observed']).lower()]
    # ... and a DAG that is not the declared relation breaks what the run-time properties take from the builder: the
    # arguments a node gets (C03), the errors a run can report (C05), the one-of and recurrent structure (C10, C11)
    failures += [dict(f_, property=p_) for f_ in list(failures) if f_['property'] == 'C15' for p_ in ('C03', 'C05', 'C10', 'C11')]
    result = dict(harness='bounded/builder.py', bound='17 templates (<= 9 node classes, every mark kind, shared and nested '
                  'constructs) x parameter orders (<= 24 each) x single-defect mutations (9 kinds, every applicable position); pool flags: every '
                  'template x every node as a thread / process / inline (non_async) / inline+process node, all nodes inline, and single-node builds',
                  cases=n_cases, failures=failures)
    if '--json' in sys.argv:
        with open(sys.argv[sys.argv.index('--json') + 1], 'w') as f:
            json.dump(result, f, indent=1)
    print(f'bounded/builder.py: {n_cases} cases, {len(failures)} failures')
    for f_ in failures[:12]:
        print('  ', f_)
    sys.exit(1 if failures else 0)


if __name__ == '__main__':
    main()
