"""
BOUNDED stand-in for the viewer's graph description (C20) — never counted as proved.

Builds real DAGs with the real `build_dag` from the templates of bounded/builder.py (every mark kind), with node classes that
vary in declared type (built-in, user-defined incl. one that starts like a built-in one, none), name / verbose name and with
generic nodes made by `build_node` whose names differ from their base, and compares `GraphConfigImpl(dag).generate(...)` with
the DAG: one node entry per graph node in graph order (synthetic ones virtual and typed by their id prefix, real ones with
their declared type, name, verbose name, generic flag), one edge entry per graph edge with source / target / id, the type
table = the set of types of the nodes, JSON round trip, and the DAG left untouched.

Bound: 17 templates x 5 decorations of the node classes; node names free of '->' (colliding edge ids for such names are a
recorded known finding).

usage: /venv/bin/python bounded/viewer.py [--json FILE]
"""
import copy
import os
import importlib.resources
import json
import sys
import types

sys.modules.setdefault('importlib_resources', importlib.resources)
if 'distutils' not in sys.modules:
    try:
        import distutils.dir_util    # noqa: F401
    except Exception:   # noqa: BLE001
        d = types.ModuleType('distutils')
        du = types.ModuleType('distutils.dir_util')
        du.copy_tree = lambda *a, **k: None
        d.dir_util = du
        sys.modules['distutils'] = d
        sys.modules['distutils.dir_util'] = du

from ml_pipeline_engine.dag_builders.annotation import build_dag           # noqa: E402
from ml_pipeline_engine.node import build_node                             # noqa: E402
from ml_pipeline_viewer.visualization.dag import GraphConfigImpl          # noqa: E402

from bounded.builder import templates                                      # noqa: E402

import logging                                                             # noqa: E402
import warnings                                                            # noqa: E402
logging.disable(logging.CRITICAL)
warnings.simplefilter('ignore')

DECORATIONS = ('plain', 'user-types', 'untyped-and-verbose', 'generic', 'two-generic-siblings')
BUILTIN_PREFIXES = ('processor', 'datasource', 'feature', 'ml_model', 'switch', 'input_one_of', 'generic')


def topo(spec):
    seen, out = set(), []

    def refs(n):
        for _p, m in spec[n]['params']:
            if m[0] == 'in':
                yield m[1]
            elif m[0] == 'sw':
                yield m[1]
                yield from (x for _l, x in m[2])
            elif m[0] == 'oneof':
                yield from m[1]
            elif m[0] == 'rec':
                yield m[1]
                yield m[2]

    def visit(n):
        if n in seen:
            return
        seen.add(n)
        for r in refs(n):
            visit(r)
        out.append(n)
    for n in spec:
        visit(n)
    return out


def ann_src(mark):
    k = mark[0]
    if k == 'raw':
        return 'int'
    if k == 'addl':
        return 't.Optional[int]'
    if k == 'in':
        return f'Input({mark[1]})'
    if k == 'sw':
        cases = ', '.join(f'({lab!r}, {x})' for lab, x in mark[2])
        return f'SwitchCase({mark[1]}, [{cases}], name={mark[3]!r})'
    if k == 'oneof':
        return f'InputOneOf([{", ".join(mark[1])}])'
    if k == 'rec':
        return f'RecurrentSubGraph({mark[1]}, {mark[2]}, {mark[3]})'
    raise ValueError(mark)


class Module:
    """the node classes of a template as a real module on disk (the viewer reads source locations with `inspect`)"""

    def __init__(self, spec, tag, how, root):
        import importlib.util
        lines = ['import typing as t', 'from ml_pipeline_engine.node import ProcessorBase, RecurrentProcessor',
                 'from ml_pipeline_engine.dag_builders.annotation.marks import Input, InputOneOf, RecurrentSubGraph, SwitchCase', '']
        order = topo(spec)
        for i, n in enumerate(order):
            d = spec[n]
            base = 'RecurrentProcessor' if d['rec'] else 'ProcessorBase'
            lines.append(f'class {n}({base}):')
            lines.append(f'    """node {n}"""')
            lines.append(f"    name = '{tag}_{n}'.lower()")
            if how == 'user-types':
                lines.append(f"    node_type = {('processor_gpu', 'my_kind', 'switch_like')[i % 3]!r}")
            if how == 'untyped-and-verbose':
                if i % 2:
                    lines.append('    node_type = None')
                lines.append(f"    verbose_name = 'Verbose {n}'")
            if d['rec']:
                lines.append('    use_default = True')
                lines.append('    def get_default(self, **kw):\n        return 0')
            params = ', '.join(f'{p}: {ann_src(m)}' + (' = None' if m[0] == 'addl' else '') for p, m in d['params'])
            lines.append(f'    async def process(self{", *, " + params if params else ""}) -> int:')
            lines.append('        return 0')
            lines.append('')
        self.path = os.path.join(root, f'bounded_viewer_{tag}.py')
        with open(self.path, 'w') as f:
            f.write('\n'.join(lines))
        spec_ = importlib.util.spec_from_file_location(f'bounded_viewer_{tag}', self.path)
        mod = importlib.util.module_from_spec(spec_)
        sys.modules[spec_.name] = mod
        spec_.loader.exec_module(mod)
        self.cls = {n: getattr(mod, n) for n in order}
        self.tag = tag


def main():
    import tempfile
    failures, n_cases = [], 0
    counter = 0
    root = tempfile.mkdtemp(prefix='pyvc_viewer_')
    for tname, spec, inp, out in templates():
        for how in DECORATIONS:
            counter += 1
            n_cases += 1
            tag = f'w{counter}'
            case = f'{tname} / {how}'
            try:
                m = Module(spec, tag, how, root)
                if how == 'generic':
                    # replace the output class by a generic node built from it, with its own name and verbose name
                    base = m.cls[out]
                    m.cls[out] = build_node(base, node_name=f'{tag}_generic_out', class_name=f'Generic{tag}Out',
                                            attrs={'verbose_name': 'A generic output'})
                if how == 'two-generic-siblings':
                    # two generic nodes made from one base class, with their own names, both consumed by a new output node
                    from ml_pipeline_engine.node import ProcessorBase
                    from ml_pipeline_engine.dag_builders.annotation.marks import Input
                    base = m.cls[out]
                    g1 = build_node(base, node_name=f'{tag}_first', class_name=f'Generic{tag}First', attrs={'verbose_name': 'First sibling'})
                    g2 = build_node(base, node_name=f'{tag}_second', class_name=f'Generic{tag}Second', attrs={'verbose_name': 'Second sibling'})

                    # the new output class has to live in a real file as well (the viewer reads source locations)
                    import importlib.util
                    fin_path = os.path.join(root, f'bounded_viewer_fin_{tag}.py')
                    with open(fin_path, 'w') as f:
                        f.write('from ml_pipeline_engine.node import ProcessorBase\n\n\n'
                                f'class Fin(ProcessorBase):\n    """fin"""\n    name = \'{tag}_fin\'\n\n'
                                '    async def process(self, *, a, b):\n        return 0\n')
                    spec_ = importlib.util.spec_from_file_location(f'bounded_viewer_fin_{tag}', fin_path)
                    mod_ = importlib.util.module_from_spec(spec_)
                    sys.modules[spec_.name] = mod_
                    spec_.loader.exec_module(mod_)
                    mod_.Fin.process.__annotations__ = {'a': Input(g1), 'b': Input(g2), 'return': int}
                    m.cls[out] = mod_.Fin
                dag = build_dag(input_node=m.cls[inp], output_node=m.cls[out])
                before = (copy.deepcopy(dict(dag.graph.nodes(data=True))), list(dag.graph.edges(data=True)), dict(dag.node_map))
                cfg = GraphConfigImpl(dag).generate(name='bounded')
            except Exception as e:   # noqa: BLE001
                failures.append(dict(property='C20', template=tname, case=case, observed=f'{type(e).__name__}: {e}',
                                     expected='a graph description'))
                continue
            g = dag.graph
            ids = list(g.nodes)
            if [n.id for n in cfg.nodes] != ids:
                failures.append(dict(property='C20', template=tname, case=case, observed=f'node ids {[n.id for n in cfg.nodes]}',
                                     expected=f'one entry per graph node in graph order: {ids}'))
                continue
            types_seen = []
            for entry in cfg.nodes:
                cls = dag.node_map.get(entry.id)
                if cls is None:
                    want_type = next((p for p in ('switch', 'input_one_of') if entry.id.startswith(p)), None)
                    ok = entry.is_virtual and entry.data is None and entry.type == want_type and not entry.is_generic
                    if not ok:
                        failures.append(dict(property='C20', template=tname, case=case,
                                             observed=f'synthetic {entry.id}: virtual={entry.is_virtual} type={entry.type} data={entry.data}',
                                             expected=f'virtual, no data, type {want_type}'))
                    if entry.type is not None:
                        types_seen.append(entry.type)
                else:
                    want = (cls.node_type, cls.name, cls.verbose_name, 'generic' in cls.__name__.lower())
                    got = (entry.type, entry.data.name if entry.data else None, entry.data.verbose_name if entry.data else None,
                           entry.is_generic)
                    if entry.is_virtual or got != want:
                        failures.append(dict(property='C20', template=tname, case=case,
                                             observed=f'{entry.id}: virtual={entry.is_virtual} (type, name, verbose, generic)={got}',
                                             expected=f'not virtual, {want}'))
                    if cls.node_type is not None:
                        types_seen.append(cls.node_type)
            want_edges = [(u, v) for u, v in g.edges]
            got_edges = [(e.source, e.target) for e in cfg.edges]
            if got_edges != want_edges or any(e.id != f'{e.source}->{e.target}' for e in cfg.edges) \
                    or len({e.id for e in cfg.edges}) != len(cfg.edges):
                failures.append(dict(property='C20', template=tname, case=case, observed=f'edges {got_edges[:6]}...',
                                     expected='one entry per graph edge, in graph order, with unique source->target ids'))
            if set(cfg.node_types) != set(types_seen) or any(k != v.name for k, v in cfg.node_types.items()):
                failures.append(dict(property='C20', template=tname, case=case, observed=f'type table {sorted(map(str, cfg.node_types))}',
                                     expected=f'exactly the types of the nodes: {sorted(set(map(str, types_seen)))}'))
            try:
                json.loads(json.dumps(cfg.as_dict()))
            except Exception as e:   # noqa: BLE001
                failures.append(dict(property='C20', template=tname, case=case, observed=f'not JSON-serialisable: {e}',
                                     expected='as_dict() round-trips through JSON'))
            after = (dict(dag.graph.nodes(data=True)), list(dag.graph.edges(data=True)), dict(dag.node_map))
            if after != before:
                failures.append(dict(property='C20', template=tname, case=case, observed='the DAG changed while it was described',
                                     expected='the DAG is not modified'))
    import shutil
    shutil.rmtree(root, ignore_errors=True)
    result = dict(harness='bounded/viewer.py', bound='17 templates x 5 decorations of the node classes (plain, user-defined types incl. one '
                  'starting like a built-in one, untyped / verbose names, generic output node with its own names, two generic siblings of one base)', cases=n_cases,
                  failures=failures)
    if '--json' in sys.argv:
        with open(sys.argv[sys.argv.index('--json') + 1], 'w') as f:
            json.dump(result, f, indent=1, default=str)
    print(f'bounded/viewer.py: {n_cases} cases, {len(failures)} failures')
    for f_ in failures[:8]:
        print('  ', f_)
    sys.exit(1 if failures else 0)


if __name__ == '__main__':
    main()
