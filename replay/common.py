"""helpers for the committed demonstrations of known findings / fixed defects (run with /venv/bin/python, PYTHONPATH=/repo)"""
import asyncio
import sys
import typing as t

from ml_pipeline_engine.chart import PipelineChart
from ml_pipeline_engine.dag_builders.annotation import build_dag
from ml_pipeline_engine.node import ProcessorBase, RecurrentProcessor   # noqa: F401
from ml_pipeline_engine.dag_builders.annotation.marks import Input, InputOneOf, SwitchCase, RecurrentSubGraph  # noqa: F401


import logging
logging.disable(logging.CRITICAL)


def chart(input_node, output_node, **kw):
    return PipelineChart('replay', build_dag(input_node, output_node), **kw)


async def run_with_watchdog(coro, seconds=3.0):
    """returns ('done', result) | ('raised', exc) | ('hung', None)"""
    task = asyncio.ensure_future(coro)
    done, _pending = await asyncio.wait({task}, timeout=seconds)
    if not done:
        task.cancel()
        try:
            await task
        except BaseException:
            pass
        return 'hung', None
    try:
        return 'done', task.result()
    except BaseException as e:   # noqa
        return 'raised', e


def verdict(reproduced: bool, what: str):
    print(('REPRODUCED: ' if reproduced else 'NOT REPRODUCED: ') + what)
    sys.exit(0 if reproduced else 1)
