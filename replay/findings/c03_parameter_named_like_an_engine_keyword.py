"""C03 / C05: a node whose declared parameter is called node_id, node or force_default can never be invoked.  The engine passes
the node's keyword arguments through its own helpers as **kwargs next to keyword parameters of exactly these names
(__execute_node(node_id=..., force_default=..., **kwargs), run_node(**kwargs, node=..., node_id=...)): the call fails with
"got multiple values for keyword argument" and this TypeError -- an artefact of the engine, raised by no node -- is what the
run reports."""
import asyncio
import sys
from replay.common import *

PARAM = sys.argv[1] if len(sys.argv) > 1 else 'node_id'


class Inp(ProcessorBase):
    name = 'inp'

    async def process(self, x: int) -> int:
        return x


ns = dict(ProcessorBase=ProcessorBase, Input=Input, Inp=Inp)
exec(f'''
class Out(ProcessorBase):
    name = 'out'

    async def process(self, {PARAM}: Input(Inp)) -> int:
        return {PARAM} + 1
''', ns)


async def main():
    k, r = await run_with_watchdog(chart(Inp, ns['Out']).run(input_kwargs=dict(x=1)), 2.0)
    got = (r.value, type(r.error).__name__ if r.error else None) if k == 'done' else k
    verdict(got != (2, None), f'a parameter named {PARAM!r}: expected the value 2, got {got} ({getattr(r, "error", None)!r})'[:300])

asyncio.run(main())
