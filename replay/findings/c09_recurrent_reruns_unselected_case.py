"""C09 / C11: the recurrent subgraph is cut out of the unfiltered graph, so on re-iteration the nodes of a *non-selected*
switch case inside the subgraph are executed (first iteration: only the selected case runs)."""
import asyncio
from replay.common import *

ran = []


class Start(RecurrentProcessor):
    name = 'start'

    async def process(self, x: int, additional_data: t.Optional[int] = None) -> int:
        return x if additional_data is None else additional_data


class Decider(ProcessorBase):
    name = 'decider'

    async def process(self, v: Input(Start)) -> str:
        return 'a'


class CaseA(ProcessorBase):
    name = 'case_a'

    async def process(self, v: Input(Start)) -> int:
        ran.append('case_a')
        return v


class CaseB(ProcessorBase):
    name = 'case_b'

    async def process(self, v: Input(Start)) -> int:
        ran.append('case_b')
        return -v


class Dest(RecurrentProcessor):
    name = 'dest'

    async def process(self, p: SwitchCase(Decider, [('a', CaseA), ('b', CaseB)], name='p')) -> int:
        if p < 5:
            return self.next_iteration(10)
        return p


class Out(ProcessorBase):
    name = 'out'

    async def process(self, v: RecurrentSubGraph(start_node=Start, dest_node=Dest, max_iterations=2)) -> int:
        return v


async def main():
    k, r = await run_with_watchdog(chart(Start, Out).run(input_kwargs=dict(x=1)), 3.0)
    print(k, getattr(r, 'value', r), getattr(r, 'error', None), ran)
    verdict('case_b' in ran, f'the non-selected case ran: {ran}')

asyncio.run(main())
