"""C02 / C10: a node of a one-of candidate's sub-pipeline fails three hops above the candidate
(Fail -> M0 -> M1 -> Cand).  _run_dag's early exit wakes the successors of the node it did not launch (M0 -> M1), nobody
wakes the one-of, which waits on the candidate's condition: the run hangs although the second candidate could win."""
import asyncio
from replay.common import *


class Inp(ProcessorBase):
    name = 'inp'

    async def process(self, x: int) -> int:
        return x


class Fail(ProcessorBase):
    name = 'fail'

    async def process(self, x: Input(Inp)) -> int:
        raise RuntimeError('boom')


class M0(ProcessorBase):
    name = 'm0'

    async def process(self, x: Input(Fail)) -> int:
        return x


class M1(ProcessorBase):
    name = 'm1'

    async def process(self, x: Input(M0)) -> int:
        return x


class Cand(ProcessorBase):
    name = 'cand'

    async def process(self, x: Input(M1)) -> int:
        return x


class Fallback(ProcessorBase):
    name = 'fallback'

    async def process(self, x: Input(Inp)) -> int:
        return 42


class Out(ProcessorBase):
    name = 'out'

    async def process(self, v: InputOneOf([Cand, Fallback])) -> t.Any:
        return v


async def main():
    k, r = await run_with_watchdog(chart(Inp, Out).run(input_kwargs=dict(x=1)), 2.0)
    verdict(k == 'hung', f'{k}: {r!r}')

asyncio.run(main())
