"""C09 / C02: a switch whose selected case label is falsy (0, '', False).  The edge filter of the sub-pipeline views took
the truthiness of the label for "this is a case edge": the case edges of such a label stayed in every view, the case nodes
became ordinary dependencies of the switch node and the run never finished."""
import asyncio
import sys
from replay.common import *

LABEL = {'zero': 0, 'empty': '', 'false': False}[sys.argv[1] if len(sys.argv) > 1 else 'zero']


class Inp(ProcessorBase):
    name = 'inp'

    async def process(self, x: int) -> int:
        return x


class Decide(ProcessorBase):
    name = 'decide'

    async def process(self, x: Input(Inp)) -> t.Any:
        return LABEL


class A(ProcessorBase):
    name = 'a'

    async def process(self, x: Input(Inp)) -> int:
        return 1


class B(ProcessorBase):
    name = 'b'

    async def process(self, x: Input(Inp)) -> int:
        return 2


class Out(ProcessorBase):
    name = 'out'

    async def process(self, v: SwitchCase(Decide, [(LABEL, A), ('other', B)])) -> t.Any:
        return v


async def main():
    k, r = await run_with_watchdog(chart(Inp, Out).run(input_kwargs=dict(x=1)), 2.0)
    verdict(k == 'hung', f'{k}: {r!r}')

asyncio.run(main())
