"""C02 / C09: the selected case of a switch was already computed for another consumer before the switch decided:
the switch's sub-pipeline is empty, nobody notifies the consumer that waits for the switch, the run hangs."""
import asyncio
from replay.common import *


class Inp(ProcessorBase):
    name = 'inp'

    async def process(self, x: int) -> int:
        return x


class Decider(ProcessorBase):
    name = 'decider'

    async def process(self, x: Input(Inp)) -> str:
        await asyncio.sleep(0.1)
        return 'a'


class CaseA(ProcessorBase):
    name = 'case_a'

    async def process(self, x: Input(Inp)) -> int:
        return 7


class Other(ProcessorBase):
    name = 'other'

    async def process(self, v: Input(CaseA)) -> int:
        return v


class Out(ProcessorBase):
    name = 'out'

    async def process(self, p: SwitchCase(Decider, [('a', CaseA)], name='p'), o: Input(Other)) -> int:
        return p + o


async def main():
    k, r = await run_with_watchdog(chart(Inp, Out).run(input_kwargs=dict(x=1)), 2.0)
    verdict(k == 'hung', f'{k}: {r!r}')

asyncio.run(main())
