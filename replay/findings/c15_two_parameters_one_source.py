"""C15: two parameters of one node that are fed by the same source node collapse into one graph edge (a DiGraph has one
edge per ordered pair, add_edge merges the attributes): the first parameter is dropped and the run fails with TypeError."""
import asyncio
from replay.common import *


class Inp(ProcessorBase):
    name = 'inp'

    async def process(self, x: int) -> int:
        return x


class B(ProcessorBase):
    name = 'b'

    async def process(self, x: Input(Inp)) -> int:
        return x + 1


class Out(ProcessorBase):
    name = 'out'

    async def process(self, p: Input(B), q: Input(B)) -> int:
        return p + q


async def main():
    dag = build_dag(Inp, Out)
    edges = [(u, v, d) for u, v, d in dag.graph.edges(data=True) if v.endswith('out')]
    k, r = await run_with_watchdog(PipelineChart('replay', dag).run(input_kwargs=dict(x=1)))
    print(edges, k, getattr(r, 'value', None), repr(getattr(r, 'error', r)))
    verdict(len(edges) == 1 and isinstance(getattr(r, 'error', None), TypeError), 'parameter p was dropped: one edge, TypeError at run time')

asyncio.run(main())
