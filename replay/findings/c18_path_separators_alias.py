"""C18: "distinct keys never alias each other" over arbitrary ids.  The key (model name, pipeline id, node id) is turned into
the path artifact_dir/model/pipeline/<id>.<fmt> by plain joining: components that contain a path separator (or '..') make
distinct keys name the same file."""
import asyncio
import shutil
import sys
import tempfile
import warnings

from ml_pipeline_engine.artifact_store.enums import DataFormat
from ml_pipeline_engine.artifact_store.errors import ArtifactAlreadyExists, ArtifactDoesNotExist
from ml_pipeline_engine.artifact_store.store.filesystem import FileSystemArtifactStore

warnings.simplefilter('ignore')
WHICH = sys.argv[1] if len(sys.argv) > 1 else 'context'


class Ctx:
    def __init__(self, model_name, pipeline_id):
        self.model_name, self.pipeline_id = model_name, pipeline_id


async def main():
    root = tempfile.mkdtemp(prefix='pyvc_c18_')
    try:
        if WHICH == 'context':
            # (model 'm/x', pipeline 'p') and (model 'm', pipeline 'x/p') are distinct keys for the same node id
            a, b = FileSystemArtifactStore(Ctx('m/x', 'p'), root), FileSystemArtifactStore(Ctx('m', 'x/p'), root)
            await a.save('n', 'value of (m/x, p, n)', DataFormat.JSON)
            try:
                got = await b.load('n')
            except ArtifactDoesNotExist:
                got = None
            ok = got is not None
            what = f"load under (m, x/p, n), never saved, returned {got!r}"
        else:
            # node id '../p2/n' in pipeline p1 names the file of node 'n' in pipeline p2
            a, b = FileSystemArtifactStore(Ctx('m', 'p1'), root), FileSystemArtifactStore(Ctx('m', 'p2'), root)
            await b.save('n', 1, DataFormat.JSON)
            try:
                await a.save('../p2/n', 2, DataFormat.JSON)
                got = 'saved'
            except ArtifactAlreadyExists:
                got = 'ArtifactAlreadyExists'
            ok = got == 'ArtifactAlreadyExists'
            what = f"first save under (m, p1, '../p2/n'): {got}"
    finally:
        shutil.rmtree(root, ignore_errors=True)
    print(('REPRODUCED: ' if ok else 'NOT REPRODUCED: ') + what)
    sys.exit(0 if ok else 1)

asyncio.run(main())
