"""C07/C03: when the start node of a recurrent subgraph is the input node, the engine writes `additional_data`
into the caller's own input_kwargs dictionary."""
import asyncio
from replay.common import *


class Start(RecurrentProcessor):
    name = 'start'

    async def process(self, x: int, additional_data: t.Optional[int] = None) -> int:
        return x if additional_data is None else x + additional_data


class Dest(RecurrentProcessor):
    name = 'dest'
    use_default = True

    def get_default(self, **_):
        return -1

    async def process(self, v: Input(Start)) -> int:
        if v < 5:
            return self.next_iteration(10)
        return v


class Out(ProcessorBase):
    name = 'out'

    async def process(self, v: RecurrentSubGraph(start_node=Start, dest_node=Dest, max_iterations=2)) -> int:
        return v


async def main():
    ch = chart(Start, Out)
    mine = dict(x=1)
    kind, res = await run_with_watchdog(ch.run(input_kwargs=mine))
    verdict('additional_data' in mine, f'caller dict after the run: {mine!r} ({kind}: {res!r})')

asyncio.run(main())
