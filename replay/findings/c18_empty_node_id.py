"""C18: "load returns a value equal to what was saved under exactly that key" for the node id ''.  The file is named
'.json' / '.pickle'; pathlib gives such a dot-file no suffix, and load() chose the serializer by Path.suffix: the saved value
was on disk but load raised SerializerInitializationError."""
import asyncio
import shutil
import sys
import tempfile
import warnings

from ml_pipeline_engine.artifact_store.enums import DataFormat
from ml_pipeline_engine.artifact_store.store.filesystem import FileSystemArtifactStore

warnings.simplefilter('ignore')


class Ctx:
    model_name, pipeline_id = 'm', 'p'


async def main():
    root = tempfile.mkdtemp(prefix='pyvc_c18_')
    out = []
    try:
        for fmt in DataFormat:
            s = FileSystemArtifactStore(Ctx(), f'{root}/{fmt.value}')
            await s.save('', {'v': 1}, fmt)
            try:
                out.append(repr(await s.load('')))
            except BaseException as e:   # noqa
                out.append(f'{type(e).__name__}: {e}')
    finally:
        shutil.rmtree(root, ignore_errors=True)
    ok = out != [repr({'v': 1})] * 2
    print(('REPRODUCED: ' if ok else 'NOT REPRODUCED: ') + f"save('') then load('') in both formats: {out}")
    sys.exit(0 if ok else 1)

asyncio.run(main())
