"""C15: build_dag(input_node=A, output_node=A) -- the output is the input node itself.  The traversal mapped the class but
graph nodes only ever entered the graph as end points of edges: the DAG came back with an empty graph ("one node per declared
node class reachable from the output" fails for the output itself) and every run of it ended with networkx's NodeNotFound."""
import asyncio
from replay.common import *


class Only(ProcessorBase):
    name = 'only'

    async def process(self, x: int) -> int:
        return x + 1


async def main():
    dag = build_dag(Only, Only)
    nodes = list(dag.graph.nodes)
    k, r = await run_with_watchdog(PipelineChart('replay', dag).run(input_kwargs=dict(x=1)), 2.0)
    outcome = (r.value, type(r.error).__name__ if r.error else None) if k == 'done' else k
    verdict(nodes != ['processor__only'] or outcome != (2, None), f'graph nodes {nodes}, node map {sorted(dag.node_map)}, run: {outcome}')

asyncio.run(main())
