"""C19: a node's result is made visible (set_node_result) *before* its artifact is saved.  With a store whose save really
suspends, a run can end (the output result is visible and some other node's notification wakes run()) while the output
node's save is still in flight; run() then cancels it and the artifact of an executed node is never saved."""
import asyncio
from replay.common import *

saved = []
gate_b = None        # created inside the running loop


class SlowStore:
    """no timing involved: the save of b waits until the save of the output node has started, the save of the output node
    never finishes on its own"""

    def __init__(self, ctx, *a, **k):
        self.ctx = ctx

    async def save(self, node_id, data):
        if node_id.endswith('__b'):
            await gate_b.wait()
        elif node_id.endswith('__out'):
            gate_b.set()
            await asyncio.Event().wait()
        saved.append(node_id)

    async def load(self, node_id):
        raise KeyError(node_id)


class Inp(ProcessorBase):
    name = 'inp'

    async def process(self, x: int) -> int:
        return x


class A(ProcessorBase):
    name = 'a'

    async def process(self, x: Input(Inp)) -> int:
        return x + 1


class B(ProcessorBase):
    name = 'b'

    async def process(self, x: Input(Inp)) -> int:
        return x + 2


class Out(ProcessorBase):
    name = 'out'

    async def process(self, a: Input(A), b: Input(B)) -> int:
        return a + b


async def main():
    global gate_b
    gate_b = asyncio.Event()
    k, r = await run_with_watchdog(chart(Inp, Out, artifact_store=SlowStore).run(input_kwargs=dict(x=1)))
    await asyncio.sleep(0.2)
    print(k, getattr(r, 'value', r), getattr(r, 'error', None), saved)
    missing = [n for n in ('processor__inp', 'processor__a', 'processor__b', 'processor__out') if n not in saved]
    verdict(k == 'done' and getattr(r, 'error', 1) is None and bool(missing), f'successful run, artifacts never saved: {missing}')

asyncio.run(main())
