"""C16: declarations the engine cannot execute must be rejected at build time with the specific error.
generic   a node that uses GenericInput(...) (the second spelling of a generic input in marks.py) without rebinding builds
          fine; the parameter is silently dropped and the run fails later with TypeError
nonclass  Input(5): a referenced object that is not a class is rejected with AttributeError from get_node_id instead of
          IncorrectTypeClass"""
import asyncio
import sys
from replay.common import *
from ml_pipeline_engine.dag_builders.annotation.marks import GenericInput
from ml_pipeline_engine.dag_builders.annotation import errors

which = sys.argv[1]


class Inp(ProcessorBase):
    name = 'inp'

    async def process(self, x: int) -> int:
        return x


class UsesGeneric(ProcessorBase):
    name = 'uses_generic'

    async def process(self, v: GenericInput(Inp)) -> int:
        return v


class UsesNonClass(ProcessorBase):
    name = 'uses_non_class'

    async def process(self, v: Input(5)) -> int:
        return v


async def main():
    if which == 'generic':
        try:
            ch = chart(Inp, UsesGeneric)
        except errors.NonRedefinedGenericTypeError:
            verdict(False, 'rejected at build time with NonRedefinedGenericTypeError')
        k, r = await run_with_watchdog(ch.run(input_kwargs=dict(x=1)))
        verdict(True, f'built; run gave {k}: value={getattr(r, "value", None)!r} error={getattr(r, "error", r)!r}')
    try:
        chart(Inp, UsesNonClass)
        verdict(True, 'built a DAG from Input(5)')
    except errors.IncorrectTypeClass:
        verdict(False, 'rejected with IncorrectTypeClass')
    except Exception as e:
        verdict(True, f'rejected with {type(e).__name__}: {e}')

asyncio.run(main())
