"""C05: the cancellation of the engine's own helper task surfaces as the outcome of the run.
A one-of candidate scope fails while a sibling node of the same scope is still running; the scope's early exit
cancels that sibling's task, which stays registered; the RUN wake predicate then calls Task.exception() on it."""
import asyncio
from replay.common import *


class Inp(ProcessorBase):
    name = 'inp'

    async def process(self, x: int) -> int:
        return x


class Fails(ProcessorBase):
    name = 'fails'

    async def process(self, x: Input(Inp)) -> int:
        raise ValueError('boom')


class Slow(ProcessorBase):
    name = 'slow'

    async def process(self, x: Input(Inp)) -> int:
        await asyncio.sleep(0.2)
        return x


class NeedsFails(ProcessorBase):
    name = 'needs_fails'

    async def process(self, a: Input(Fails)) -> int:
        return a


class Cand(ProcessorBase):
    name = 'cand'

    async def process(self, a: Input(NeedsFails), b: Input(Slow)) -> int:
        return a + b


class Fallback(ProcessorBase):
    name = 'fallback'

    async def process(self, x: Input(Inp)) -> int:
        await asyncio.sleep(0.5)
        return 42


class Out(ProcessorBase):
    name = 'out'

    async def process(self, v: InputOneOf([Cand, Fallback])) -> int:
        return v


async def main():
    ch = chart(Inp, Out)
    kind, res = await run_with_watchdog(ch.run(input_kwargs=dict(x=1)))
    if kind == 'raised' and isinstance(res, asyncio.CancelledError):
        verdict(True, 'chart.run raised CancelledError although nobody cancelled it')
    verdict(False, f'{kind}: {res!r}')

asyncio.run(main())
