"""C03 / C10 (also C01, C05): a one-of candidate consumes a switch whose selected case fails.  Inside the candidate's
scope failures are stored as results; the scope's error check looks at the nodes of the scope only, and the case node is
not one of them: the candidate's body is invoked with the exception object as its argument, "succeeds", and the run returns
a value computed from an exception instead of falling back to the next candidate."""
import asyncio
from replay.common import *


class Inp(ProcessorBase):
    name = 'inp'

    async def process(self, x: int) -> int:
        return x


class Decide(ProcessorBase):
    name = 'decide'

    async def process(self, x: Input(Inp)) -> str:
        return 'a'


class CaseA(ProcessorBase):
    name = 'case_a'

    async def process(self, x: Input(Inp)) -> int:
        raise RuntimeError('case a failed')


class CaseB(ProcessorBase):
    name = 'case_b'

    async def process(self, x: Input(Inp)) -> int:
        return 2


RECEIVED = []


class Cand(ProcessorBase):
    name = 'cand'

    async def process(self, v: SwitchCase(Decide, [('a', CaseA), ('b', CaseB)])) -> t.Any:
        RECEIVED.append(v)
        return ('cand', repr(v))


class Fallback(ProcessorBase):
    name = 'fallback'

    async def process(self, x: Input(Inp)) -> t.Any:
        return 'fallback'


class Out(ProcessorBase):
    name = 'out'

    async def process(self, v: InputOneOf([Cand, Fallback])) -> t.Any:
        return v


async def main():
    k, r = await run_with_watchdog(chart(Inp, Out).run(input_kwargs=dict(x=1)), 3.0)
    got_exception = any(isinstance(v, BaseException) for v in RECEIVED)
    verdict(got_exception and k == 'done' and r.value != 'fallback',
            f'{k}: candidate received {RECEIVED!r}; result value={getattr(r, "value", None)!r} error={getattr(r, "error", None)!r}')

asyncio.run(main())
