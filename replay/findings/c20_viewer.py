"""C20: the viewer description.
types   a real node with a user-defined node_type (the documentation's own example uses 'ml_model') makes
        GraphConfigImpl._generate_node_types raise ValueError: no description can be generated for such a pipeline
ids     edge ids 'source->target' collide for node names that contain '->' (4 edges, fewer distinct ids)"""
import asyncio
import sys
import types
sys.modules.setdefault('importlib_resources', types.ModuleType('importlib_resources'))
from replay.common import *
from ml_pipeline_viewer.visualization.dag import GraphConfigImpl

which = sys.argv[1]


class Inp(ProcessorBase):
    name = 'inp'

    def process(self, x: int) -> int:
        return x


class Model(ProcessorBase):
    name = 'model'
    node_type = 'ml_model'

    def process(self, x: Input(Inp)) -> int:
        return x


class A1(ProcessorBase):
    name = 'a->q__r'

    def process(self, x: Input(Inp)) -> int:
        return x


class A2(ProcessorBase):
    name = 'c'

    def process(self, x: Input(A1)) -> int:
        return x


class B1(ProcessorBase):
    name = 'a'

    def process(self, x: Input(Inp)) -> int:
        return x


class B2(ProcessorBase):
    node_type = 'q'
    name = 'r->processor__c'

    def process(self, x: Input(B1)) -> int:
        return x


class Out(ProcessorBase):
    name = 'out'

    def process(self, p: Input(A2), q: Input(B2)) -> int:
        return p + q


if which == 'types':
    dag = build_dag(Inp, Model)
    try:
        cfg = GraphConfigImpl(dag).generate(name='g')
        verdict('ml_model' not in cfg.node_types, f'node types: {sorted(cfg.node_types)}')
    except ValueError as e:
        verdict(True, f'generate() raised {e!r}')
else:
    dag = build_dag(Inp, Out)
    cfg = GraphConfigImpl(dag).generate(name='g')
    ids = [e.id for e in cfg.edges]
    verdict(len(set(ids)) < len(ids), f'{len(ids)} edges, {len(set(ids))} distinct ids: {sorted(ids)}')
