"""C17: a pipeline whose synchronous nodes are all tagged non_async (executed inline by run_node, no pool involved) was
refused with "execution is impossible without a thread pool" when no pool was registered: _is_executor_needed counted every
synchronous node as a pool user.  The same declarations as coroutine nodes run fine in the same registry state."""
import asyncio
from replay.common import *
from ml_pipeline_engine.node.enums import NodeTag


class Inp(ProcessorBase):
    name = 'inp'
    tags = (NodeTag.non_async,)

    def process(self, x: int) -> int:
        return x


class Out(ProcessorBase):
    name = 'out'
    tags = (NodeTag.non_async,)

    def process(self, v: Input(Inp)) -> int:
        return v + 1


async def main():
    dag = build_dag(Inp, Out)
    k, r = await run_with_watchdog(PipelineChart('replay', dag).run(input_kwargs=dict(x=1)), 2.0)
    got = (r.value, type(r.error).__name__ if r.error else None) if k == 'done' else k
    verdict((dag.is_thread_pool_needed, dag.is_process_pool_needed) != (False, False) or got != (2, None),
            f'pool flags (thread, process) = {(dag.is_thread_pool_needed, dag.is_process_pool_needed)}, run without any pool: {got}')

asyncio.run(main())
