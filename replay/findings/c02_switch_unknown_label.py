"""C02 / C09 / C05: a switch node returns a label that matches no case.
(hang) the switch task dies with KeyError and nobody wakes the run: the run never finishes;
(artefact) if something else wakes the run later, the reported error is the engine's own KeyError lookup failure."""
import asyncio
import sys
from replay.common import *

which = sys.argv[1] if len(sys.argv) > 1 else 'hang'


class Inp(ProcessorBase):
    name = 'inp'

    async def process(self, x: int) -> int:
        return x


class Decider(ProcessorBase):
    name = 'decider'

    async def process(self, x: Input(Inp)) -> str:
        return 'no-such-case'


class CaseA(ProcessorBase):
    name = 'case_a'

    async def process(self, x: Input(Inp)) -> int:
        return 1


class Late(ProcessorBase):
    name = 'late'

    async def process(self, x: Input(Inp)) -> int:
        await asyncio.sleep(0.2)
        return 5


class Out(ProcessorBase):
    name = 'out'

    async def process(self, p: SwitchCase(Decider, [('a', CaseA)], name='p')) -> int:
        return p


class Out2(ProcessorBase):
    name = 'out2'

    async def process(self, p: SwitchCase(Decider, [('a', CaseA)], name='p'), l: Input(Late)) -> int:
        return p + l


async def main():
    if which == 'hang':
        k, r = await run_with_watchdog(chart(Inp, Out).run(input_kwargs=dict(x=1)), 2.0)
        verdict(k == 'hung', f'{k}: {r!r}')
    k, r = await run_with_watchdog(chart(Inp, Out2).run(input_kwargs=dict(x=1)), 3.0)
    err = getattr(r, 'error', None)
    verdict(k == 'done' and isinstance(err, KeyError), f'{k}: error={err!r}')

asyncio.run(main())
