"""C15 / C09: SwitchCase(D, [('l0', A), ('l1', A)]) -- two labels select the same node.  Both cases become the single graph
edge (A, switch) and the later label overwrites the earlier one (add_edge merges attributes): the case 'l0' is dropped from
the DAG, and when the switch node decides 'l0' the label "matches no case" and the run hangs."""
import asyncio
from replay.common import *


class Inp(ProcessorBase):
    name = 'inp'

    async def process(self, x: int) -> int:
        return x


class D(ProcessorBase):
    name = 'd'

    async def process(self, v: Input(Inp)) -> str:
        return 'l0'


class A(ProcessorBase):
    name = 'a'

    async def process(self, v: Input(Inp)) -> int:
        return v + 1


class Out(ProcessorBase):
    name = 'out'

    async def process(self, v: SwitchCase(D, [('l0', A), ('l1', A)], name='s')) -> t.Any:
        return v


async def main():
    dag = build_dag(Inp, Out)
    labels = [d.get('case_branch') for u, v, d in dag.graph.edges(data=True) if v == 'switch__s' and d.get('case_branch') is not None]
    k, r = await run_with_watchdog(PipelineChart('replay', dag).run(input_kwargs=dict(x=1)), 2.0)
    got = (r.value, type(r.error).__name__ if r.error else None) if k == 'done' else k
    verdict(sorted(labels) != ['l0', 'l1'] or got != (2, None), f'case labels in the DAG: {labels} (declared l0, l1); run with label l0: {got}')

asyncio.run(main())
