"""C19: with a write-once store every recurrent pipeline that really re-iterates fails.  The nodes of the subgraph were
executed, and saved, before the destination asked for another iteration; the re-iteration executes them again and hands
their new values to the store under the same ids."""
import asyncio
from replay.common import *

saved = {}


class WriteOnce:
    def __init__(self, ctx, *a, **k):
        self.ctx = ctx

    async def save(self, node_id, data):
        if node_id in saved:
            raise RuntimeError(f'artifact {node_id} already exists (had {saved[node_id]!r}, got {data!r})')
        saved[node_id] = data

    async def load(self, node_id):
        return saved[node_id]


class Inp(ProcessorBase):
    name = 'inp'

    async def process(self, x: int) -> int:
        return x


class Start(ProcessorBase):
    name = 'start'

    async def process(self, v: Input(Inp), additional_data: t.Optional[int] = None) -> int:
        return v + (additional_data or 0)


class Dest(RecurrentProcessor):
    name = 'dest'

    async def process(self, v: Input(Start)) -> t.Any:
        if v < 3:
            return self.next_iteration(5)
        return v


class Out(ProcessorBase):
    name = 'out'

    async def process(self, v: RecurrentSubGraph(Start, Dest, 3)) -> int:
        return v


async def main():
    k, r = await run_with_watchdog(chart(Inp, Out, artifact_store=WriteOnce).run(input_kwargs=dict(x=1)), 3.0)
    got = (r.value, repr(r.error)) if k == 'done' else k
    verdict(got != (6, 'None'), f'expected the value 6 and every node saved once; got {got}, saved {saved}'[:300])

asyncio.run(main())
