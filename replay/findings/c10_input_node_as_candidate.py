"""C10: a one-of that lists the pipeline's input node among its candidates ("try A, else fall back to the raw input").  The
builder marks every candidate, the input node included, as an untried one-of child; the run-time views drop such nodes, so the
very first view (input -> output) has no source: the run ends with networkx's NodeNotFound although the first candidate would
succeed."""
import asyncio
import sys
from replay.common import *

ORDER = sys.argv[1] if len(sys.argv) > 1 else 'input-last'


class Inp(ProcessorBase):
    name = 'inp'

    async def process(self, x: int) -> int:
        return x


class A(ProcessorBase):
    name = 'a'

    async def process(self, v: Input(Inp)) -> int:
        return v + 1


class Out(ProcessorBase):
    name = 'out'

    async def process(self, v: InputOneOf([A, Inp] if ORDER == 'input-last' else [Inp, A])) -> t.Any:
        return v


async def main():
    k, r = await run_with_watchdog(chart(Inp, Out).run(input_kwargs=dict(x=1)), 2.0)
    want = 2 if ORDER == 'input-last' else 1
    got = (r.value, type(r.error).__name__ if r.error else None) if k == 'done' else k
    verdict(got != (want, None), f'expected the value {want} of the first candidate, got {got}')

asyncio.run(main())
