"""C07/C08: a run leaves state behind in the DAG's graph attributes.
(a) one-of: the first run clears `is_oneof_child` of the candidates it tried on the *shared* graph, so the second run of the
    same chart sees them as ordinary nodes of the main dag;
(b) recurrent: `additional_data` written for the start node stays on the shared graph and leaks into the next run."""
import asyncio
from replay.common import *

calls = []


class Inp(ProcessorBase):
    name = 'inp'

    async def process(self, x: int) -> int:
        return x


class Bad(ProcessorBase):
    name = 'bad'

    async def process(self, x: Input(Inp)) -> int:
        calls.append('bad')
        raise ValueError('bad candidate')


class Good(ProcessorBase):
    name = 'good'

    async def process(self, x: Input(Inp)) -> int:
        calls.append('good')
        return x + 1


class Out(ProcessorBase):
    name = 'out'

    async def process(self, v: InputOneOf([Bad, Good])) -> int:
        return v


class RStart(RecurrentProcessor):
    name = 'rstart'

    async def process(self, x: Input(Inp), additional_data: t.Optional[int] = None) -> tuple:
        return (x, additional_data)


class RDest(RecurrentProcessor):
    name = 'rdest'

    async def process(self, v: Input(RStart)) -> tuple:
        if v[1] is None:
            return self.next_iteration(v[0] * 100)
        return v


class ROut(ProcessorBase):
    name = 'rout'

    async def process(self, v: RecurrentSubGraph(start_node=RStart, dest_node=RDest, max_iterations=3)) -> tuple:
        return v


async def main():
    ch = chart(Inp, Out)
    graph = ch.entrypoint.graph
    before = {n: dict(d) for n, d in graph.nodes(data=True)}
    k1, r1 = await run_with_watchdog(ch.run(input_kwargs=dict(x=1)))
    after = {n: dict(d) for n, d in graph.nodes(data=True)}
    k2, r2 = await run_with_watchdog(ch.run(input_kwargs=dict(x=1)))
    one_of_leak = before != after
    ch2 = chart(Inp, ROut)
    g2 = ch2.entrypoint.graph
    b2 = {n: dict(d) for n, d in g2.nodes(data=True)}
    await run_with_watchdog(ch2.run(input_kwargs=dict(x=1)))
    a2 = {n: dict(d) for n, d in g2.nodes(data=True)}
    k3, r3 = await run_with_watchdog(ch2.run(input_kwargs=dict(x=2)))
    rec_leak = b2 != a2
    print('one-of  run1:', k1, getattr(r1, 'value', r1), getattr(r1, 'error', None), '| run2:', k2, getattr(r2, 'value', r2), getattr(r2, 'error', None))
    print('recurrent run2 value:', getattr(r3, 'value', r3))
    verdict(one_of_leak or rec_leak, f'graph attributes changed by a run: one-of={one_of_leak} recurrent={rec_leak}')

asyncio.run(main())
