"""C19: what a configured artifact store receives.  A recording write-once store observes
(1) an intermediate Recurrent marker saved as a node's artifact, (2) a contained one-of failure saved as an artifact,
(3) a node saved twice because a second scope requested it while it was running (late arrival)."""
import asyncio
import sys
from replay.common import *
from ml_pipeline_engine.types import Recurrent

which = sys.argv[1] if len(sys.argv) > 1 else 'all'
saves = []


class RecordingStore:
    def __init__(self, ctx, *a, **k):
        self.ctx = ctx

    async def save(self, node_id, data):
        saves.append((node_id, data))

    async def load(self, node_id):
        raise KeyError(node_id)


class Inp(ProcessorBase):
    name = 'inp'

    async def process(self, x: int) -> int:
        return x


# (1) recurrent marker
class RStart(RecurrentProcessor):
    name = 'rstart'

    async def process(self, x: Input(Inp), additional_data: t.Optional[int] = None) -> int:
        return x if additional_data is None else additional_data


class RDest(RecurrentProcessor):
    name = 'rdest'

    async def process(self, v: Input(RStart)) -> int:
        if v < 5:
            return self.next_iteration(10)
        return v


class ROut(ProcessorBase):
    name = 'rout'

    async def process(self, v: RecurrentSubGraph(start_node=RStart, dest_node=RDest, max_iterations=3)) -> int:
        return v


# (2) contained failure
class Bad(ProcessorBase):
    name = 'bad'

    async def process(self, x: Input(Inp)) -> int:
        raise ValueError('contained')


class Good(ProcessorBase):
    name = 'good'

    async def process(self, x: Input(Inp)) -> int:
        return x + 1


class OOut(ProcessorBase):
    name = 'oout'

    async def process(self, v: InputOneOf([Bad, Good])) -> int:
        return v


# (3) late arrival: two switch scopes need the same not-yet-started node
class Decider(ProcessorBase):
    name = 'decider'

    async def process(self, x: Input(Inp)) -> str:
        return 'a'


class Shared(ProcessorBase):
    name = 'shared'

    async def process(self, x: Input(Inp)) -> int:
        await asyncio.sleep(0.05)
        return x + 100


class CaseA1(ProcessorBase):
    name = 'case_a1'

    async def process(self, v: Input(Shared)) -> int:
        return v + 1


class CaseA2(ProcessorBase):
    name = 'case_a2'

    async def process(self, v: Input(Shared)) -> int:
        return v + 2


class SOut(ProcessorBase):
    name = 'sout'

    async def process(self, p: SwitchCase(Decider, [('a', CaseA1)], name='p'), q: SwitchCase(Decider, [('a', CaseA2)], name='q')) -> int:
        return p + q


async def main():
    found = {}
    saves.clear()
    k, r = await run_with_watchdog(chart(Inp, ROut, artifact_store=RecordingStore).run(input_kwargs=dict(x=1)))
    found['recurrent-marker'] = any(isinstance(d, Recurrent) for _n, d in saves)
    saves.clear()
    k, r = await run_with_watchdog(chart(Inp, OOut, artifact_store=RecordingStore).run(input_kwargs=dict(x=1)))
    found['contained-failure'] = any(isinstance(d, BaseException) for _n, d in saves) and getattr(r, 'error', 1) is None
    saves.clear()
    k, r = await run_with_watchdog(chart(Inp, SOut, artifact_store=RecordingStore).run(input_kwargs=dict(x=1)))
    ids = [n for n, _d in saves]
    found['late-arrival'] = any(ids.count(n) > 1 for n in ids)
    print(found, 'last run:', k, getattr(r, 'value', r))
    if which == 'all':
        verdict(all(found.values()), str(found))
    verdict(found[which], f'{which}: {found[which]}')

asyncio.run(main())
