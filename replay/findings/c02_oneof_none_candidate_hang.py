"""C02 / C10: a one-of candidate that returns None: the wait predicate of the one-of (exists_result_type with
exclude_none) is never true, the run hangs although the candidate finished."""
import asyncio
from replay.common import *


class Inp(ProcessorBase):
    name = 'inp'

    async def process(self, x: int) -> int:
        return x


class ReturnsNone(ProcessorBase):
    name = 'returns_none'

    async def process(self, x: Input(Inp)) -> None:
        return None


class Fallback(ProcessorBase):
    name = 'fallback'

    async def process(self, x: Input(Inp)) -> int:
        return 1


class Out(ProcessorBase):
    name = 'out'

    async def process(self, v: InputOneOf([ReturnsNone, Fallback])) -> t.Any:
        return v


async def main():
    k, r = await run_with_watchdog(chart(Inp, Out).run(input_kwargs=dict(x=1)), 2.0)
    verdict(k == 'hung', f'{k}: {r!r}')

asyncio.run(main())
