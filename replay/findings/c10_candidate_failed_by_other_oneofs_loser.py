"""C10: a candidate is declared failed because of the contained failure of a *losing candidate of another one-of*:
Mid = InputOneOf([L1 (fails), L2 (ok)]) succeeds with L2; C1 depends on Mid and succeeds, but the scope of C1 contains the
already tried L1, whose stored exception makes the engine discard C1 and fall back to C2."""
import asyncio
from replay.common import *

ran = []


class Inp(ProcessorBase):
    name = 'inp'

    async def process(self, x: int) -> int:
        return x


class L1(ProcessorBase):
    name = 'l1'

    async def process(self, x: Input(Inp)) -> int:
        raise ValueError('l1 fails')


class L2(ProcessorBase):
    name = 'l2'

    async def process(self, x: Input(Inp)) -> int:
        return 10


class Mid(ProcessorBase):
    name = 'mid'

    async def process(self, w: InputOneOf([L1, L2])) -> int:
        return w


class Other(ProcessorBase):
    name = 'other'

    async def process(self, m: Input(Mid)) -> int:
        return m


class C1(ProcessorBase):
    name = 'c1'

    async def process(self, u: Input(Mid)) -> int:
        ran.append('c1')
        return u + 1


class C2(ProcessorBase):
    name = 'c2'

    async def process(self, x: Input(Inp)) -> int:
        ran.append('c2')
        return -1


class Z(ProcessorBase):
    name = 'z'

    async def process(self, v: InputOneOf([C1, C2])) -> int:
        return v


class OutA(ProcessorBase):
    name = 'out_a'

    async def process(self, z: Input(Z), o: Input(Other)) -> int:
        return z


class OutB(ProcessorBase):
    name = 'out_b'

    async def process(self, o: Input(Other), z: Input(Z)) -> int:
        return z


async def main():
    outcomes = []
    for out in (OutA, OutB):
        ran.clear()
        k, r = await run_with_watchdog(chart(Inp, out).run(input_kwargs=dict(x=1)), 3.0)
        outcomes.append((out.__name__, k, getattr(r, 'value', r), getattr(r, 'error', None), list(ran)))
    print(outcomes)
    # dataflow semantics: Mid = 10 (L2), C1 = 11 is the first successful candidate
    verdict(any(k == 'done' and v == -1 for _n, k, v, _e, _r in outcomes),
            'C1 is the first successful candidate (11) but the fallback C2 (-1) was delivered')

asyncio.run(main())
