"""C18: defects of FileSystemArtifactStore, each selectable by name:
json      save(..., fmt=DataFormat.JSON) always fails (json.dump into a binary file)
trace     a failed save leaves an empty file behind: the key can neither be loaded nor saved again
alias     distinct keys alias: after saving 'a.b', key 'a' counts as saved (glob 'a.*'), and load('a') returns the value of 'a.b'
meta      ids with glob metacharacters: 'g[1]' is saved but cannot be loaded"""
import asyncio
import sys
import tempfile
import warnings
from replay.common import *
from ml_pipeline_engine.artifact_store.enums import DataFormat
from ml_pipeline_engine.artifact_store.errors import ArtifactAlreadyExists, ArtifactDoesNotExist
from ml_pipeline_engine.artifact_store.store.filesystem import FileSystemArtifactStore

warnings.simplefilter('ignore')
which = sys.argv[1]


class Ctx:
    model_name = 'm'
    pipeline_id = 'p'


async def main():
    with tempfile.TemporaryDirectory() as d:
        s = FileSystemArtifactStore(ctx=Ctx(), artifact_dir=d)
        if which == 'json':
            try:
                await s.save('n', {'a': 1}, fmt=DataFormat.JSON)
                got = await s.load('n')
                verdict(got != {'a': 1}, f'json round trip gave {got!r}')
            except Exception as e:
                verdict(True, f'save with fmt=JSON raised {e!r}')
        if which == 'trace':
            try:
                await s.save('n', lambda: 1)         # not picklable
            except Exception:
                pass
            try:
                await s.save('n', 1)
                verdict(False, 'second save succeeded')
            except ArtifactAlreadyExists:
                verdict(True, 'after a failed save the key counts as saved (and cannot be loaded)')
        if which == 'alias':
            await s.save('a.b', 'value of a.b')
            try:
                got = await s.load('a')
                verdict(True, f"load('a') returned {got!r} although only 'a.b' was saved")
            except ArtifactDoesNotExist:
                verdict(False, "load('a') correctly raised ArtifactDoesNotExist")
        if which == 'meta':
            await s.save('g[1]', 5)
            try:
                got = await s.load('g[1]')
                verdict(got != 5, f"load('g[1]') returned {got!r}")
            except ArtifactDoesNotExist:
                verdict(True, "'g[1]' was saved but load raises ArtifactDoesNotExist")

asyncio.run(main())
