"""
Evaluates the *same* contract that failed in the proof on the concrete pre-state / result / post-state observed on the
real code (the contract DSL is dual: its lambdas are applied here to ground z3 terms).  Runs in python3-vt.
"""
import json
import os
import subprocess
import tempfile

import z3

from pyvc.concretize import from_json, map_from_json, set_from_json, seq_from_json
from pyvc.interp import Interp, CallArgs, StarSeq
from pyvc.state import State, SymMap, SymSet
from pyvc.values import LATTICE, lower, SymV, as_z3, subcls, PyV

VERIF = os.path.dirname(os.path.dirname(os.path.abspath(__file__)))


def closed_true(f, axioms):
    """truth value of a closed formula (None = undetermined)"""
    if isinstance(f, bool):
        return f
    f = as_z3(f)
    s = z3.SimpleSolver()
    s.set('timeout', 5000)
    for ax in axioms:
        s.add(ax)
    s.add(z3.Not(f))
    r = s.check()
    if r == z3.unsat:
        return True
    s2 = z3.SimpleSolver()
    s2.set('timeout', 5000)
    for ax in axioms:
        s2.add(ax)
    s2.add(f)
    if s2.check() == z3.unsat:
        return False
    return None


def run_real(witness):
    from pyvc import repo as repo_mod
    with tempfile.NamedTemporaryFile('w', suffix='.json', delete=False) as f:
        json.dump(witness, f)
        path = f.name
    try:
        env = dict(os.environ, PYTHONPATH=f'{repo_mod.REPO_ROOT}:{VERIF}', PYTHONDONTWRITEBYTECODE='1')
        p = subprocess.run(['/venv/bin/python', os.path.join(VERIF, 'replay', 'realize.py'), path], capture_output=True,
                           text=True, timeout=120, env=env)
        if p.returncode != 0:
            return {'error': (p.stderr or p.stdout)[-800:]}
        return json.loads(p.stdout.strip().splitlines()[-1])
    finally:
        os.unlink(path)


def hd_alloc(it, state):
    from contracts.shapes import HD, new_obj
    st = it.st
    hk = st.alloc('set', elems=set_from_json(state['hidden']))
    return new_obj(it, HD, data=map_from_json(state['data']), _hidden_keys=hk)


def hd_update(st, ref, state):
    st.setf(ref, 'data', map_from_json(state['data']))
    st.setf(st.getf(ref, '_hidden_keys'), 'elems', set_from_json(state['hidden']))


_ENV = {}


def _env():
    """the parsed tree and the contract registry, loaded once per process"""
    if not _ENV:
        from pyvc.run import Repo, prepare_lattice, load_contracts
        repo = Repo()
        prepare_lattice(repo)
        _ENV['repo'], _ENV['reg'] = repo, load_contracts()
    return _ENV['repo'], _ENV['reg']


def replay_storage(witness, real):
    from pyvc.run import models_factory
    from contracts.shapes import STORAGE, STORAGE_FIELDS, new_obj
    repo, reg = _env()
    c = reg.get(witness['contract'])
    fi = repo.function(c.path, c.name)
    axioms = LATTICE.axioms()
    st = State([], axioms)
    models = models_factory()
    it = Interp(repo, reg, st, models, verifying=c.key)
    models.attach(it)
    if witness['cls'] == 'HiddenDict':
        self_val = hd_alloc(it, witness['state']['self'])
    else:
        self_val = new_obj(it, STORAGE, **{f: hd_alloc(it, witness['state'][f]) for f in STORAGE_FIELDS})
    val = lambda j: lower(from_json(j), st)
    if 'seq' in witness:
        ca = CallArgs([StarSeq(seq_from_json(witness['seq']))])
    else:
        ca = CallArgs([val(x) for x in witness.get('pos', [])], {k: val(v) for k, v in witness.get('args', {}).items()})
    a = c.bind(it, fi, self_val, ca)
    pre = st.snapshot()
    for n, f in c.requires(it, pre, a):
        if closed_true(f, axioms) is False:
            return dict(replayed=True, reproduced=False, why=f'the concretised input violates the precondition {n!r} (spurious model)')
    # observed post-state
    if witness['cls'] == 'HiddenDict':
        hd_update(st, self_val, real['state']['self'])
    else:
        for f in STORAGE_FIELDS:
            hd_update(st, st.getf(self_val, f), real['state'][f])
    post = st.snapshot()
    failed = []
    cases = c.raises(it, pre, a)
    if real['outcome'] == 'return':
        res = val(real['result'])
        for case in cases:
            if not case.may and case.when is not None and closed_true(case.when, axioms) is True:
                failed.append(f'must-raise[{case.name}]: the contract demands {case.cls}, the real code returned')
        for n, f in c.ensures(it, pre, post, a, res):
            if closed_true(f, axioms) is False:
                failed.append(f'post[{n}]')
    else:
        e = real['exc']
        mro = e.get('mro', [e['cls']])
        ok = False
        for case in cases:
            if (case.cls is None or case.cls in mro or case.cls == e['cls']) and (
                    case.may or case.when is None or closed_true(case.when, axioms) is not False):
                ok = True
        if not ok:
            failed.append(f"raises-only-declared: the real code raised {e['cls']}({e.get('msg', '')})")
    return dict(replayed=True, reproduced=bool(failed), failed_clauses_on_the_real_code=failed,
                input=dict(state=witness['state'], args=witness.get('args'), seq=witness.get('seq')),
                real_code_did=real)


def replay_manager(witness, real):
    from pyvc.run import models_factory
    from pyvc.libmodels import Arr, NODE_FIELDS, EDGE_FIELDS, GRAPH_CLS, new_world
    from pyvc.values import NONE, SymB
    from contracts.shapes import (STORAGE, STORAGE_FIELDS, new_obj, DAG_CLS, MGR, CTX_CLS, new_lock_manager)
    repo, reg = _env()
    c = reg.get(witness['contract'])
    fi = repo.function(c.path, c.name)
    axioms = LATTICE.axioms()
    st = State([], axioms)
    models = models_factory()
    it = Interp(repo, reg, st, models, verifying=c.key)
    models.attach(it)
    new_world(it)
    gj = witness['graph']
    # the networkx model assumes an acyclic graph (the builder can only produce such): a cyclic concretisation is spurious
    succ = {}
    for u, v in gj['edges']:
        succ.setdefault(json.dumps(u, sort_keys=True), set()).add(json.dumps(v, sort_keys=True))
    state_ = {}

    def cyclic(n):
        if state_.get(n) == 1:
            return True
        if state_.get(n) == 2:
            return False
        state_[n] = 1
        r = any(cyclic(m_) for m_ in succ.get(n, ()))
        state_[n] = 2
        return r
    if any(cyclic(n) for n in list(succ)):
        return dict(replayed=True, reproduced=False, why='the concretised graph has a cycle; acyclicity is an assumption of the networkx '
                    'model the contract is proved against (spurious model)')
    fields = dict(g_kind='base', g_nodes=set_from_json(gj['nodes']),
                  g_edges=set_from_json([{'t': 'tup2', 'a': u, 'b': v} for u, v in gj['edges']]))
    for f in NODE_FIELDS:
        arr = z3.K(PyV, NONE)
        for n, val in gj['na'].get(f, []):
            arr = z3.Store(arr, from_json(n), from_json(val))
        fields[f'na:{f}'] = Arr(arr)
    for f in EDGE_FIELDS:
        arr = z3.K(PyV, NONE)
        for u, v, val in gj['ea'].get(f, []):
            arr = z3.Store(arr, PyV.tup2(from_json(u), from_json(v)), from_json(val))
        fields[f'ea:{f}'] = Arr(arr)
    g = st.alloc(GRAPH_CLS, **fields)
    st.setf(g, '__class__', GRAPH_CLS)
    for k, v in dict(is_recurrent=False, is_oneof=False, is_nested_oneof=False, source=None, dest=None, name='main-graph').items():
        st.setf(g, k, v)
    val = lambda j: lower(from_json(j), st)
    nm = st.alloc('dict', map=SymMap.empty())
    dag = new_obj(it, DAG_CLS, graph=g, input_node=val(witness['input']), output_node=val(witness['output']), node_map=nm,
                  is_process_pool_needed=False, is_thread_pool_needed=False)
    ik = st.alloc('dict', map=map_from_json(witness.get('input_kwargs', [])))
    ctx = new_obj(it, CTX_CLS, input_kwargs=ik)
    storage = new_obj(it, STORAGE, **{f: hd_alloc(it, witness['storage'][f]) for f in STORAGE_FIELDS})
    mgr = new_obj(it, MGR, ctx=ctx, dag=dag, _node_storage=storage, _lock_manager=new_lock_manager(it),
                  _memorization_store=st.alloc('dict', map={}), _coro_tasks=st.alloc('set', elems=SymSet.empty()),
                  _alias_run_method='run')
    kwargs = {k: val(v) for k, v in witness['args'].items()}
    if 'dag' in witness:
        dj = witness['dag']
        sub = new_obj(it, GRAPH_CLS, g_kind='sub', g_base=g, g_nodes=set_from_json(dj['nodes']), g_fedge=None,
                      is_recurrent=dj['is_recurrent'], is_oneof=dj['is_oneof'], is_nested_oneof=dj['is_nested_oneof'],
                      source=val(dj['source']), dest=val(dj['dest']), name='sub')
        kwargs['dag'] = sub
    a = c.bind(it, fi, mgr, CallArgs([], kwargs))
    if c.name.endswith('__get_descendants'):
        from contracts.manager_seq import notif_axioms
        from contracts.shapes import MV
        axioms = axioms + notif_axioms(MV(st.snapshot(), mgr))
    pre = st.snapshot()
    for n, f in c.requires(it, pre, a):
        if closed_true(f, axioms) is False:
            return dict(replayed=True, reproduced=False, why=f'the concretised input violates the precondition {n!r} (spurious model)')
    for f in STORAGE_FIELDS:
        hd_update(st, st.getf(storage, f), real['storage'][f])
    st.setf(ik, 'map', map_from_json(real.get('input_kwargs', [])))
    failed = []
    cases = c.raises(it, pre, a)
    if real['outcome'] == 'return':
        if 'result_dict' in real:
            res = st.alloc('dict', map=map_from_json(real['result_dict']))
        elif 'result_seq' in real:
            if c.returns == 'set':
                res = st.alloc('set', elems=set_from_json(real['result_seq']))
            else:
                res = st.alloc('list', items=seq_from_json(real['result_seq']))
        else:
            res = val(real['result'])
        post = st.snapshot()
        for case in cases:
            if not case.may and case.when is not None and closed_true(case.when, axioms) is True:
                failed.append(f'must-raise[{case.name}]: the contract demands {case.cls}, the real code returned')
        for n, f in c.ensures(it, pre, post, a, res):
            if closed_true(f, axioms) is False:
                failed.append(f'post[{n}]')
        # frame of the caller-visible input dictionary and the storage
        from pyvc.contract import same_value
        mods = {(r.id, fld) for r, fld in c.modifies(it, pre, a)}
        for oid, flds in pre.heap.items():
            for fld, before in flds.items():
                if (oid, fld) in mods:
                    continue
                after = post.heap.get(oid, {}).get(fld, before)
                if after is before:
                    continue
                eq = same_value(before, after, st)
                if eq is not True and closed_true(eq, axioms) is False:
                    failed.append(f'frame: {fld} of object #{oid} was modified')
    else:
        e = real['exc']
        mro = e.get('mro', [e['cls']])
        ok = any((case.cls is None or case.cls in mro) and (case.may or case.when is None or closed_true(case.when, axioms) is not False)
                 for case in cases)
        if not ok:
            failed.append(f"raises-only-declared: the real code raised {e['cls']}({e.get('msg', '')})")
    return dict(replayed=True, reproduced=bool(failed), failed_clauses_on_the_real_code=failed,
                input={k: witness[k] for k in ('graph', 'storage', 'args', 'dag', 'input', 'output', 'input_kwargs') if k in witness},
                real_code_did=real)


def rename_nodes(witness):
    """node ids are strings in real graphs (DiGraph.__hash__ iterates them): values the model used as graph nodes are
    consistently renamed to fresh strings everywhere in the witness (node ids are only compared for equality)"""
    if witness.get('kind') != 'manager':
        return witness
    mapping = {}
    for n in witness['graph']['nodes']:
        if n['t'] != 'str':
            mapping[json.dumps(n, sort_keys=True)] = {'t': 'str', 'v': f'node#{len(mapping)}'}

    def walk(x):
        if isinstance(x, dict):
            if 't' in x:
                key = json.dumps(x, sort_keys=True)
                if key in mapping:
                    return mapping[key]
            return {k: walk(v) for k, v in x.items()}
        if isinstance(x, list):
            return [walk(v) for v in x]
        return x
    return walk(witness)


def replay_witness(witness):
    witness = rename_nodes(witness)
    real = run_real(witness)
    if 'error' in real:
        return dict(replayed=False, why='the replayer could not run the input on the real code: ' + real['error'])
    if witness['kind'] == 'storage':
        return replay_storage(witness, real)
    if witness['kind'] == 'manager':
        return replay_manager(witness, real)
    return dict(replayed=False, why=f"no oracle for witness kind {witness['kind']}")
