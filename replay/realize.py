"""
Runs a concretised counter-model on the REAL code of the repository (under /venv/bin/python with PYTHONPATH=<repo>)
and prints what the real function did as JSON.  Usage: realize.py <witness.json>
"""
import json
import sys


class Opaque:
    """stands for an arbitrary user value; distinct ids are distinct objects"""
    _pool = {}

    def __new__(cls, ident):
        if ident not in cls._pool:
            o = super().__new__(cls)
            o.ident = ident
            cls._pool[ident] = o
        return cls._pool[ident]

    def __repr__(self):
        return f'Opaque({self.ident})'


_EXC_POOL = {}


def exc_class(name):
    import builtins
    if hasattr(builtins, name) and isinstance(getattr(builtins, name), type):
        return getattr(builtins, name)
    if name == 'CancelledError':
        import asyncio
        return asyncio.CancelledError
    for mod in ('ml_pipeline_engine.dag.errors', 'ml_pipeline_engine.artifact_store.errors',
                'ml_pipeline_engine.dag_builders.annotation.errors', 'ml_pipeline_engine.node.errors',
                'ml_pipeline_engine.artifact_store.store.filesystem', 'ml_pipeline_engine.artifact_store.serializers'):
        try:
            m = __import__(mod, fromlist=[name])
            if hasattr(m, name):
                return getattr(m, name)
        except Exception:
            pass
    return type(name, (Exception,), {})


def dec(j):
    from ml_pipeline_engine.types import Recurrent, CaseResult
    k = j['t']
    if k == 'none':
        return None
    if k in ('bool', 'int', 'str'):
        return j['v']
    if k == 'tup2':
        return (dec(j['a']), dec(j['b']))
    if k == 'rec':
        return Recurrent(data=dec(j['d']))
    if k == 'case':
        return CaseResult(label=dec(j['label']), node_id=dec(j['node']))
    if k == 'exc':
        key = (j['cls'], j.get('id', 0))
        if key not in _EXC_POOL:
            _EXC_POOL[key] = exc_class(j['cls'])(f"witness exception #{j.get('id', 0)}")
        return _EXC_POOL[key]
    return Opaque((k, j['id']))


def enc(v):
    from ml_pipeline_engine.types import Recurrent, CaseResult
    if v is None:
        return {'t': 'none'}
    if isinstance(v, bool):
        return {'t': 'bool', 'v': v}
    if isinstance(v, int):
        return {'t': 'int', 'v': v}
    if isinstance(v, str):
        return {'t': 'str', 'v': str(v)}
    if isinstance(v, tuple) and len(v) == 2:
        return {'t': 'tup2', 'a': enc(v[0]), 'b': enc(v[1])}
    if isinstance(v, Recurrent):
        return {'t': 'rec', 'd': enc(v.data)}
    if isinstance(v, CaseResult):
        return {'t': 'case', 'label': enc(v.label), 'node': enc(v.node_id)}
    if isinstance(v, BaseException):
        for (cls, ident), e in _EXC_POOL.items():
            if e is v:
                return {'t': 'exc', 'cls': cls, 'id': ident}
        return {'t': 'exc', 'cls': type(v).__name__, 'id': -1, 'fresh': True, 'mro': [c.__name__ for c in type(v).__mro__], 'msg': str(v)[:200]}
    if isinstance(v, Opaque):
        return {'t': v.ident[0], 'id': v.ident[1]}
    return {'t': 'opq', 'id': 999999, 'repr': repr(v)[:100]}


def build_hidden_dict(state):
    from ml_pipeline_engine.dag.storage import HiddenDict
    hd = HiddenDict()
    for k, v in state['data']:
        hd.data[dec(k)] = dec(v)
    hd._hidden_keys = {dec(k) for k in state['hidden']}
    return hd


def dump_hidden_dict(hd):
    return {'data': [[enc(k), enc(v)] for k, v in hd.data.items()], 'hidden': [enc(k) for k in hd._hidden_keys]}


def run_storage(w):
    from ml_pipeline_engine.dag.storage import DAGNodeStorage
    if w['cls'] == 'HiddenDict':
        obj = build_hidden_dict(w['state']['self'])
    else:
        obj = DAGNodeStorage(**{f: build_hidden_dict(s) for f, s in w['state'].items()})
    args = [dec(x) for x in w.get('pos', [])]
    kwargs = {k: dec(v) for k, v in w.get('args', {}).items()}
    out = {}
    try:
        res = getattr(obj, w['method'])(*args, **kwargs)
        out['outcome'] = 'return'
        out['result'] = enc(res)
    except BaseException as e:   # noqa
        out['outcome'] = 'raise'
        out['exc'] = enc(e)
    if w['cls'] == 'HiddenDict':
        out['state'] = {'self': dump_hidden_dict(obj)}
    else:
        out['state'] = {f: dump_hidden_dict(getattr(obj, f)) for f in w['state']}
    return out


def run_manager(w):
    import types
    from ml_pipeline_engine.dag.dag import DAG
    from ml_pipeline_engine.dag.enums import EdgeField, NodeField
    from ml_pipeline_engine.dag.graph import DiGraph
    from ml_pipeline_engine.dag.manager import DAGRunConcurrentManager
    nf = {m.value: m for m in NodeField}
    ef = {m.value: m for m in EdgeField}
    g = DiGraph()
    for n in w['graph']['nodes']:
        g.add_node(dec(n))
    for u, v in w['graph']['edges']:
        g.add_edge(dec(u), dec(v))
    for f, items in w['graph']['na'].items():
        for n, val in items:
            g.nodes[dec(n)][nf[f]] = dec(val)
    for f, items in w['graph']['ea'].items():
        for u, v, val in items:
            g.edges[dec(u), dec(v)][ef[f]] = dec(val)
    dag = DAG(graph=g, input_node=dec(w['input']), output_node=dec(w['output']), is_process_pool_needed=False,
              is_thread_pool_needed=False, node_map={})
    ctx = types.SimpleNamespace(input_kwargs={dec(k): dec(v) for k, v in w.get('input_kwargs', [])})
    mgr = DAGRunConcurrentManager(ctx=ctx, dag=dag)
    for f, state in w['storage'].items():
        hd = getattr(mgr._node_storage, f)
        for k, v in state['data']:
            hd.data[dec(k)] = dec(v)
        hd._hidden_keys = {dec(k) for k in state['hidden']}
    kwargs = {k: dec(v) for k, v in w['args'].items()}
    if 'dag' in w:
        sub = g.subgraph([dec(n) for n in w['dag']['nodes']])
        sub.is_recurrent, sub.is_oneof, sub.is_nested_oneof = w['dag']['is_recurrent'], w['dag']['is_oneof'], w['dag']['is_nested_oneof']
        sub.source, sub.dest = dec(w['dag']['source']), dec(w['dag']['dest'])
        kwargs['dag'] = sub
    name = w['method']
    if name.startswith('__'):
        name = '_DAGRunConcurrentManager' + name
    out = {}
    try:
        res = getattr(mgr, name)(**kwargs)
        out['outcome'] = 'return'
        if isinstance(res, dict):
            out['result_dict'] = [[enc(k.value if hasattr(k, 'value') else k), enc(v)] for k, v in res.items()]
            out['aliases_input_kwargs'] = res is ctx.input_kwargs
        elif isinstance(res, (list, set, frozenset)):
            out['result_seq'] = [enc(x) for x in res]
        else:
            out['result'] = enc(res)
    except BaseException as e:   # noqa
        out['outcome'] = 'raise'
        out['exc'] = enc(e)
    out['storage'] = {f: dump_hidden_dict(getattr(mgr._node_storage, f)) for f in w['storage']}
    out['input_kwargs'] = [[enc(k.value if hasattr(k, 'value') else k), enc(v)] for k, v in ctx.input_kwargs.items()]
    return out


def main():
    w = json.load(open(sys.argv[1]))
    if isinstance(w, list):          # batch mode (conformance runs): one output per witness
        outs = []
        for one in w:
            try:
                outs.append(run_storage(one) if one['kind'] == 'storage' else run_manager(one) if one['kind'] == 'manager'
                            else {'error': 'no realiser'})
            except BaseException as e:   # noqa
                outs.append({'error': f'{type(e).__name__}: {e}'})
        print(json.dumps(outs))
        return
    kind = w['kind']
    if kind == 'storage':
        out = run_storage(w)
    elif kind == 'manager':
        out = run_manager(w)
    else:
        out = {'error': f'no realiser for kind {kind}'}
    print(json.dumps(out))


if __name__ == '__main__':
    main()
