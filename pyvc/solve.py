"""
Discharging obligations: z3 (python API) first, cvc5 (CLI, on the SMT-LIB text) for what z3 leaves
unknown; in the thorough tier both are asked and must not contradict each other.
"""
import os
import subprocess
import tempfile
import time

import z3

CVC5 = '/usr/bin/cvc5'


class Verdict:
    def __init__(self, name, status, backend, time_s, model=None, info=None, paths=1, reason=''):
        self.name = name
        self.status = status      # 'discharged' | 'refuted' | 'unknown'
        self.backend = backend
        self.time_s = time_s
        self.model = model
        self.info = info or {}
        self.paths = paths
        self.reason = reason

    def as_dict(self):
        return dict(name=self.name, status=self.status, backend=self.backend, time_s=round(self.time_s, 3),
                    model=self.model, info=self.info, paths=self.paths, reason=self.reason)


def _has_strings(smt2):
    return 'String' in smt2 or 'str.' in smt2


def run_cvc5(smt2, timeout_s, want_model=False):
    """returns 'unsat' | 'sat' | 'unknown'"""
    if not os.path.exists(CVC5):
        return 'unknown', 'cvc5 missing'
    with tempfile.NamedTemporaryFile('w', suffix='.smt2', delete=False) as f:
        f.write('(set-logic ALL)\n')
        f.write(smt2)
        if 'check-sat' not in smt2:
            f.write('\n(check-sat)\n')
        path = f.name
    args = [CVC5, f'--tlimit={int(timeout_s * 1000)}', '--lang=smt2']
    if _has_strings(smt2):
        args.append('--strings-exp')
    try:
        p = subprocess.run(args + [path], capture_output=True, text=True, timeout=timeout_s + 5)
        out = p.stdout.strip().splitlines()
        verdict = out[0].strip() if out else 'unknown'
        if verdict not in ('sat', 'unsat'):
            return 'unknown', (p.stdout + p.stderr)[:300]
        return verdict, ''
    except subprocess.TimeoutExpired:
        return 'unknown', 'cvc5 timeout'
    finally:
        os.unlink(path)


def model_summary(model, limit=60):
    out = {}
    try:
        for d in model.decls()[:limit]:
            v = model[d]
            s = str(v)
            if len(s) > 400:
                s = s[:400] + '…'
            out[d.name()] = s
    except Exception as e:  # pragma: no cover
        out['<error>'] = str(e)
    return out


def discharge(ob, base_axioms, timeout_s=20, seed=0, both=False, keep_model=True):
    """ob: state.Obligation -> Verdict"""
    t0 = time.time()
    if z3.is_true(ob.formula):
        return Verdict(ob.name, 'discharged', 'syntactic', 0.0, info=ob.info)
    s = z3.Solver()
    s.set('timeout', int(timeout_s * 1000))
    s.set('random_seed', seed)
    for ax in base_axioms:
        s.add(ax)
    for f in ob.pc:
        s.add(f)
    s.add(z3.Not(ob.formula))
    r = s.check()
    backend = 'z3'
    status = 'discharged' if r == z3.unsat else ('refuted' if r == z3.sat else 'unknown')
    reason = ''
    model = None
    if r == z3.sat and keep_model:
        model = model_summary(s.model())
    if status == 'unknown':
        reason = s.reason_unknown()
    if status == 'unknown' or both:
        try:
            smt2 = s.to_smt2()
        except Exception as e:  # pragma: no cover
            smt2 = None
            reason += f' (no smt2 export: {e})'
        if smt2 is not None:
            cv, why = run_cvc5(smt2, timeout_s)
            if status == 'unknown':
                if cv == 'unsat':
                    status, backend = 'discharged', 'cvc5'
                elif cv == 'sat':
                    status, backend = 'refuted', 'cvc5'
                else:
                    reason += f' | cvc5: {why}'
            else:
                if (cv == 'unsat' and status == 'refuted') or (cv == 'sat' and status == 'discharged'):
                    status, backend = 'unknown', 'z3+cvc5'
                    reason = f'solvers disagree: z3={r} cvc5={cv}'
                elif cv in ('sat', 'unsat'):
                    backend = 'z3+cvc5'
    if ob.concrete_fail and status == 'refuted':
        reason = ob.concrete_fail
    return Verdict(ob.name, status, backend, time.time() - t0, model=model, info=ob.info, reason=reason)


def merge_verdicts(verdicts):
    """several paths may generate the same named obligation: it is discharged iff all are"""
    by_name = {}
    for v in verdicts:
        cur = by_name.get(v.name)
        if cur is None:
            by_name[v.name] = v
            continue
        cur.paths += 1
        cur.time_s += v.time_s
        rank = {'discharged': 0, 'unknown': 1, 'refuted': 2}
        if rank[v.status] > rank[cur.status]:
            v.paths = cur.paths
            v.time_s = cur.time_s
            by_name[v.name] = v
        elif cur.backend != v.backend and v.backend not in cur.backend:
            cur.backend = f'{cur.backend},{v.backend}' if v.backend != 'syntactic' else cur.backend
    return list(by_name.values())
