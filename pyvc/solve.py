"""
Discharging obligations: z3 (python API) first, cvc5 (CLI, on the SMT-LIB text) for what z3 leaves
unknown; in the thorough tier both are asked and must not contradict each other.
"""
import os
import subprocess
import tempfile
import time

import z3

CVC5 = '/usr/bin/cvc5'


class Verdict:
    def __init__(self, name, status, backend, time_s, model=None, info=None, paths=1, reason=''):
        self.name = name
        self.status = status      # 'discharged' | 'refuted' | 'unknown'
        self.backend = backend
        self.time_s = time_s
        self.model = model
        self.info = info or {}
        self.paths = paths
        self.reason = reason
        self.z3_model = None       # the (definite or candidate) counter-model object, in-process only
        self.witness = None        # concretised input for the replayer (JSON-able)

    def as_dict(self):
        return dict(name=self.name, status=self.status, backend=self.backend, time_s=round(self.time_s, 3),
                    model=self.model, info=self.info, paths=self.paths, reason=self.reason, witness=self.witness)


def _has_strings(smt2):
    return 'String' in smt2 or 'str.' in smt2


def run_cvc5(smt2, timeout_s, want_model=False):
    """returns 'unsat' | 'sat' | 'unknown'"""
    if not os.path.exists(CVC5):
        return 'unknown', 'cvc5 missing'
    with tempfile.NamedTemporaryFile('w', suffix='.smt2', delete=False) as f:
        f.write('(set-logic ALL)\n')
        f.write(smt2)
        if 'check-sat' not in smt2:
            f.write('\n(check-sat)\n')
        path = f.name
    args = [CVC5, f'--tlimit={int(timeout_s * 1000)}', '--lang=smt2']
    if _has_strings(smt2):
        args.append('--strings-exp')
    try:
        p = subprocess.run(args + [path], capture_output=True, text=True, timeout=timeout_s + 5)
        out = p.stdout.strip().splitlines()
        verdict = out[0].strip() if out else 'unknown'
        if verdict not in ('sat', 'unsat'):
            return 'unknown', (p.stdout + p.stderr)[:300]
        return verdict, ''
    except subprocess.TimeoutExpired:
        return 'unknown', 'cvc5 timeout'
    finally:
        os.unlink(path)


def model_summary(model, limit=60):
    out = {}
    try:
        for d in model.decls()[:limit]:
            v = model[d]
            s = str(v)
            if len(s) > 400:
                s = s[:400] + '…'
            out[d.name()] = s
    except Exception as e:  # pragma: no cover
        out['<error>'] = str(e)
    return out


def _solver(base_axioms, ob, timeout_s, seed, mbqi, relevant_ext=False):
    if mbqi:
        s = z3.Solver()
    else:
        # SimpleSolver honours mbqi=false (the default tactic pipeline of Solver() ignores it)
        s = z3.SimpleSolver()
        s.set('mbqi', False)
        if relevant_ext:
            s.set('array.extensional', False)
    s.set('timeout', int(timeout_s * 1000))
    s.set('random_seed', seed)
    for ax in base_axioms:
        s.add(ax)
    for f in ob.pc:
        s.add(f)
    goal = z3.Not(ob.formula)
    s.add(goal)
    if relevant_ext and not mbqi:
        from .values import ExtAxioms
        for ax in ExtAxioms().axioms_for(list(base_axioms) + list(ob.pc) + [goal]):
            s.add(ax)
    return s


def export_smt2(base_axioms, ob):
    """SMT-LIB text for the other back end (the default Solver prints string literals in the portable form)"""
    s = z3.Solver()
    for ax in base_axioms:
        s.add(ax)
    for f in ob.pc:
        s.add(f)
    s.add(z3.Not(ob.formula))
    return s.to_smt2()


def discharge(ob, base_axioms, timeout_s=20, seed=0, both=False, keep_model=True, cvc5_first=False):
    """ob: state.Obligation -> Verdict.

    Stage 1: E-matching only (MBQI off).  unsat = proved.  `unknown (incomplete quantifiers)` means the
    instantiation saturated without a contradiction: as in Boogie/Dafny this is a failed proof with a
    candidate counter-model.  Stage 2 (MBQI, then cvc5) tries to turn it into a definite answer.  A
    timeout in both stages is `unknown` (undecided), never a refutation.
    """
    t0 = time.time()
    if z3.is_true(ob.formula):
        return Verdict(ob.name, 'discharged', 'syntactic', 0.0, info=ob.info)
    info = dict(ob.info)
    zm = None
    if cvc5_first:
        # word equations: cvc5's string solver decides what z3's seq solver leaves open for minutes
        try:
            cv, _why = run_cvc5(export_smt2(base_axioms, ob), min(timeout_s, 15))
        except Exception:  # pragma: no cover
            cv = 'unknown'
        if cv == 'unsat':
            return Verdict(ob.name, 'discharged', 'cvc5', time.time() - t0, info=info)
    # stage 1a: E-matching with relevant extensionality only (see values.ExtAxioms); 1b: z3's full extensionality
    s1 = _solver(base_axioms, ob, timeout_s, seed, mbqi=False, relevant_ext=True)
    r1 = s1.check()
    if os.environ.get('PYVC_DEBUG_STAGES'):
        print(f'   1a {r1} {time.time() - t0:.2f}s {s1.reason_unknown() if r1 == z3.unknown else ""} {ob.name}', flush=True)
    if r1 == z3.unknown and 'incomplete' in s1.reason_unknown():
        # 1a saturated with a candidate counter-model: give z3's full extensionality a (short) chance to refute it
        s1b = _solver(base_axioms, ob, min(timeout_s, 10), seed, mbqi=False)
        if s1b.check() == z3.unsat:
            s1, r1 = s1b, z3.unsat
    backend = 'z3'
    model = None
    reason = ''
    status = 'unknown'
    saturated = False
    if r1 == z3.unsat:
        status = 'discharged'
    elif r1 == z3.sat:
        status = 'refuted'
        info['definite'] = True
        zm = s1.model()
        if keep_model:
            model = model_summary(zm)
    else:
        reason = s1.reason_unknown()
        saturated = 'incomplete' in reason
        cand = None
        zm = None
        if saturated:
            try:
                zm = s1.model()
            except Exception:
                zm = None
        if saturated and ob.concrete_fail:
            # a structural failure on a path the executor found feasible: nothing to search for
            info['definite'] = False
            return Verdict(ob.name, 'refuted', 'z3', time.time() - t0, model=None, info=info,
                           reason=ob.concrete_fail + ' (path condition not refutable)')
        if saturated and keep_model:
            try:
                cand = model_summary(s1.model())
            except Exception:
                cand = None
        s2 = _solver(base_axioms, ob, min(timeout_s / 4, 8) if saturated else timeout_s, seed, mbqi=True)
        r2 = s2.check()
        if r2 == z3.unsat:
            status, backend = 'discharged', 'z3(mbqi)'
        elif r2 == z3.sat:
            status, backend = 'refuted', 'z3(mbqi)'
            info['definite'] = True
            zm = s2.model()
            if keep_model:
                model = model_summary(zm)
        else:
            reason += ' | mbqi: ' + s2.reason_unknown()
            cv, why = 'unknown', 'not run'
            try:
                cv, why = run_cvc5(export_smt2(base_axioms, ob), min(timeout_s / 4, 8) if saturated else timeout_s)
            except Exception as e:  # pragma: no cover
                why = str(e)
            if cv == 'unsat':
                status, backend = 'discharged', 'cvc5'
            elif cv == 'sat':
                status, backend = 'refuted', 'cvc5'
                info['definite'] = True
            elif saturated:
                status = 'refuted'
                info['definite'] = False
                model = cand
                reason = ('no proof: quantifier instantiation saturated with a candidate counter-model; '
                          'MBQI and cvc5 gave no definite answer (' + reason + ')')
            else:
                reason += f' | cvc5: {why}'
    if both and status == 'discharged' and backend == 'z3':
        try:
            cv, why = run_cvc5(export_smt2(base_axioms, ob), timeout_s)
            if cv == 'sat':
                status, backend, reason = 'unknown', 'z3+cvc5', 'solvers disagree: z3=unsat cvc5=sat'
            elif cv == 'unsat':
                backend = 'z3+cvc5'
        except Exception:  # pragma: no cover
            pass
    if ob.concrete_fail and status == 'refuted':
        reason = ob.concrete_fail
    v = Verdict(ob.name, status, backend, time.time() - t0, model=model, info=info, reason=reason)
    if status == 'refuted':
        v.z3_model = locals().get('zm')
    return v


def merge_verdicts(verdicts):
    """several paths may generate the same named obligation: it is discharged iff all are"""
    by_name = {}
    for v in verdicts:
        cur = by_name.get(v.name)
        if cur is None:
            by_name[v.name] = v
            continue
        cur.paths += 1
        cur.time_s += v.time_s
        rank = {'discharged': 0, 'unknown': 1, 'refuted': 2}
        if rank[v.status] > rank[cur.status]:
            v.paths = cur.paths
            v.time_s = cur.time_s
            by_name[v.name] = v
        elif cur.backend != v.backend and v.backend not in cur.backend:
            cur.backend = f'{cur.backend},{v.backend}' if v.backend != 'syntactic' else cur.backend
    return list(by_name.values())
