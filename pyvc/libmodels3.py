"""
Models of pathlib / pickle / json over an abstract file system (trusted base for C18), strings in z3's theory.
"""
import ast

import z3
from pyvc.values import FA

from .interp import (CallArgs, PyRaise, LibFn, LibRef, STR_OF)
from .models import used, CM
from .state import SymMap, SymSeq, SymSet
from .values import (PyV, NONE, TRUE, FALSE, LATTICE, subcls, Ref, ClsRef, EnumMember, Sym, SymV, SymB, SymI, SymS,
                     Unsupported, lift, lower, as_bool_term, eq_term, wrap_bool, z3_not, z3_and, z3_or, as_z3,
                     mk_str, mk_int, is_symbolic, IntS, BoolS, StrS, truthy_term)

FSAX = 'file system model: '
K_EMPTY, K_PICKLE, K_JSON = 0, 1, 2
IS_ENUM = z3.Function('is_enum_member', PyV, BoolS)
GLOBMATCH = z3.Function('fnmatch', StrS, StrS, BoolS)       # (pattern, name) for patterns with metacharacters
PICKLABLE = z3.Function('picklable', PyV, BoolS)
JSONABLE = z3.Function('json_representable', PyV, BoolS)
META = ('*', '?', '[')


def has_meta(s):
    return z3.Or(*[z3.Contains(s, z3.StringVal(c)) for c in META])


def new_fs(it):
    st = it.st
    fs = st.alloc('fs', dirs=SymSet.fresh(st, 'fs_dirs'), files=SymMap.fresh(st, 'fs_files'))
    st.ghost['fs'] = fs
    return fs


def fs_of(it):
    if 'fs' not in it.st.ghost:
        new_fs(it)
    return it.st.ghost['fs']


def content(kind, payload):
    return PyV.tup2(mk_int(kind), payload)


class FileNameS(SymS):
    """Path.name of a path whose last component was built as <stem> + '.ext' (ext a dot-free constant): a str that remembers
    how it was built, so that rpartition('.') needs no string solving"""
    __slots__ = ('stem', 'ext')

    def __init__(self, t, stem, ext):
        super().__init__(t)
        self.stem, self.ext = stem, ext


class PathV:
    """pathlib.Path as its string"""

    def __init__(self, s, suffix=None, stem_empty=None, last=None):
        self.s = s if not isinstance(s, str) else z3.StringVal(s)
        self.known_suffix = suffix     # constant '.ext' when the name was built as <anything> + '.ext' (ext dot-free)
        self.stem_empty = stem_empty   # z3 Bool: the part of the name before that '.ext' is empty (None: known non-empty)
        self.last = last               # the last component as it was appended (when it is known to hold no '/')

    def __repr__(self):
        return f'PathV({self.s})'

    def key(self):
        return PyV.str_(self.s)

    def same_as(self, other, st):
        return isinstance(other, PathV) and (self.s == other.s)

    def sym_binop(self, it, op, other):
        if not isinstance(op, ast.Div):
            raise Unsupported('path operator')
        if isinstance(other, PathV):
            o = other.s
        else:
            o = it.as_str(it.to_str(other))
        used(it, FSAX + 'Path / x appends "/" and str(x)')
        suffix, stem_empty = None, None
        o_s = z3.simplify(o)
        last = o_s.arg(o_s.num_args() - 1) if z3.is_app(o_s) and o_s.decl().kind() == z3.Z3_OP_SEQ_CONCAT else o_s
        if z3.is_string_value(last):
            txt = last.as_string()
            if '.' in txt and '/' not in txt:
                suffix = txt[txt.rindex('.'):]
                stem_empty = z3.simplify(z3.Length(o_s) == len(suffix))
                if z3.is_false(stem_empty):
                    stem_empty = None
        return PathV(z3.Concat(self.s, z3.StringVal('/'), o), suffix, stem_empty, o if suffix is not None else None)

    def sym_getattr(self, it, name):
        st = it.st
        if name == 'exists':
            def exists(it_, ca):
                fs = fs_of(it_)
                return wrap_bool(z3.Or(it_.st.getf(fs, 'dirs').contains(self.key()), it_.st.getf(fs, 'files').has(self.key())))
            return LibFn('Path.exists', exists)
        if name == 'mkdir':
            def mkdir(it_, ca):
                fs = fs_of(it_)
                used(it_, FSAX + 'mkdir(parents=True) creates the directory (OS errors not modelled)')
                it_.st.emit('fs_mkdir', path=self)
                it_.st.setf(fs, 'dirs', it_.st.getf(fs, 'dirs').add(self.key()))
            return LibFn('Path.mkdir', mkdir)
        if name == 'glob':
            return LibFn('Path.glob', lambda it_, ca: self.glob(it_, ca.args[0]))
        if name == 'open':
            return LibFn('Path.open', lambda it_, ca: open_file(it_, self, ca.args[0] if ca.args else 'r'))
        if name == 'unlink':
            def unlink(it_, ca):
                fs = fs_of(it_)
                files = it_.st.getf(fs, 'files')
                missing_ok = ca.kwargs.get('missing_ok', False)
                if not it_.st.branch(files.has(self.key()), 'unlink-exists'):
                    if missing_ok is True:
                        return None
                    it_.raise_builtin('FileNotFoundError')
                it_.st.emit('fs_unlink', path=self)
                it_.st.setf(fs, 'files', files.drop(self.key()))
            return LibFn('Path.unlink', unlink)
        if name == 'name' and self.known_suffix is not None and self.last is not None:
            used(it, FSAX + 'Path.name is the last component')
            n = len(self.known_suffix)
            if st.branch(z3.Contains(self.last, z3.StringVal('/')), 'tail-has-several-components'):
                raise Unsupported('Path.name of a path whose appended tail contains "/"')
            return FileNameS(self.last, z3.SubString(self.last, 0, z3.Length(self.last) - n), self.known_suffix[1:])
        if name == 'name':
            used(it, FSAX + 'Path.name is the last component')
            idx = z3.LastIndexOf(self.s, z3.StringVal('/'))
            return SymS(z3.SubString(self.s, idx + 1, z3.Length(self.s) - idx - 1))
        if name == 'suffix' and self.known_suffix is not None:
            used(it, FSAX + 'Path.suffix of a name built as <prefix> + ".ext" with a dot-free constant ext is ".ext" when the prefix '
                        'is not empty, and "" when it is (a name that is only ".ext" is a dot-file without suffix) (string lemma)')
            if self.stem_empty is None:
                return self.known_suffix
            if it.st.branch(self.stem_empty, 'dot-file-name'):
                return ''
            return self.known_suffix
        if name == 'suffix':
            used(it, FSAX + 'Path.suffix is the part of the name from its last "." (empty if none)')
            idx = z3.LastIndexOf(self.s, z3.StringVal('.'))
            return SymS(z3.If(idx < 0, z3.StringVal(''), z3.SubString(self.s, idx, z3.Length(self.s) - idx)))
        if name == 'with_suffix':
            def with_suffix(it_, ca):
                used(it_, FSAX + 'Path.with_suffix(s) replaces the part of the *name* from its last "." (if any) by s')
                suf = it_.as_str(ca.args[0])
                slash = z3.LastIndexOf(self.s, z3.StringVal('/'))
                dot = z3.LastIndexOf(self.s, z3.StringVal('.'))
                stem = z3.If(z3.And(dot > slash + 1), z3.SubString(self.s, 0, dot), self.s)
                return PathV(z3.Concat(stem, suf))
            return LibFn('Path.with_suffix', with_suffix)
        if name == 'is_file':
            return LibFn('Path.is_file', lambda it_, ca: wrap_bool(it_.st.getf(fs_of(it_), 'files').has(self.key())))
        raise Unsupported(f'Path.{name}')

    def glob(self, it, pattern):
        st = it.st
        fs = fs_of(it)
        files = st.getf(fs, 'files')
        pat = it.as_str(pattern)
        used(it, FSAX + 'Path.glob(p) lists exactly the entries of the directory whose name matches p; for p = lit + ".*" with '
                        'lit free of * ? [ the match is "name starts with lit + \'.\'", otherwise fnmatch is uninterpreted')
        n = st.fresh_int('glob_len')
        names = st.fresh_array('glob_names', IntS, StrS)
        st.assume(n >= 0)
        i, j = z3.Ints('gi gj')
        nm = z3.String('gname')
        lit_len = z3.Length(pat) - 2
        lit = z3.SubString(pat, 0, lit_len)
        simple = z3.And(z3.SuffixOf(z3.StringVal('.*'), pat), z3.Not(has_meta(lit)))

        def match(name):
            return z3.If(simple, z3.PrefixOf(z3.Concat(lit, z3.StringVal('.')), name), GLOBMATCH(pat, name))

        def full(name):
            return PyV.str_(z3.Concat(self.s, z3.StringVal('/'), name))
        idx = st.fresh_func('glob_idx', StrS, IntS)
        st.assume(z3.ForAll([i], z3.Implies(z3.And(i >= 0, i < n), z3.And(
            files.has(full(names[i])), match(names[i]), z3.Not(z3.Contains(names[i], z3.StringVal('/'))),
            idx(names[i]) == i)), patterns=[names[i]]))
        st.assume(z3.ForAll([nm], z3.Implies(z3.And(files.has(full(nm)), match(nm), z3.Not(z3.Contains(nm, z3.StringVal('/')))),
                                             z3.And(idx(nm) >= 0, idx(nm) < n, names[idx(nm)] == nm)),
                            patterns=[files.has(full(nm))]))
        st.emit('fs_glob', dir=self, pattern=pattern)
        return GlobResult(self, n, names)


class GlobResult:
    def __init__(self, d, n, names):
        self.d, self.n, self.names = d, n, names

    def as_list(self, it):
        return PathList(self)

    def path_at(self, i):
        return PathV(z3.Concat(self.d.s, z3.StringVal('/'), self.names[i]))


class PathList:
    """list(Path.glob(...))"""

    def __init__(self, g):
        self.g = g

    def sym_len(self, it):
        return SymI(self.g.n)

    def sym_getitem(self, it, key):
        k = it.as_int(key)
        if not it.st.branch(z3.And(k >= 0, k < self.g.n), 'glob-index'):
            it.raise_builtin('IndexError')
        return self.g.path_at(k)

    def sym_truthy(self):
        return self.g.n > 0


class FileV(CM):
    """an open file object; also the context manager `with f:` (enter returns the object itself)"""

    def __init__(self, path, mode):
        self.path, self.mode = path, mode

    def sym_getattr(self, it, name):
        if name == 'seek':
            return LibFn('file.seek', lambda it_, ca: 0)
        if name == 'close':
            return LibFn('file.close', lambda it_, ca: None)
        if name == 'write':
            raise Unsupported('file.write')
        raise Unsupported(f'file.{name}')

    def cm_enter(self, it, is_async):
        return self

    def cm_exit(self, it, is_async, pr):
        return False


def open_file(it, path, mode):
    """Path.open(mode): the file is opened (created / truncated / required to exist) by the call itself"""
    st = it.st
    fs = fs_of(it)
    files = st.getf(fs, 'files')
    if not isinstance(mode, str):
        raise Unsupported('symbolic file mode')
    used(it, FSAX + 'open(path, "w*") creates / truncates the file at once; open(path, "x*") creates it and raises '
                    'FileExistsError if it exists; open(path, "r*") requires it to exist')
    if mode.startswith('w'):
        st.emit('fs_create', path=path, mode=mode)
        st.setf(fs, 'files', files.store(path.key(), content(K_EMPTY, NONE)))
    elif mode.startswith('x'):
        if st.branch(files.has(path.key()), 'open-x-exists'):
            it.raise_builtin('FileExistsError')
        st.emit('fs_create', path=path, mode=mode)
        st.setf(fs, 'files', files.store(path.key(), content(K_EMPTY, NONE)))
    elif mode.startswith('r'):
        if not st.branch(files.has(path.key()), 'open-exists'):
            it.raise_builtin('FileNotFoundError')
    else:
        raise Unsupported(f'file mode {mode!r}')
    return FileV(path, mode)


class FsPlugin:
    def lib_value(self, it, dotted):
        if dotted == 'pathlib.Path':
            return (LibFn('pathlib.Path', self.make_path),)
        if dotted == 'pickle.dump':
            return (LibFn(dotted, self.pickle_dump),)
        if dotted == 'pickle.load':
            return (LibFn(dotted, self.pickle_load),)
        if dotted == 'json.dump':
            return (LibFn(dotted, self.json_dump),)
        if dotted == 'json.load':
            return (LibFn(dotted, self.json_load),)
        if dotted in ('pickle', 'json', 'pathlib', 'io'):
            return (LibRef(dotted),)
        return None

    def str_method(self, it, s, name, ca):
        if isinstance(s, FileNameS) and name in ('rpartition', 'rsplit') and ca.args and ca.args[0] == '.':
            used(it, FSAX + 'rpartition(".") / rsplit(".", 1) of a file name built as <stem> + ".ext" (ext dot-free): (stem, ".", ext)')
            if name == 'rpartition' and len(ca.args) == 1:
                return ((SymS(s.stem), '.', s.ext),)
            if name == 'rsplit' and len(ca.args) == 2 and ca.args[1] == 1:
                return (it.new_list((SymS(s.stem), s.ext)),)
        return None

    def make_path(self, it, ca):
        x = ca.args[0]
        if isinstance(x, PathV):
            return x
        if isinstance(x, Ref) and x.cls == 'fs':
            raise Unsupported('Path(fs)')
        s = it.as_str(it.to_str(x))
        return PathV(s)

    def isinstance_symv(self, it, v, spec):
        if spec.name.split('.')[-1] == 'Enum':
            used(it, 'isinstance(x, Enum) on a user value: uninterpreted')
            return (IS_ENUM(v.t),)
        return None

    def isinstance_other(self, it, v, spec):
        if isinstance(v, PathV):
            return (spec.name.split('.')[-1] in ('Path', 'PurePath'),)
        return None

    def to_str(self, it, v):
        if isinstance(v, PathV):
            return (SymS(v.s),)
        return None

    def length(self, it, v):
        if isinstance(v, PathList):
            return (v.sym_len(it),)
        return None

    def iterate(self, it, v):
        return None

    # ---- serializers ------------------------------------------------------------------
    def _file(self, fp):
        if not isinstance(fp, FileV):
            raise Unsupported(f'serialisation into {fp!r}')
        return fp

    def pickle_dump(self, it, ca):
        st = it.st
        obj, fp = ca.args[0], self._file(ca.args[1])
        used(it, 'pickle.dump(obj, fp): needs a binary file; raises for unpicklable objects (then the file keeps what was '
                 'written so far); otherwise the file decodes to obj with pickle.load')
        if 'b' not in fp.mode:
            it.raise_builtin('TypeError', 'write() argument must be str, not bytes')
        v = lift(obj, st)
        if not st.branch(PICKLABLE(v), 'picklable'):
            raise PyRaise(it.new_exception(ClsRef('builtins.PicklingError')), 'unpicklable object')
        fs = fs_of(it)
        st.emit('fs_write', path=fp.path, fkind=K_PICKLE, value=obj)
        st.setf(fs, 'files', st.getf(fs, 'files').store(fp.path.key(), content(K_PICKLE, v)))

    def json_dump(self, it, ca):
        st = it.st
        obj, fp = ca.args[0], self._file(ca.args[1])
        used(it, 'json.dump(obj, fp): writes str chunks, so it needs a text file (TypeError on a binary one); raises TypeError '
                 'for objects json cannot represent; otherwise the file decodes to obj with json.load')
        v = lift(obj, st)
        if not st.branch(JSONABLE(v), 'json-representable'):
            it.raise_builtin('TypeError', 'Object is not JSON serializable')
        if 'b' in fp.mode:
            it.raise_builtin('TypeError', "a bytes-like object is required, not 'str'")
        fs = fs_of(it)
        st.emit('fs_write', path=fp.path, fkind=K_JSON, value=obj)
        st.setf(fs, 'files', st.getf(fs, 'files').store(fp.path.key(), content(K_JSON, v)))

    def _load(self, it, ca, kind, err):
        st = it.st
        fp = self._file(ca.args[0])
        fs = fs_of(it)
        c = st.getf(fs, 'files').at(fp.path.key())
        ok = z3.And(PyV.is_tup2(c), PyV.t0(c) == mk_int(kind))
        if not st.branch(ok, 'decodes'):
            raise PyRaise(it.new_exception(ClsRef(f'builtins.{err}')), 'file content is not a complete document of this format')
        return lower(PyV.t1(c), st)

    def pickle_load(self, it, ca):
        used(it, 'pickle.load(fp) returns the object a completed pickle.dump wrote; raises on empty / foreign content')
        return self._load(it, ca, K_PICKLE, 'ValueError')

    def json_load(self, it, ca):
        used(it, 'json.load(fp) returns the object a completed json.dump wrote; raises ValueError on empty / foreign content')
        return self._load(it, ca, K_JSON, 'ValueError')


def install(reg):
    reg.plug(FsPlugin())
