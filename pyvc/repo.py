"""
Loads the *current working tree* of /repo with ``ast`` on every run (nothing cached) and indexes
modules, classes and functions.  Nothing is imported or executed.
"""
import ast
import hashlib
import os

REPO_ROOT = os.environ.get('PYVC_REPO', '/repo')
PACKAGES = ('ml_pipeline_engine', 'ml_pipeline_viewer')


class FuncInfo:
    def __init__(self, module, qualname, node, cls=None):
        self.module = module
        self.qualname = qualname
        self.node = node
        self.cls = cls
        self.is_async = isinstance(node, ast.AsyncFunctionDef)
        self.decorators = [ast.unparse(d) for d in node.decorator_list]

    @property
    def key(self):
        return f'{self.module.path}::{self.qualname}'

    @property
    def is_static(self):
        return 'staticmethod' in self.decorators

    @property
    def is_classmethod(self):
        return 'classmethod' in self.decorators

    @property
    def is_property(self):
        return 'property' in self.decorators

    def __repr__(self):
        return f'<func {self.key}>'


class ClassInfo:
    def __init__(self, module, name, node):
        self.module = module
        self.name = name
        self.node = node
        self.base_exprs = [ast.unparse(b) for b in node.bases]
        self.keywords = {k.arg: ast.unparse(k.value) for k in node.keywords}
        self.methods = {}
        self.attrs = {}        # class-level simple assignments name -> ast expr
        self.ann_fields = []   # dataclass-style annotated fields (name, default ast or None)
        self.decorators = [ast.unparse(d) for d in node.decorator_list]
        for item in node.body:
            if isinstance(item, (ast.FunctionDef, ast.AsyncFunctionDef)):
                self.methods[item.name] = FuncInfo(module, f'{name}.{item.name}', item, cls=self)
            elif isinstance(item, ast.Assign) and len(item.targets) == 1 and isinstance(item.targets[0], ast.Name):
                self.attrs[item.targets[0].id] = item.value
            elif isinstance(item, ast.AnnAssign) and isinstance(item.target, ast.Name):
                ann = ast.unparse(item.annotation)
                if 'ClassVar' in ann:
                    if item.value is not None:
                        self.attrs[item.target.id] = item.value
                else:
                    self.ann_fields.append((item.target.id, item.value))
                    if item.value is not None:
                        self.attrs[item.target.id] = item.value

    @property
    def key(self):
        return f'{self.module.path}::{self.name}'

    @property
    def is_dataclass(self):
        return any(d.startswith('dataclass') for d in self.decorators)

    def __repr__(self):
        return f'<classinfo {self.key}>'


class ModuleInfo:
    def __init__(self, name, path, tree, source):
        self.name = name
        self.is_package = path.endswith('__init__.py')
        self.path = path          # repo-relative path
        self.tree = tree
        self.source = source
        self.defs = {}            # name -> ('func', FuncInfo) | ('class', ClassInfo) | ('import', mod, name) | ('module', mod) | ('assign', expr)
        for item in tree.body:
            self._index(item)

    def _index(self, item):
        if isinstance(item, (ast.FunctionDef, ast.AsyncFunctionDef)):
            self.defs[item.name] = ('func', FuncInfo(self, item.name, item))
        elif isinstance(item, ast.ClassDef):
            self.defs[item.name] = ('class', ClassInfo(self, item.name, item))
        elif isinstance(item, ast.ImportFrom):
            mod = item.module or ''
            if item.level:
                up = item.level - 1 if self.is_package else item.level
                base = self.name.rsplit('.', up)[0] if up else self.name
                mod = f'{base}.{mod}' if mod else base
            for alias in item.names:
                if alias.name == '*':
                    self.defs.setdefault('*', ('star', []))[1].append(mod)
                else:
                    self.defs[alias.asname or alias.name] = ('import', mod, alias.name)
        elif isinstance(item, ast.Import):
            for alias in item.names:
                if alias.asname:
                    self.defs[alias.asname] = ('module', alias.name)
                else:
                    self.defs[alias.name.split('.')[0]] = ('module', alias.name.split('.')[0])
        elif isinstance(item, ast.Assign) and len(item.targets) == 1 and isinstance(item.targets[0], ast.Name):
            self.defs[item.targets[0].id] = ('assign', item.value)
        elif isinstance(item, ast.AnnAssign) and isinstance(item.target, ast.Name) and item.value is not None:
            self.defs[item.target.id] = ('assign', item.value)
        elif isinstance(item, (ast.If, ast.Try)):
            for sub in item.body:
                self._index(sub)


class Repo:
    def __init__(self, root=None):
        self.root = root or REPO_ROOT
        self.modules = {}
        self.by_path = {}
        self.digest = hashlib.sha256()
        for pkg in PACKAGES:
            pkg_dir = os.path.join(self.root, pkg)
            for dirpath, _dirs, files in sorted(os.walk(pkg_dir)):
                for fn in sorted(files):
                    if not fn.endswith('.py'):
                        continue
                    full = os.path.join(dirpath, fn)
                    rel = os.path.relpath(full, self.root)
                    modname = rel[:-3].replace(os.sep, '.')
                    if modname.endswith('.__init__'):
                        modname = modname[:-9]
                    src = open(full, encoding='utf-8').read()
                    self.digest.update(rel.encode() + b'\0' + src.encode() + b'\0')
                    try:
                        tree = ast.parse(src)
                    except SyntaxError:
                        continue
                    mi = ModuleInfo(modname, rel, tree, src)
                    self.modules[modname] = mi
                    self.by_path[rel] = mi

    def is_repo_module(self, name):
        return name in self.modules

    def resolve(self, modname, name, _seen=None):
        """Follow imports; returns ('func', fi) | ('class', ci) | ('assign', expr, module) | ('lib', dotted) | ('module', name)"""
        _seen = _seen or set()
        if (modname, name) in _seen:
            return None
        _seen.add((modname, name))
        mi = self.modules.get(modname)
        if mi is None:
            return ('lib', f'{modname}.{name}')
        d = mi.defs.get(name)
        if d is None:
            for star_mod in mi.defs.get('*', ('star', []))[1]:
                r = self.resolve(star_mod, name, _seen)
                if r is not None and r[0] != 'missing':
                    return r
            # submodule?
            if f'{modname}.{name}' in self.modules:
                return ('module', f'{modname}.{name}')
            return ('missing', f'{modname}.{name}')
        if d[0] == 'import':
            target_mod, target_name = d[1], d[2]
            if target_mod in self.modules:
                return self.resolve(target_mod, target_name, _seen)
            if f'{target_mod}.{target_name}' in self.modules:
                return ('module', f'{target_mod}.{target_name}')
            return ('lib', f'{target_mod}.{target_name}')
        if d[0] == 'module':
            if d[1] in self.modules:
                return ('module', d[1])
            return ('lib', d[1])
        if d[0] == 'assign':
            return ('assign', d[1], mi)
        return d

    def function(self, path, qualname):
        mi = self.by_path.get(path)
        if mi is None:
            return None
        parts = qualname.split('.')
        d = mi.defs.get(parts[0])
        if d is None:
            return None
        if len(parts) == 1:
            return d[1] if d[0] == 'func' else None
        if d[0] != 'class':
            return None
        return d[1].methods.get(parts[1])

    def klass(self, path, name):
        mi = self.by_path.get(path)
        if mi is None:
            return None
        d = mi.defs.get(name)
        return d[1] if d and d[0] == 'class' else None

    def find_class(self, name):
        """by bare name (first match)"""
        for mi in self.modules.values():
            d = mi.defs.get(name)
            if d and d[0] == 'class':
                return d[1]
        return None

    def class_bases(self, ci):
        """resolve base expressions to ClassInfo or library dotted name strings"""
        out = []
        for b in ci.base_exprs:
            head = b.split('[')[0]
            parts = head.split('.')
            r = self.resolve(ci.module.name, parts[0])
            if r is None or r[0] == 'missing':
                out.append(head)
            elif r[0] == 'class':
                out.append(r[1])
            elif r[0] in ('lib', 'module'):
                out.append('.'.join([r[1]] + parts[1:]))
            else:
                out.append(head)
        return out

    def mro(self, ci):
        """simple linearisation (DFS, first occurrence) — enough for the single-inheritance chains
        and mixins of this code base; library bases are returned as strings"""
        out = []

        def visit(c):
            if c in out:
                return
            out.append(c)
            if isinstance(c, ClassInfo):
                for b in self.class_bases(c):
                    visit(b)
        visit(ci)
        return out

    def find_method(self, ci, name):
        for c in self.mro(ci):
            if isinstance(c, ClassInfo) and name in c.methods:
                return c.methods[name]
        return None

    def find_class_attr(self, ci, name):
        for c in self.mro(ci):
            if isinstance(c, ClassInfo) and name in c.attrs:
                return c.attrs[name], c
        return None

    def lib_bases(self, ci):
        return [c for c in self.mro(ci) if isinstance(c, str)]
