"""
pyvc value universe.

All symbolic Python values live in one z3 algebraic datatype ``PyV``; the executor keeps
Python-side wrappers (SymV / SymB / SymI / SymS) so that statically known types use the native
z3 sorts.  Heap objects are never z3 terms: they are ``Ref`` handles into the state's heap and
are lifted to ``ref(id)`` only when stored inside a symbolic container.
"""
import z3

# --------------------------------------------------------------------------------------
# The datatype
# --------------------------------------------------------------------------------------
_PyV = z3.Datatype('PyV')
_PyV.declare('none')
_PyV.declare('bool_', ('b', z3.BoolSort()))
_PyV.declare('int_', ('i', z3.IntSort()))
_PyV.declare('str_', ('s', z3.StringSort()))
_PyV.declare('tup2', ('t0', _PyV), ('t1', _PyV))
_PyV.declare('rec', ('rdata', _PyV))                 # ml_pipeline_engine.types.Recurrent
_PyV.declare('exc', ('ecls', z3.IntSort()), ('eid', z3.IntSort()))   # exception instance
_PyV.declare('case', ('clabel', _PyV), ('cnode', _PyV))            # types.CaseResult
_PyV.declare('opq', ('oid', z3.IntSort()))           # opaque user value
_PyV.declare('ref', ('rid', z3.IntSort()))           # reference to a heap object / class
_PyV.declare('task', ('tid', z3.IntSort()))          # asyncio.Task (state lives in the world object)
PyV = _PyV.create()

NONE = PyV.none
TRUE = PyV.bool_(z3.BoolVal(True))
FALSE = PyV.bool_(z3.BoolVal(False))

IntS = z3.IntSort()
BoolS = z3.BoolSort()
StrS = z3.StringSort()


def mk_str(s):
    return PyV.str_(z3.StringVal(s))


def mk_int(i):
    return PyV.int_(z3.IntVal(i))


# user-value truthiness is uninterpreted (DESIGN §2.3)
u_truthy = z3.Function('u_truthy', IntS, BoolS)


TRUTHY = z3.Function('truthy', PyV, BoolS)


def truthy_term(v):
    """Python truthiness of a PyV term, as a z3 Bool.  An uninterpreted predicate pinned down by axioms for the
    built-in constructors (keeps strings / arithmetic out of formulas that merely test a flag); free for opaque
    user values."""
    return TRUTHY(v)


def truthy_axioms():
    b = z3.Bool('tb')
    i = z3.Int('ti')
    s = z3.String('ts')
    x = z3.Const('tx', PyV)
    return [
        z3.Not(TRUTHY(NONE)),
        z3.ForAll([b], TRUTHY(PyV.bool_(b)) == b, patterns=[TRUTHY(PyV.bool_(b))]),
        z3.ForAll([i], TRUTHY(PyV.int_(i)) == (i != 0), patterns=[TRUTHY(PyV.int_(i))]),
        z3.ForAll([s], TRUTHY(PyV.str_(s)) == (z3.Length(s) > 0), patterns=[TRUTHY(PyV.str_(s))]),
        z3.ForAll([x], z3.Implies(z3.Or(PyV.is_rec(x), PyV.is_exc(x), PyV.is_case(x), PyV.is_tup2(x), PyV.is_task(x),
                                        PyV.is_ref(x)), TRUTHY(x)), patterns=[TRUTHY(x)]),
        z3.ForAll([i], TRUTHY(PyV.opq(i)) == u_truthy(i), patterns=[TRUTHY(PyV.opq(i))]),
    ]


# --------------------------------------------------------------------------------------
# Exception class lattice
# --------------------------------------------------------------------------------------
subcls = z3.Function('subcls', IntS, IntS, BoolS)


class ClassLattice:
    """Concrete classes get integer codes; user classes are symbolic Ints."""

    BUILTIN_PARENTS = {
        'BaseException': None,
        'Exception': 'BaseException',
        'CancelledError': 'BaseException',
        'KeyboardInterrupt': 'BaseException',
        'SystemExit': 'BaseException',
        'GeneratorExit': 'BaseException',
        'LookupError': 'Exception',
        'KeyError': 'LookupError',
        'IndexError': 'LookupError',
        'AttributeError': 'Exception',
        'RuntimeError': 'Exception',
        'NotImplementedError': 'RuntimeError',
        'TypeError': 'Exception',
        'ValueError': 'Exception',
        'OSError': 'Exception',
        'FileNotFoundError': 'OSError',
        'FileExistsError': 'OSError',
        'ImportError': 'Exception',
        'StopIteration': 'Exception',
        'PicklingError': 'Exception',
    }

    def __init__(self):
        self.codes = {}
        self.parents = {}
        for name, parent in self.BUILTIN_PARENTS.items():
            self.register(name, parent)

    def register(self, name, parent):
        if name in self.codes:
            return self.codes[name]
        if parent is not None and parent not in self.codes:
            raise KeyError(f'parent class {parent} of {name} is not registered')
        self.codes[name] = len(self.codes)
        self.parents[name] = parent
        return self.codes[name]

    def code(self, name):
        return self.codes[name]

    def is_sub(self, a, b):
        while a is not None:
            if a == b:
                return True
            a = self.parents[a]
        return False

    def name_of(self, code):
        for k, v in self.codes.items():
            if v == code:
                return k
        return f'UserExc{code}'

    def axioms(self):
        """Order axioms.  For a concrete class a: subcls(a, y) <=> y is one of its concrete ancestors
        (user classes derive from library classes, never the other way round); for arbitrary
        (user) classes: reflexivity, transitivity, everything is below BaseException."""
        ax = []
        names = list(self.codes)
        x, y, w = z3.Ints('cx cy cw')
        for a in names:
            anc = [self.codes[b] for b in names if self.is_sub(a, b)]
            ax.append(z3.ForAll([y], subcls(self.codes[a], y) == z3.Or([y == c for c in anc]),
                                patterns=[subcls(self.codes[a], y)]))
        ax.append(z3.ForAll([x], subcls(x, x), patterns=[subcls(x, x)]))
        ax.append(z3.ForAll([x], subcls(x, self.codes['BaseException']),
                            patterns=[subcls(x, self.codes['BaseException'])]))
        ax.append(z3.ForAll([x, y, w], z3.Implies(z3.And(subcls(x, y), subcls(y, w)), subcls(x, w)),
                            patterns=[z3.MultiPattern(subcls(x, y), subcls(y, w))]))
        return ax + truthy_axioms() + [f() for f in EXTRA_AXIOMS for f in [f]][0:0] + [a for f in EXTRA_AXIOMS for a in f()]


EXTRA_AXIOMS = []      # functions returning additional global axioms (registered by library models)
LATTICE = ClassLattice()


# --------------------------------------------------------------------------------------
# Python-side wrappers
# --------------------------------------------------------------------------------------
class Sym:
    __slots__ = ('t',)

    def __init__(self, t):
        self.t = t

    def __repr__(self):
        return f'{type(self).__name__}({self.t})'

    # symbolic values must never be used as Python booleans / hashed by accident
    def __bool__(self):
        raise TypeError('symbolic value used as a concrete bool')


class SymV(Sym):
    """arbitrary Python value (PyV sort)"""


class SymB(Sym):
    """Python bool (z3 Bool)"""


class SymI(Sym):
    """Python int (z3 Int)"""


class SymS(Sym):
    """Python str (z3 String)"""


class Ref:
    """Handle of a heap object. ``cls`` is the concrete class name, known on every path."""
    __slots__ = ('id', 'cls')

    def __init__(self, id, cls):
        self.id = id
        self.cls = cls

    def __repr__(self):
        return f'<{self.cls}#{self.id}>'

    def __eq__(self, other):
        return isinstance(other, Ref) and other.id == self.id

    def __hash__(self):
        return hash(('Ref', self.id))


class ClsRef:
    """A concrete class (or other global, immutable, named object) of /repo or a library."""
    __slots__ = ('name', 'info')

    def __init__(self, name, info=None):
        self.name = name
        self.info = info

    def __repr__(self):
        return f'<class {self.name}>'

    def __eq__(self, other):
        return isinstance(other, ClsRef) and other.name == self.name

    def __hash__(self):
        return hash(('ClsRef', self.name))


class EnumMember:
    """Member of a ``(str, Enum)`` class of /repo: behaves as its string value for ==, hash, in."""
    __slots__ = ('cls', 'name', 'value')

    def __init__(self, cls, name, value):
        self.cls, self.name, self.value = cls, name, value

    def __repr__(self):
        return f'{self.cls}.{self.name}'

    def __eq__(self, other):
        if isinstance(other, EnumMember):
            return other.value == self.value
        return other == self.value

    def __hash__(self):
        return hash(self.value)


class Unsupported(Exception):
    """A construct outside the implemented subset: affected obligations become UNDECIDED."""


def is_symbolic(x):
    return isinstance(x, Sym)


def lift(x, state=None):
    """Python-side value -> PyV term."""
    if isinstance(x, SymV):
        return x.t
    if isinstance(x, SymB):
        return PyV.bool_(x.t)
    if isinstance(x, SymI):
        return PyV.int_(x.t)
    if isinstance(x, SymS):
        return PyV.str_(x.t)
    if x is None:
        return NONE
    if isinstance(x, bool):
        return TRUE if x else FALSE
    if isinstance(x, int):
        return mk_int(x)
    if isinstance(x, str):
        return mk_str(x)
    if isinstance(x, EnumMember):
        return mk_str(x.value)
    if isinstance(x, tuple) and len(x) == 2:
        return PyV.tup2(lift(x[0], state), lift(x[1], state))
    if isinstance(x, Ref):
        if state is not None:
            lifted = state.lift_ref(x)
            if lifted is not None:
                return lifted
        return PyV.ref(z3.IntVal(x.id))
    if isinstance(x, ClsRef):
        if state is None:
            raise Unsupported(f'lift of class {x} without state')
        return PyV.ref(z3.IntVal(state.class_id(x)))
    if z3.is_expr(x) and x.sort() == PyV:
        return x
    raise Unsupported(f'cannot lift {x!r} into PyV')


def lower(t, state=None):
    """PyV term -> most specific Python-side value."""
    t = z3.simplify(t)
    d = t.decl()
    if d.eq(PyV.none):
        return None
    if d.eq(PyV.bool_):
        b = t.arg(0)
        if z3.is_true(b):
            return True
        if z3.is_false(b):
            return False
        return SymB(b)
    if d.eq(PyV.int_):
        i = t.arg(0)
        if z3.is_int_value(i):
            return i.as_long()
        return SymI(i)
    if d.eq(PyV.str_):
        s = t.arg(0)
        if z3.is_string_value(s):
            return s.as_string()
        return SymS(s)
    if d.eq(PyV.ref) and z3.is_int_value(t.arg(0)) and state is not None:
        obj = state.unlift_ref(t.arg(0).as_long())
        if obj is not None:
            return obj
    return SymV(t)


def as_bool_term(x):
    """truthiness of a Python-side value as python bool or z3 Bool"""
    if isinstance(x, SymB):
        return x.t
    if isinstance(x, SymI):
        return x.t != 0
    if isinstance(x, SymS):
        return z3.Length(x.t) > 0
    if isinstance(x, SymV):
        low = lower(x.t)
        if not isinstance(low, SymV):
            return as_bool_term(low)
        return truthy_term(x.t)
    if isinstance(x, (Ref, ClsRef)):
        return True
    if isinstance(x, EnumMember):
        return bool(x.value)
    if isinstance(x, Sym):
        raise Unsupported(f'truthiness of {x!r}')
    if hasattr(x, 'sym_truthy'):
        return x.sym_truthy()
    if z3.is_expr(x) and z3.is_bool(x):
        return x
    return bool(x)


def to_z3_bool(x):
    b = as_bool_term(x)
    if isinstance(b, bool):
        return z3.BoolVal(b)
    return b


def eq_term(a, b, state=None):
    """Python ``a == b`` as python bool or z3 Bool (structural; see DESIGN §2.3)."""
    if not is_symbolic(a) and not is_symbolic(b):
        if isinstance(a, (Ref, ClsRef)) or isinstance(b, (Ref, ClsRef)):
            if isinstance(a, Ref) and isinstance(b, Ref) and state is not None:
                la, lb = state.lift_ref(a), state.lift_ref(b)
                if la is not None and lb is not None:
                    return z3.simplify(la == lb)
            return a == b
        try:
            return a == b
        except Exception as e:  # pragma: no cover
            raise Unsupported(f'== on {a!r}, {b!r}: {e}')
    if isinstance(a, SymB) and isinstance(b, SymB):
        return a.t == b.t
    if isinstance(a, SymI) and isinstance(b, (SymI, int)) and not isinstance(b, bool):
        return a.t == (b.t if isinstance(b, SymI) else b)
    if isinstance(b, SymI) and isinstance(a, int) and not isinstance(a, bool):
        return b.t == a
    if isinstance(a, SymS) and isinstance(b, (SymS, str)):
        return a.t == (b.t if isinstance(b, SymS) else z3.StringVal(b))
    if isinstance(b, SymS) and isinstance(a, str):
        return b.t == z3.StringVal(a)
    r = z3.simplify(lift(a, state) == lift(b, state))
    if z3.is_true(r):
        return True
    if z3.is_false(r):
        return False
    return r


def wrap_bool(b):
    if isinstance(b, bool):
        return b
    b = z3.simplify(b)
    if z3.is_true(b):
        return True
    if z3.is_false(b):
        return False
    return SymB(b)


def z3_not(b):
    if isinstance(b, bool):
        return not b
    return z3.Not(b)


def z3_and(*bs):
    out = []
    for b in bs:
        if isinstance(b, bool):
            if not b:
                return False
            continue
        out.append(b)
    if not out:
        return True
    return z3.And(*out) if len(out) > 1 else out[0]


def z3_or(*bs):
    out = []
    for b in bs:
        if isinstance(b, bool):
            if b:
                return True
            continue
        out.append(b)
    if not out:
        return False
    return z3.Or(*out) if len(out) > 1 else out[0]


def as_z3(b):
    if isinstance(b, bool):
        return z3.BoolVal(b)
    if isinstance(b, SymB):
        return b.t
    return b


_BAD_PATTERN_KINDS = None


def _pattern_ok(p, _seen=None):
    global _BAD_PATTERN_KINDS
    if _BAD_PATTERN_KINDS is None:
        _BAD_PATTERN_KINDS = {z3.Z3_OP_AND, z3.Z3_OP_OR, z3.Z3_OP_NOT, z3.Z3_OP_ITE, z3.Z3_OP_EQ, z3.Z3_OP_IMPLIES,
                              z3.Z3_OP_DISTINCT, z3.Z3_OP_LE, z3.Z3_OP_GE, z3.Z3_OP_LT, z3.Z3_OP_GT, z3.Z3_OP_IFF}
    if isinstance(p, z3.PatternRef) or (z3.is_app(p) and p.decl().name() == 'pattern'):
        return all(_pattern_ok(c) for c in p.children())
    if z3.is_quantifier(p):
        return False
    if z3.is_app(p):
        if p.decl().kind() in _BAD_PATTERN_KINDS:
            return False
        return all(_pattern_ok(c) for c in p.children())
    return True


def _subterms(t, acc, seen):
    if t.get_id() in seen:
        return
    seen.add(t.get_id())
    if z3.is_quantifier(t):
        return          # do not look for triggers under nested binders
    if z3.is_app(t):
        for c in t.children():
            _subterms(c, acc, seen)
        acc.append(t)


def _size(t, memo):
    k = t.get_id()
    if k in memo:
        return memo[k]
    memo[k] = 1
    if z3.is_app(t):
        memo[k] = 1 + sum(_size(c, memo) for c in t.children())
    return memo[k]


def _vars_in(t, vs, memo):
    k = t.get_id()
    if k in memo:
        return memo[k]
    out = set()
    for i, v in enumerate(vs):
        if t.eq(v):
            out.add(i)
    if z3.is_app(t):
        for c in t.children():
            out |= _vars_in(c, vs, memo)
    memo[k] = out
    return out


def auto_patterns(vs, body):
    """choose small array-read / uninterpreted-function triggers covering all bound variables, so that an
    instantiation does not itself create new instances of the trigger (avoids matching loops)"""
    acc, seen = [], set()
    _subterms(body, acc, seen)
    vmemo, smemo = {}, {}
    cands = []
    for t in acc:
        if not z3.is_app(t) or t.num_args() == 0:
            continue
        kind = t.decl().kind()
        if kind not in (z3.Z3_OP_SELECT, z3.Z3_OP_UNINTERPRETED):
            continue
        if not _pattern_ok(t):
            continue
        if kind == z3.Z3_OP_SELECT and not z3.is_const(t.arg(0)):
            continue      # reads of computed arrays (stores, ites) make poor triggers
        vv = _vars_in(t, vs, vmemo)
        if not vv:
            continue
        cands.append((_size(t, smemo), t, vv))
    cands.sort(key=lambda c: c[0])
    allv = set(range(len(vs)))
    full = [t for _sz, t, vv in cands if vv == allv]
    if full:
        # one trigger per distinct array / function symbol (so that the axiom fires from either side), at most 6
        out, heads = [], set()
        for t in full:
            h = t.arg(0).get_id() if t.decl().kind() == z3.Z3_OP_SELECT else t.decl().name()
            if h in heads:
                continue
            heads.add(h)
            out.append(t)
            if len(out) == 6:
                break
        return out
    # multi-pattern: greedily cover the variables with the smallest terms
    chosen, covered = [], set()
    for _sz, t, vv in cands:
        if not vv <= covered:
            chosen.append(t)
            covered |= vv
        if covered == allv:
            return [z3.MultiPattern(*chosen)] if len(chosen) > 1 else chosen
    return []


_MARK = z3.Function('mark', PyV, z3.BoolSort())


def mark(t):
    """An uninterpreted, unconstrained predicate.  Used as an extra antecedent `mark(t)` in goals of the form
    ∀j. P(j) → ∃k. Q(t(j), k): after negation and skolemisation the term t(j0) is then a ground term of the e-graph
    (z3 does not internalise ground terms that only occur under a quantifier), so ∀k ¬Q can be instantiated by
    matching.  The goal must hold for every interpretation of `mark`, in particular `true`: nothing is weakened."""
    return _MARK(t)


def FA(vs, body, patterns=None):
    """ForAll with triggers.  Inadmissible triggers (boolean structure, arithmetic relations) are dropped; without
    usable triggers small array-read / function-application triggers are chosen from the body."""
    import sys
    fr = sys._getframe(1)
    qid = f"{fr.f_code.co_filename.rsplit('/', 1)[-1][:-3]}_L{fr.f_lineno}"
    pats = []
    for p in patterns or ():
        try:
            if isinstance(p, z3.ExprRef) and not isinstance(p, z3.PatternRef):
                if not _pattern_ok(p):
                    continue
            elif not all(_pattern_ok(p.arg(i)) for i in range(p.num_args())):
                continue
            pats.append(p)
        except Exception:
            continue
    if not pats:
        try:
            pats = auto_patterns(list(vs), body)
        except Exception:
            pats = []
    if pats:
        try:
            return z3.ForAll(vs, body, patterns=pats, qid=qid)
        except z3.Z3Exception:
            pass
    return z3.ForAll(vs, body, qid=qid)


# --------------------------------------------------------------------------------------
# relevant extensionality
# --------------------------------------------------------------------------------------
class ExtAxioms:
    """z3's array decision procedure instantiates extensionality for every pair of shared array terms; with the dozens of
    set/map arrays of a path this floods the e-graph with `array-ext` witness terms that feed every node-indexed trigger
    (measured: a satisfiable path condition does not saturate in 120 s with it, 0.15 s without).  The solvers therefore
    run with `array.extensional=false` and get, for every *equality atom between ground array terms* that occurs
    anywhere in the asserted formulas, the one extensionality instance it can need:
        a = b  ∨  a[w_ab] ≠ b[w_ab]          (w_ab fresh)
    Dropping axioms can only lose proofs, never make `unsat` wrong.  Array terms occur in the encoding only in selects,
    stores and such equality atoms (no uninterpreted function or datatype field holds an array), so an array
    disequality can only arise from one of these atoms: with the instances above nothing is lost either, except for
    equality atoms whose arrays mention a bound variable (left to the full-extensionality fallback stage)."""

    def __init__(self):
        self.seen = set()
        self.pairs = set()
        self._ground = {}

    def ground(self, e):
        i = e.get_id()
        r = self._ground.get(i)
        if r is None:
            if z3.is_var(e):
                r = False
            elif z3.is_quantifier(e):
                r = False
            else:
                r = all(self.ground(c) for c in e.children())
            self._ground[i] = r
        return r

    def axioms_for(self, formulas):
        """axioms for the equality atoms of the formulas not seen by this instance before; the per-formula scan is cached
        process-wide (path conditions share almost all their conjuncts across the obligations of a function)"""
        out = []
        for f in formulas:
            if not isinstance(f, z3.ExprRef):
                continue
            hit = _EXT_CACHE.get(f.get_id())
            if hit is None or not hit[0].eq(f):
                one = ExtAxioms.__new__(ExtAxioms)
                one.seen, one.pairs, one._ground = set(), set(), self._ground
                found = []
                one.collect_pairs(f, found)
                hit = (f, found)
                _EXT_CACHE[f.get_id()] = hit
            for key, a, b in hit[1]:
                if key not in self.pairs:
                    self.pairs.add(key)
                    w = z3.FreshConst(a.sort().domain(), 'ext')
                    out.append(z3.Or(a == b, z3.Select(a, w) != z3.Select(b, w)))
        return out

    def collect_pairs(self, e, found):
        stack = [e]
        while stack:
            e = stack.pop()
            i = e.get_id()
            if i in self.seen:
                continue
            self.seen.add(i)
            if z3.is_quantifier(e):
                stack.append(e.body())
                continue
            if not z3.is_app(e):
                continue
            if e.num_args() == 2 and (z3.is_eq(e) or z3.is_distinct(e)) and z3.is_array_sort(e.arg(0)):
                a, b = e.arg(0), e.arg(1)
                key = tuple(sorted((a.get_id(), b.get_id())))
                if key[0] != key[1] and self.ground(a) and self.ground(b):
                    found.append((key, a, b))
            stack.extend(e.children())


_EXT_CACHE = {}
