"""
Library models = the assumed contracts on dependencies (DESIGN §2.10).  Every model that is
exercised records its name in ``state.assumptions_used`` so that the evidence lists exactly the
axioms a run relied on.
"""
import ast

import z3
from pyvc.values import FA

from .interp import (Interp, CallArgs, PyRaise, LibFn, LibRef, Function, BoundMethod, Closure, Partial, Coroutine,
                     Awaitable, Env, EnumeratedSeq, RangeSeq, StarSeq, TMATCH, attr_fn, STR_OF)
from .repo import ClassInfo
from .state import SymMap, SymSeq, SymSet, Infeasible
from .values import (PyV, NONE, TRUE, FALSE, LATTICE, subcls, Ref, ClsRef, EnumMember, Sym, SymV, SymB, SymI, SymS,
                     Unsupported, lift, lower, as_bool_term, eq_term, wrap_bool, z3_not, z3_and, z3_or, as_z3,
                     mk_str, is_symbolic, IntS, BoolS, StrS)


def used(it, name):
    it.st.assumptions_used.add(name)


class CM:
    """context manager protocol used by Interp.with_items"""

    def cm_enter(self, it, is_async):
        return None

    def cm_exit(self, it, is_async, pr):
        return False


class SuppressCM(CM):
    def __init__(self, specs):
        self.specs = specs

    def cm_exit(self, it, is_async, pr):
        if pr is None:
            return False
        used(it, 'contextlib.suppress: swallows exactly the listed exception classes')
        m = it.exc_matches(pr.val, tuple(self.specs))
        return it.st.branch(m, 'suppress')


class ModelRegistry:
    def __init__(self):
        self.it = None
        self.lib_values = {}
        self.lib_prefix = []
        self.plugins = []

    def attach(self, it):
        self.it = it

    def plug(self, plugin):
        self.plugins.append(plugin)
        return plugin

    def _try(self, hook, *args):
        for p in self.plugins:
            f = getattr(p, hook, None)
            if f is not None:
                r = f(*args)
                if r is not None:
                    return r
        return None

    # ---------------------------------------------------------------- names
    TYPING_PREFIXES = ('typing.', 'abc.', 'uuid.UUID')

    def lib_value(self, it, dotted):
        r = self._try('lib_value', it, dotted)
        if r is not None:
            return r[0]
        if dotted in ('collections.UserDict', 'abc.ABC', 'abc.ABCMeta', 'enum.Enum'):
            return ClsRef(dotted)
        if dotted == 'dataclasses.field':
            return LibFn('dataclasses.field', lambda it_, ca: None)
        if dotted == 'dataclasses.replace':
            return LibFn('dataclasses.replace', self.dataclass_replace)
        if dotted == 'contextlib.suppress':
            return LibFn('contextlib.suppress', lambda it_, ca: SuppressCM(ca.args))
        if dotted == 'functools.partial':
            return LibFn('functools.partial', lambda it_, ca: Partial(ca.args[0], ca.args[1:], ca.kwargs, ca.starmaps))
        if dotted == 'collections.defaultdict':
            return ClsRef('collections.defaultdict')
        if dotted == 'collections.deque':
            return LibFn('collections.deque', self.deque_new)
        if dotted == 'asyncio.CancelledError':
            return ClsRef('builtins.CancelledError')
        if dotted.startswith('typing.') and dotted.endswith('.cast'):
            return LibFn('typing.cast', lambda it_, ca: ca.args[1])
        if dotted.startswith(self.TYPING_PREFIXES) or dotted in ('typing', 'abc'):
            return LibRef(dotted)
        return LibRef(dotted)

    def dataclass_replace(self, it, ca):
        """dataclasses.replace(obj, **changes): a new instance of type(obj) built by its __init__ from the current
        field values with the changes applied (init=False fields are re-initialised, __post_init__ runs)"""
        obj = ca.args[0]
        if not isinstance(obj, Ref) or it.class_of_ref(obj) is None:
            raise Unsupported(f'dataclasses.replace of {obj!r}')
        ci = it.class_of_ref(obj)
        used(it, 'dataclasses.replace: new instance via __init__ with the current init-field values and the changes')
        fields = []
        for c in reversed(it.repo.mro(ci)):
            if isinstance(c, ClassInfo) and c.is_dataclass:
                for name, default in c.ann_fields:
                    init_flag = True
                    if isinstance(default, ast.Call) and ast.unparse(default.func) == 'field':
                        for kw in default.keywords:
                            if kw.arg == 'init' and isinstance(kw.value, ast.Constant) and kw.value.value is False:
                                init_flag = False
                    fields = [f for f in fields if f[0] != name]
                    fields.append((name, init_flag))
        kwargs = {}
        for name, init_flag in fields:
            if not init_flag:
                if name in ca.kwargs:
                    it.raise_builtin('ValueError', f'field {name} is declared with init=False')
                continue
            kwargs[name] = ca.kwargs[name] if name in ca.kwargs else it.st.getf(obj, name)
        extra = set(ca.kwargs) - {n for n, _ in fields}
        if extra:
            it.raise_builtin('TypeError', f'unexpected fields {sorted(extra)}')
        return it.instantiate(ClsRef(ci.key, ci), CallArgs([], kwargs))

    def global_value(self, it, mi, expr):
        """value of a module-level assignment of /repo, evaluated once per path"""
        cache = it.st.ghost.setdefault('globals', {})
        key = (mi.name, ast.dump(expr))
        if key not in cache:
            r = self._try('global_value', it, mi, expr)
            if r is not None:
                cache[key] = r[0]
            else:
                env = Env({}, None, None, module=mi)
                cache[key] = it.eval(expr, env)
        return cache[key]

    # ---------------------------------------------------------------- attribute hooks
    def obj_attr(self, it, obj, name):
        r = self._try('obj_attr', it, obj, name)
        if r is not None:
            return r
        impl = getattr(self, f'm_{obj.cls}_{name}', None)
        if impl is not None:
            return (LibFn(f'{obj.cls}.{name}', lambda it_, ca, _o=obj: impl(it_, _o, ca), bound=obj),)
        return None

    def obj_setattr(self, it, obj, name, value):
        r = self._try('obj_setattr', it, obj, name, value)
        return bool(r)

    def cls_attr(self, it, clsref, name):
        return self._try('cls_attr', it, clsref, name)

    def libclass_attr(self, it, libbase, name, instance, clsref):
        r = self._try('libclass_attr', it, libbase, name, instance, clsref)
        if r is not None:
            return r
        base = libbase.split('.')[-1]
        impl = getattr(self, f'lc_{base}_{name}', None)
        if impl is not None and instance is not None:
            return (LibFn(f'{base}.{name}', lambda it_, ca, _o=instance: impl(it_, _o, ca)),)
        return None

    def value_attr(self, it, obj, name):
        return self._try('value_attr', it, obj, name)

    def symv_attr(self, it, obj, name):
        return self._try('symv_attr', it, obj, name)

    def getattr_default(self, it, obj, name, default):
        return self._try('getattr_default', it, obj, name, default)

    def callable_(self, it, v):
        return self._try('callable_', it, v)

    def isinstance_symv(self, it, v, spec):
        return self._try('isinstance_symv', it, v, spec)

    def isinstance_other(self, it, v, spec):
        return self._try('isinstance_other', it, v, spec)

    def get_item(self, it, obj, key):
        return self._try('get_item', it, obj, key)

    def contains(self, it, container, item):
        return self._try('contains', it, container, item)

    def length(self, it, v):
        return self._try('length', it, v)

    def unpack(self, it, v, n):
        r = self._try('unpack', it, v, n)
        return r

    def iterate(self, it, v):
        r = self._try('iterate', it, v)
        if r is not None:
            return r
        if isinstance(v, (EnumeratedSeq, RangeSeq)):
            return v
        if isinstance(v, ClsRef) and isinstance(v.info, ClassInfo) and it.is_enum_class(v.info):
            used(it, 'enum.Enum: iterating the class yields its members in definition order')
            return tuple(EnumMember(v.info.name, name, expr.value) for name, expr in v.info.attrs.items()
                         if isinstance(expr, ast.Constant))
        return None

    def to_str(self, it, v):
        r = self._try('to_str', it, v)
        return r[0] if r is not None else None

    def context_manager(self, it, v):
        r = self._try('context_manager', it, v)
        if r is not None:
            return r[0]
        raise Unsupported(f'context manager {v!r}')

    def unknown_call(self, it, fn, ca):
        r = self._try('unknown_call', it, fn, ca)
        if r is not None:
            return r[0]
        raise Unsupported(f'call of symbolic value {fn!r}')

    def instantiate_lib(self, it, clsref, ca):
        r = self._try('instantiate_lib', it, clsref, ca)
        if r is not None:
            return r[0]
        if clsref.name == 'collections.defaultdict':
            used(it, 'collections.defaultdict: missing keys are created by the factory on first subscript')
            return it.st.alloc('defaultdict', factory=ca.args[0] if ca.args else None, map={})
        if clsref.name in ('builtins.dict',):
            return it.bi_dict(it, ca)
        if clsref.name in ('builtins.list',):
            return it.bi_list(it, ca)
        if clsref.name in ('builtins.set',):
            return it.bi_set(it, ca)
        if clsref.name in ('builtins.tuple',):
            return it.bi_tuple(it, ca)
        if clsref.name in ('builtins.str',):
            return it.bi_str(it, ca)
        if clsref.name in ('builtins.bool',):
            return it.bi_bool(it, ca)
        if clsref.name == 'builtins.type':
            return self.type_(it, ca)
        if clsref.name in ('builtins.int',):
            return self.int_of(it, ca.args[0] if ca.args else 0)
        raise Unsupported(f'instantiation of library class {clsref}')

    def int_of(self, it, v):
        """int(v): identity on ints, 0/1 on bools, truncation / parsing (uninterpreted) on other convertible values,
        TypeError / ValueError otherwise"""
        st = it.st
        if isinstance(v, bool) or isinstance(v, int):
            return int(v)
        if isinstance(v, str):
            try:
                return int(v)
            except ValueError:
                it.raise_builtin('ValueError', f'int({v!r})')
        if isinstance(v, SymI):
            return v
        if isinstance(v, SymB):
            return SymI(z3.If(v.t, 1, 0))
        t = lift(v, st)
        used(it, 'int(x): identity on int, 0/1 on bool, an uninterpreted truncation/parse on other convertible values '
                 '(floats are opaque values), TypeError/ValueError on the rest')
        INT_OF = z3.Function('int_of', PyV, IntS)
        CONVERTIBLE = z3.Function('int_convertible', PyV, BoolS)
        if st.branch(PyV.is_int_(t), 'int-of-int'):
            return lower(t, st)
        if st.branch(PyV.is_bool_(t), 'int-of-bool'):
            return SymI(z3.If(PyV.b(t), 1, 0))
        if st.branch(z3.And(t != NONE, CONVERTIBLE(t)), 'int-convertible'):
            return SymI(INT_OF(t))
        it.raise_builtin('TypeError', 'int() argument must be a string, a bytes-like object or a real number')

    def instantiate_repo(self, it, ci, ca):
        return self._try('instantiate_repo', it, ci, ca)

    def enum_lookup(self, it, ci, ca):
        r = self._try('enum_lookup', it, ci, ca)
        if r is not None:
            return r[0]
        v = ca.args[0]
        members = []
        for name, expr in ci.attrs.items():
            if isinstance(expr, ast.Constant):
                members.append(EnumMember(ci.name, name, expr.value))
        used(it, 'enum.Enum: Cls(value) returns the member with that value, else raises ValueError')
        if isinstance(v, EnumMember):
            v = v.value
        for m in members:
            if it.st.branch(as_bool_term(wrap_bool(eq_term(v, m.value, it.st))), f'enum-{ci.name}-{m.name}'):
                return m
        it.raise_builtin('ValueError', f'{ci.name}({v!r})')

    # ---------------------------------------------------------------- collections
    def enumerate_set(self, it, symset, hint='elems'):
        """iteration order of a set: an arbitrary duplicate-free sequence over its contents"""
        st = it.st
        used(it, 'set/dict iteration: arbitrary duplicate-free enumeration of the contents')
        seq = SymSeq.fresh(st, hint)
        i, j = z3.Ints('qi qj')
        v = z3.Const('qv', PyV)
        idx = st.fresh_func(hint + '_idx', PyV, IntS)
        st.assume(FA([i], z3.Implies(z3.And(i >= 0, i < seq.len), symset.contains(seq.at(i))),
                            patterns=[seq.at(i)]))
        st.assume(FA([i], z3.Implies(z3.And(i >= 0, i < seq.len), idx(seq.at(i)) == i),
                            patterns=[seq.at(i)]))
        st.assume(FA([v], z3.Implies(symset.contains(v),
                                            z3.And(idx(v) >= 0, idx(v) < seq.len, seq.at(idx(v)) == v)),
                            patterns=[symset.contains(v)]))
        return seq

    def enumerate_map_keys(self, it, symmap):
        return self.enumerate_set(it, SymSet(symmap.present), 'keys')

    def set_from_iterable(self, it, v):
        st = it.st
        if isinstance(v, Ref) and v.cls == 'set':
            return it.new_set(st.getf(v, 'elems'))
        seq = it.iter_seq(v)
        if isinstance(seq, tuple):
            if any(is_symbolic(x) or isinstance(x, Ref) for x in seq):
                s = SymSet.empty()
                for x in seq:
                    s = s.add(lift(x, st))
                return it.new_set(s)
            return it.new_set(frozenset(seq))
        src = getattr(seq, 'source_set', None)
        if src is not None:
            return it.new_set(src)
        s = SymSet.fresh(st, 'setof')
        i = z3.Int('qi')
        v_ = z3.Const('qv', PyV)
        idx = st.fresh_func('setof_idx', PyV, IntS)
        st.assume(FA([i], z3.Implies(z3.And(i >= 0, i < seq.len), s.contains(seq.at(i))), patterns=[seq.at(i)]))
        st.assume(FA([v_], z3.Implies(s.contains(v_), z3.And(idx(v_) >= 0, idx(v_) < seq.len, seq.at(idx(v_)) == v_)),
                            patterns=[s.contains(v_)]))
        return it.new_set(s)

    def dict_update(self, it, d, src):
        st = it.st
        if src is None:
            return
        if isinstance(src, Ref) and src.cls == 'dict':
            m = st.getf(src, 'map')
            if isinstance(m, SymMap):
                cur = st.getf(d, 'map')
                if isinstance(cur, dict) and not cur:
                    st.setf(d, 'map', m)
                    return
                base = it.dict_sym(d)
                k = z3.Const('qk', PyV)
                new = SymMap.fresh(st, 'upd')
                st.assume(FA([k], z3.And(
                    new.has(k) == z3.Or(base.has(k), m.has(k)),
                    new.at(k) == z3.If(m.has(k), m.at(k), base.at(k))), patterns=[new.has(k), new.at(k)]))
                st.setf(d, 'map', new)
                return
            for k, v in m.items():
                it.dict_set(d, k, v)
            return
        raise Unsupported(f'dict update from {src!r}')

    def symbolic_comprehension(self, it, e, env, kind, seq):
        r = self._try('symbolic_comprehension', it, e, env, kind, seq)
        if r is not None:
            return r[0]
        st = it.st
        g = e.generators[0]
        base = seq.seq if isinstance(seq, EnumeratedSeq) else seq
        if isinstance(base, RangeSeq):
            raise Unsupported('comprehension over symbolic range')
        summary = self.user_call_comprehension(it, e, env, kind, base, g)
        if summary is not None:
            return summary
        # evaluate filter and element for an arbitrary index k (merged, pure)
        k = st.fresh_int('ck')
        k_counter = st.counter
        sub = Env({}, env, env.finfo)

        def body_cond():
            it.assign(g.target, lower(base.at(k), st), sub)
            c = True
            for cond in g.ifs:
                c = z3_and(c, as_bool_term(it.eval(cond, sub)))
            return wrap_bool(c)

        def body_elt():
            it.assign(g.target, lower(base.at(k), st), sub)
            return it.eval(e.elt, sub)

        in_range = z3.And(k >= 0, k < base.len)
        cond_v = it.eval_merged(body_cond, 'bool', assuming=in_range)
        kept = list(getattr(it, 'last_merged_assumptions', []))
        elt_v = it.eval_merged(body_elt, 'val', assuming=in_range)
        kept += list(getattr(it, 'last_merged_assumptions', []))
        from z3 import z3util
        generalised = []
        for f in kept:
            vs_ = z3util.get_vars(f)
            if not any(z3.eq(v_, k) for v_ in vs_):
                continue
            for v_ in vs_:
                nm_ = v_.decl().name()
                if '!' in nm_ and not z3.eq(v_, k):
                    try:
                        idx_ = int(nm_.rsplit('!', 1)[1])
                    except ValueError:
                        continue
                    if idx_ >= k_counter:
                        raise Unsupported('comprehension body calls a function whose contract result is not an explicit '
                                          'term of the state (result_term missing)')
            generalised.append(f)
        cond_t = as_z3(as_bool_term(cond_v))
        elt_t = lift(elt_v, st)
        kk = z3.Int('qk')
        cond_f = lambda idx: z3.substitute(cond_t, (k, idx))
        elt_f = lambda idx: z3.substitute(elt_t, (k, idx))
        used(it, 'comprehension semantics: order-preserving filter-map of the iterated sequence')
        for f in generalised:
            # facts established for an arbitrary in-range index hold for every in-range index
            st.assume(FA([kk], z3.Implies(z3.And(kk >= 0, kk < base.len), z3.substitute(f, (k, kk))), patterns=[base.at(kk)]))
        if kind == 'set':
            s = SymSet.fresh(st, 'comp')
            v = z3.Const('qv', PyV)
            wit = st.fresh_func('comp_wit', PyV, IntS)
            st.assume(FA([kk], z3.Implies(z3.And(kk >= 0, kk < base.len, cond_f(kk)), s.contains(elt_f(kk))),
                                patterns=[base.at(kk)]))
            st.assume(FA([v], z3.Implies(s.contains(v), z3.And(wit(v) >= 0, wit(v) < base.len, cond_f(wit(v)),
                                                                  elt_f(wit(v)) == v)), patterns=[s.contains(v)]))
            return it.new_set(s)
        out = SymSeq.fresh(st, 'comp')
        j, j2 = z3.Ints('qj qj2')
        if not g.ifs:
            # no filter: the result is the element-wise image of the sequence.  (The index maps of the filtered case are not
            # introduced: their strictly-increasing axiom is quadratic in the index terms and made refutable obligations of
            # code holding such a comprehension run for minutes before E-matching saturated.)
            st.assume(out.len == base.len)
            st.assume(FA([j], z3.Implies(z3.And(j >= 0, j < out.len), out.at(j) == elt_f(j)), patterns=[out.at(j), base.at(j)]))
            res = it.new_list(out)
            ident = lambda i_: i_
            it.st.ghost.setdefault('comp', {})[res.id] = dict(base=base, out=out, src=ident, dst=ident, cond=cond_f, elt=elt_f)
            return res
        src = st.fresh_func('comp_src', IntS, IntS)     # result index -> source index (strictly increasing)
        dst = st.fresh_func('comp_dst', IntS, IntS)     # source index -> result index
        st.assume(FA([j], z3.Implies(z3.And(j >= 0, j < out.len),
                                            z3.And(src(j) >= 0, src(j) < base.len, cond_f(src(j)),
                                                   out.at(j) == elt_f(src(j)), dst(src(j)) == j)),
                            patterns=[out.at(j)]))
        st.assume(FA([j, j2], z3.Implies(z3.And(j >= 0, j < j2, j2 < out.len), src(j) < src(j2)),
                            patterns=[z3.MultiPattern(src(j), src(j2))]))
        st.assume(FA([kk], z3.Implies(z3.And(kk >= 0, kk < base.len, cond_f(kk)),
                                             z3.And(dst(kk) >= 0, dst(kk) < out.len, src(dst(kk)) == kk,
                                                    out.at(dst(kk)) == elt_f(kk))),
                            patterns=[base.at(kk)]))
        if not g.ifs:
            # no filter: the result is the element-wise image of the sequence
            st.assume(out.len == base.len)
            st.assume(FA([j], z3.Implies(z3.And(j >= 0, j < out.len), z3.And(src(j) == j, out.at(j) == elt_f(j))),
                         patterns=[out.at(j)]))
        res = it.new_list(out)
        it.st.ghost.setdefault('comp', {})[res.id] = dict(base=base, out=out, src=src, dst=dst, cond=cond_f, elt=elt_f)
        return res

    def user_call_comprehension(self, it, e, env, kind, base, g):
        """[f(x) for x in xs] whose body does nothing but call into user code (instantiate a user class, call a user
        callback): the engine state is untouched, every element is an arbitrary user result, any call may raise.
        Detected by a probe execution of the body for one arbitrary element (rolled back afterwards)."""
        st = it.st
        if g.ifs or kind != 'list':
            return None
        k = st.fresh_int('pk')
        saved = (st.script, st.pos, st.taken, st.pending, list(st.pc), st.choice_log, st.counter, st.next_id)
        heap_before = {o: dict(v) for o, v in st.heap.items()}
        n_eff, n_obl = len(st.effects), len(st.obligations)
        st.push_scope(z3.And(k >= 0, k < base.len))
        only_user = False
        try:
            st.script, st.pos, st.taken, st.pending = [], 0, [], []
            sub = Env({}, env, env.finfo)
            try:
                it.assign(g.target, lower(base.at(k), st), sub)
                it.eval(e.elt, sub)
            except PyRaise:
                pass
            effs = st.effects[n_eff:]
            wrote = any(st.heap.get(o, {}).get(f) is not val for o, flds in heap_before.items() for f, val in flds.items())
            only_user = bool(effs) and not wrote and any(x.kind == 'user_call' for x in effs) and all(
                x.kind in ('user_call', 'yield', 'new_exc') for x in effs)
        except (Unsupported, Infeasible):
            only_user = False
        finally:
            st.pop_scope()
            (st.script, st.pos, st.taken, st.pending, pc, st.choice_log, st.counter, st.next_id) = saved
            st.pc = pc
            st.heap = heap_before
            del st.effects[n_eff:]
            del st.obligations[n_obl:]
        if not only_user:
            return None
        used(it, 'a comprehension whose body only calls user code: one arbitrary user result per element, engine state '
                 'untouched, any of the calls may raise')
        st.emit('user_calls_over', seq=base, expr=ast.unparse(e.elt))
        if it.opt.get('user_raises', True) and st.choose([True, True], 'user-comprehension-outcome') == 1:
            exc = SymV(PyV.exc(st.fresh_int('ecls'), st.fresh_int('eid')))
            st.assume(PyV.eid(exc.t) >= 0)
            raise PyRaise(exc, 'raised by user code inside a comprehension')
        out = SymSeq.fresh(st, 'user_results')
        st.assume(out.len == base.len)
        return it.new_list(out)

    def nested_set_comprehension(self, it, e, env):
        r = self._try('nested_set_comprehension', it, e, env)
        if r is not None:
            return r[0]
        raise Unsupported('nested comprehension')

    def any_all(self, it, v, is_any):
        st = it.st
        seq = it.iter_seq(v)
        if isinstance(seq, tuple):
            terms = [as_bool_term(x) for x in seq]
            return wrap_bool(z3_or(*terms) if is_any else z3_and(*terms))
        comp = st.ghost.get('comp', {}).get(v.id) if isinstance(v, Ref) else None
        k = z3.Int('qa')
        from .values import truthy_term
        body = z3.And(k >= 0, k < seq.len, truthy_term(seq.at(k))) if is_any else \
            z3.Implies(z3.And(k >= 0, k < seq.len), truthy_term(seq.at(k)))
        used(it, 'any()/all(): existential / universal over the sequence')
        return wrap_bool(z3.Exists([k], body) if is_any else FA([k], body))

    def hash_(self, it, v):
        raise Unsupported('hash()')

    def sorted_(self, it, ca):
        """sorted(xs, key=...): some permutation of xs; the order the key induces is NOT modelled (the key function is
        assumed pure and total and is not evaluated), so nothing about the position of elements can be proved from it"""
        st = it.st
        seq = it.iter_seq(ca.args[0])
        if isinstance(seq, tuple):
            if not any(is_symbolic(x) for x in seq) and 'key' not in ca.kwargs:
                return it.new_list(sorted(seq))
            seq = self.to_symseq(it, seq)
        used(it, 'sorted(): an arbitrary permutation of its input; the key order is not modelled')
        out = SymSeq.fresh(st, 'sorted')
        to = st.fresh_func('sorted_to', IntS, IntS)
        back = st.fresh_func('sorted_back', IntS, IntS)
        i = z3.Int('si')
        st.assume(out.len == seq.len)
        # only "every output element is an input element" is stated (one direction keeps E-matching terminating; the
        # other direction would only be needed to prove things about code that sorts, which the pinned tree does not)
        st.assume(FA([i], z3.Implies(z3.And(i >= 0, i < out.len), z3.And(
            back(i) >= 0, back(i) < seq.len, out.at(i) == seq.at(back(i)))), patterns=[out.at(i)]))
        return it.new_list(out)

    def type_(self, it, ca):
        r = self._try('type_', it, ca)
        if r is not None:
            return r[0]
        raise Unsupported('type()')

    def globals_(self, it):
        r = self._try('globals_', it)
        if r is not None:
            return r[0]
        return it.st.alloc('dict', map={})

    def str_method(self, it, s, name, ca):
        r = self._try('str_method', it, s, name, ca)
        if r is not None:
            return r[0]
        st_ = it.as_str(s)
        if name == 'startswith':
            p = it.as_str(ca.args[0])
            if p is None:
                raise Unsupported('startswith arg')
            return wrap_bool(z3.PrefixOf(p, st_))
        if name == 'endswith':
            return wrap_bool(z3.SuffixOf(it.as_str(ca.args[0]), st_))
        if name == 'lower':
            if isinstance(s, str):
                return s.lower()
            used(it, 'str.lower: uninterpreted on symbolic strings')
            return SymS(z3.Function('str_lower', StrS, StrS)(st_))
        if name == 'replace':
            a, b = it.as_str(ca.args[0]), it.as_str(ca.args[1])
            if isinstance(s, str) and isinstance(ca.args[0], str) and isinstance(ca.args[1], str):
                return s.replace(ca.args[0], ca.args[1])
            used(it, 'str.replace: uninterpreted replace-all on symbolic strings')
            return SymS(z3.Function('str_replace_all', StrS, StrS, StrS, StrS)(st_, a, b))
        if name == 'join':
            seq = it.iter_seq(ca.args[0])
            if isinstance(seq, tuple):
                parts = []
                for x in seq:
                    if isinstance(x, SymV):
                        if not it.st.branch(PyV.is_str_(x.t), 'join-part-is-str'):
                            it.raise_builtin('TypeError', 'sequence item: expected str instance')
                        parts.append(PyV.s(x.t))
                    else:
                        parts.append(it.as_str(x))
                if any(p is None for p in parts):
                    raise Unsupported('join of non-strings')
                out = None
                for idx, p in enumerate(parts):
                    out = p if out is None else z3.Concat(out, st_, p)
                if out is None:
                    return ''
                out = z3.simplify(out)
                return out.as_string() if z3.is_string_value(out) else SymS(out)
        if name == 'split' and isinstance(s, str):
            return it.new_list(tuple(s.split(*ca.args)))
        raise Unsupported(f'str.{name}')

    # ---------------------------------------------------------------- dict / list / set methods
    def m_dict_get(self, it, d, ca):
        default = ca.args[1] if len(ca.args) > 1 else None
        return it.dict_get(d, ca.args[0], default)

    def m_dict_update(self, it, d, ca):
        it.st.emit('write', obj=d, field='map')
        if ca.args:
            self.dict_update(it, d, ca.args[0])
        for k, v in ca.kwargs.items():
            it.dict_set(d, k, v)
        for sm in ca.starmaps:
            self.dict_update(it, d, sm)

    def m_dict_keys(self, it, d, ca):
        return DictKeys(d)

    def m_dict_values(self, it, d, ca):
        return DictValues(d)

    def m_dict_items(self, it, d, ca):
        m = it.st.getf(d, 'map')
        if not isinstance(m, SymMap):
            return tuple((k, v) for k, v in m.items())
        return DictItems(d)

    def m_dict_pop(self, it, d, ca):
        st = it.st
        key = ca.args[0]
        m = st.getf(d, 'map')
        st.emit('write', obj=d, field='map', key=key)
        if not isinstance(m, SymMap) and not is_symbolic(key):
            if key in m:
                m = dict(m)
                v = m.pop(key)
                st.setf(d, 'map', m)
                return v
            if len(ca.args) > 1:
                return ca.args[1]
            it.raise_builtin('KeyError')
        sm = it.dict_sym(d)
        k = lift(key, st)
        if st.branch(sm.has(k), 'pop-has'):
            v = lower(sm.at(k), st)
            st.setf(d, 'map', sm.drop(k))
            return v
        if len(ca.args) > 1:
            return ca.args[1]
        it.raise_builtin('KeyError')

    def m_defaultdict___getitem__(self, it, d, ca):
        raise Unsupported('defaultdict subscript (needs the lock model)')

    def m_list_append(self, it, l, ca):
        st = it.st
        items = st.getf(l, 'items')
        st.emit('write', obj=l, field='items', op='append', value=ca.args[0])
        if isinstance(items, tuple):
            st.setf(l, 'items', items + (ca.args[0],))
        else:
            st.setf(l, 'items', items.append(lift(ca.args[0], st)))

    def seq_concat(self, it, x, y):
        st = it.st
        a = x if isinstance(x, SymSeq) else self.to_symseq(it, x)
        b = y if isinstance(y, SymSeq) else self.to_symseq(it, y)
        out = SymSeq.fresh(st, 'ext')
        k = z3.Int('qe')
        st.assume(out.len == a.len + b.len)
        st.assume(FA([k], z3.Implies(z3.And(k >= 0, k < a.len), out.at(k) == a.at(k)), patterns=[out.at(k), a.at(k)]))
        st.assume(FA([k], z3.Implies(z3.And(k >= 0, k < b.len), out.at(a.len + k) == b.at(k)), patterns=[b.at(k)]))
        st.assume(FA([k], z3.Implies(z3.And(k >= a.len, k < out.len), out.at(k) == b.at(k - a.len)), patterns=[out.at(k)]))
        return out

    def m_list_extend(self, it, l, ca):
        st = it.st
        items = st.getf(l, 'items')
        other = it.iter_seq(ca.args[0])
        st.emit('write', obj=l, field='items')
        if isinstance(items, tuple) and isinstance(other, tuple):
            st.setf(l, 'items', items + other)
            return
        out = self.seq_concat(it, items, other)
        st.setf(l, 'items', out)

    def to_symseq(self, it, items):
        s = SymSeq.empty()
        for x in items:
            s = s.append(lift(x, it.st))
        return s

    def m_set_add(self, it, s, ca):
        st = it.st
        e = st.getf(s, 'elems')
        x = ca.args[0]
        st.emit('write', obj=s, field='elems')
        if isinstance(e, frozenset) and not is_symbolic(x) and all(not is_symbolic(y) for y in e):
            st.setf(s, 'elems', e | {x})
            return
        st.setf(s, 'elems', self.symset_of(it, e).add(lift(x, st)))

    def symset_of(self, it, e):
        if isinstance(e, SymSet):
            return e
        s = SymSet.empty()
        for y in e:
            s = s.add(lift(y, it.st))
        return s

    def m_set_remove(self, it, s, ca):
        st = it.st
        e = st.getf(s, 'elems')
        x = ca.args[0]
        st.emit('write', obj=s, field='elems')
        if isinstance(e, frozenset) and not is_symbolic(x) and all(not is_symbolic(y) for y in e):
            if x not in e:
                it.raise_builtin('KeyError')
            st.setf(s, 'elems', e - {x})
            return
        se = self.symset_of(it, e)
        k = lift(x, st)
        if not st.branch(se.contains(k), 'set-remove-present'):
            it.raise_builtin('KeyError')
        st.setf(s, 'elems', se.remove(k))

    def m_set_discard(self, it, s, ca):
        st = it.st
        e = st.getf(s, 'elems')
        x = ca.args[0]
        st.emit('write', obj=s, field='elems')
        if isinstance(e, frozenset) and not is_symbolic(x) and all(not is_symbolic(y) for y in e):
            st.setf(s, 'elems', e - {x})
            return
        st.setf(s, 'elems', self.symset_of(it, e).remove(lift(x, st)))

    def m_set_intersection(self, it, s, ca):
        st = it.st
        a = self.symset_of(it, st.getf(s, 'elems'))
        o = ca.args[0]
        if not (isinstance(o, Ref) and o.cls == 'set'):
            o = self.set_from_iterable(it, o)
        b = self.symset_of(it, st.getf(o, 'elems'))
        used(it, 'set.intersection: pointwise conjunction of membership')
        v = z3.Const('qv', PyV)
        return it.new_set(SymSet.comprehension(st, v, z3.And(a.contains(v), b.contains(v)), 'inter'))

    def deque_new(self, it, ca):
        # a deque is a sequence that also knows the multiplicity of its members (state.BagSeq): work-list arguments
        # ("everything scheduled is eventually taken") need membership without an existential over positions
        from .state import BagSeq
        seq = it.iter_seq(ca.args[0]) if ca.args else ()
        used(it, 'collections.deque: append / pop act at the right end; multiplicities of members are tracked alongside')
        if isinstance(seq, tuple):
            b = BagSeq.empty()
            for x in seq:
                b = b.append(lift(x, it.st))
        elif isinstance(seq, SymSeq):
            b = BagSeq.of(it.st, seq, 'deque')
        else:
            raise Unsupported('deque(<iterable>)')
        return it.st.alloc('deque', items=b)

    def m_deque_pop(self, it, d, ca):
        st = it.st
        items = st.getf(d, 'items')
        if isinstance(items, tuple):
            if not items:
                it.raise_builtin('IndexError')
            st.setf(d, 'items', items[:-1])
            return items[-1]
        if not st.branch(items.len > 0, 'deque-nonempty'):
            it.raise_builtin('IndexError')
        if hasattr(items, 'pop_last'):
            rest, last = items.pop_last()
            st.setf(d, 'items', rest)
            return lower(last, st)
        v = lower(items.at(items.len - 1), st)
        st.setf(d, 'items', SymSeq(items.len - 1, items.arr))
        return v

    def m_deque_append(self, it, d, ca):
        return self.m_list_append(it, d, ca)

    # ---------------------------------------------------------------- UserDict (storage.HiddenDict)
    # ``data`` is kept directly as a SymMap field of the object.
    def lc_UserDict___init__(self, it, obj, ca):
        used(it, 'collections.UserDict: get/in/[]=/pop act on the underlying mapping `data`')
        if ca.args or ca.kwargs:
            raise Unsupported('UserDict(initial data)')
        it.st.setf(obj, 'data', SymMap.empty())

    def lc_UserDict_get(self, it, obj, ca):
        m = it.st.getf(obj, 'data')
        k = lift(ca.args[0], it.st)
        default = lift(ca.args[1], it.st) if len(ca.args) > 1 else NONE
        used(it, 'collections.UserDict: get/in/[]=/pop act on the underlying mapping `data`')
        return lower(m.get(k, default), it.st)

    def lc_UserDict___contains__(self, it, obj, ca):
        m = it.st.getf(obj, 'data')
        used(it, 'collections.UserDict: get/in/[]=/pop act on the underlying mapping `data`')
        return wrap_bool(m.has(lift(ca.args[0], it.st)))

    def lc_UserDict___setitem__(self, it, obj, ca):
        m = it.st.getf(obj, 'data')
        used(it, 'collections.UserDict: get/in/[]=/pop act on the underlying mapping `data`')
        it.st.emit('write', obj=obj, field='data', key=ca.args[0])
        it.st.setf(obj, 'data', m.store(lift(ca.args[0], it.st), lift(ca.args[1], it.st)))

    def lc_UserDict___getitem__(self, it, obj, ca):
        m = it.st.getf(obj, 'data')
        k = lift(ca.args[0], it.st)
        if it.st.branch(m.has(k), 'userdict-has'):
            return lower(m.at(k), it.st)
        it.raise_builtin('KeyError')

    def lc_UserDict_pop(self, it, obj, ca):
        st = it.st
        m = st.getf(obj, 'data')
        k = lift(ca.args[0], st)
        used(it, 'collections.UserDict: get/in/[]=/pop act on the underlying mapping `data`')
        if st.branch(m.has(k), 'userdict-pop-has'):
            v = lower(m.at(k), st)
            st.emit('write', obj=obj, field='data', key=ca.args[0])
            st.setf(obj, 'data', m.drop(k))
            return v
        if len(ca.args) > 1:
            return ca.args[1]
        it.raise_builtin('KeyError')


class DictKeys:
    def __init__(self, d):
        self.d = d

    def sym_iter(self, it):
        return it.iter_seq(self.d)


class DictValues:
    def __init__(self, d):
        self.d = d

    def sym_iter(self, it):
        st = it.st
        m = st.getf(self.d, 'map')
        if not isinstance(m, SymMap):
            return tuple(m.values())
        keys = it.models.enumerate_map_keys(it, m)
        out = SymSeq.fresh(st, 'values')
        k = z3.Int('qv')
        st.assume(out.len == keys.len)
        st.assume(FA([k], z3.Implies(z3.And(k >= 0, k < out.len), out.at(k) == m.at(keys.at(k))),
                            patterns=[out.at(k)]))
        out.keys = None
        return out


class DictItems:
    def __init__(self, d):
        self.d = d

    def sym_iter(self, it):
        st = it.st
        m = st.getf(self.d, 'map')
        keys = it.models.enumerate_map_keys(it, m)
        out = SymSeq.fresh(st, 'items')
        k = z3.Int('qv')
        st.assume(out.len == keys.len)
        st.assume(FA([k], z3.Implies(z3.And(k >= 0, k < out.len),
                                            out.at(k) == PyV.tup2(keys.at(k), m.at(keys.at(k)))),
                            patterns=[out.at(k)]))
        return out
