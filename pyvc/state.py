"""
Execution state of one symbolic path, symbolic containers, obligations and the path explorer.

Exploration is by *re-execution*: the interpreter is written in direct style; every symbolic or
structural choice consults a decision script, and alternatives that were not taken are queued
and explored by running the function again from its entry with a longer script.  Fresh names
are numbered per path, so common prefixes generate identical terms.
"""
import itertools
import time

import z3
from pyvc.values import FA, ExtAxioms

from .values import (PyV, NONE, BoolS, IntS, LATTICE, Ref, ClsRef, Sym, SymV, SymB, SymI, SymS,
                     Unsupported, lift, lower, as_z3, wrap_bool)


class PathEnd(Exception):
    """the current path ends here (e.g. after a loop body was checked against its invariant)"""


class Infeasible(Exception):
    """no alternative of a choice is satisfiable: the path condition is contradictory"""


# --------------------------------------------------------------------------------------
# immutable symbolic containers
# --------------------------------------------------------------------------------------
class SymSet:
    """set of PyV values as a characteristic array"""
    __slots__ = ('mem',)

    def __init__(self, mem):
        self.mem = mem

    @staticmethod
    def empty():
        return SymSet(z3.K(PyV, z3.BoolVal(False)))

    @staticmethod
    def fresh(state, hint):
        return SymSet(state.fresh_array(hint, PyV, BoolS))

    @staticmethod
    def comprehension(state, var, body, hint='setc'):
        """{var | body}: a fresh characteristic array defined by a (pattern-friendly) axiom"""
        m = state.fresh_array(hint, PyV, BoolS)
        pats = [z3.Select(m, var)]
        # when the body is a single array read that mentions the bound variable it is a second trigger
        if z3.is_app(body) and body.decl().kind() == z3.Z3_OP_SELECT and not z3.is_quantifier(body):
            pats.append(body)
        state.assume(FA([var], z3.Select(m, var) == body, patterns=pats))
        return SymSet(m)

    def contains(self, k):
        return z3.Select(self.mem, k)

    def add(self, k):
        return SymSet(z3.Store(self.mem, k, True))

    def remove(self, k):
        return SymSet(z3.Store(self.mem, k, False))

    def __repr__(self):
        return f'SymSet({self.mem})'


class SymMap:
    """dict with PyV keys and PyV values: presence array + value array"""
    __slots__ = ('present', 'vals')

    def __init__(self, present, vals):
        self.present = present
        self.vals = vals

    @staticmethod
    def empty():
        return SymMap(z3.K(PyV, z3.BoolVal(False)), z3.K(PyV, NONE))

    @staticmethod
    def fresh(state, hint):
        return SymMap(state.fresh_array(hint + '_p', PyV, BoolS), state.fresh_array(hint + '_v', PyV, PyV))

    def has(self, k):
        return z3.Select(self.present, k)

    def at(self, k):
        return z3.Select(self.vals, k)

    def get(self, k, default=NONE):
        return z3.If(self.has(k), self.at(k), default)

    def store(self, k, v):
        return SymMap(z3.Store(self.present, k, True), z3.Store(self.vals, k, v))

    def drop(self, k):
        return SymMap(z3.Store(self.present, k, False), self.vals)

    def eq(self, other):
        return z3.And(self.present == other.present, self.vals == other.vals)

    def same_view(self, other):
        """equal as mappings (values of absent keys are irrelevant)"""
        k = z3.Const('svk', PyV)
        return FA([k], z3.And(self.has(k) == other.has(k), z3.Implies(self.has(k), self.at(k) == other.at(k))),
                  patterns=[self.has(k), other.has(k)])

    def __repr__(self):
        return f'SymMap({self.present}, {self.vals})'


class SymSeq:
    """list/tuple of PyV values: length + index array"""
    def __init__(self, length, arr):
        self.len = length
        self.arr = arr
        self.source_set = None     # SymSet this sequence enumerates (when known)

    @staticmethod
    def empty():
        return SymSeq(z3.IntVal(0), z3.K(IntS, NONE))

    @staticmethod
    def fresh(state, hint):
        n = state.fresh_int(hint + '_len')
        state.assume(n >= 0)
        return SymSeq(n, state.fresh_array(hint + '_a', IntS, PyV))

    def at(self, i):
        return z3.Select(self.arr, i)

    def append(self, v):
        return SymSeq(self.len + 1, z3.Store(self.arr, self.len, v))

    def set(self, i, v):
        return SymSeq(self.len, z3.Store(self.arr, i, v))

    def __repr__(self):
        return f'SymSeq({self.len}, {self.arr})'


class BagSeq(SymSeq):
    """a SymSeq that also carries the multiplicity of every value, cnt: PyV -> Int (used for collections.deque work lists).
    Representation invariant, kept by construction by append / pop_last: cnt(x) = #{i < len : arr[i] = x}.  After a havoc only
    first-order consequences of it are assumed (`consequences`): counts are non-negative, an empty sequence has no member, every
    element has a positive count."""
    def __init__(self, length, arr, cnt):
        super().__init__(length, arr)
        self.cnt = cnt

    @staticmethod
    def empty():
        return BagSeq(z3.IntVal(0), z3.K(IntS, NONE), z3.K(PyV, z3.IntVal(0)))

    @staticmethod
    def fresh(state, hint):
        n = state.fresh_int(hint + '_len')
        state.assume(n >= 0)
        b = BagSeq(n, state.fresh_array(hint + '_a', IntS, PyV), state.fresh_array(hint + '_cnt', PyV, IntS))
        for f in b.consequences():
            state.assume(f)
        return b

    @staticmethod
    def of(state, seq, hint='bag'):
        """the bag of an existing symbolic sequence: its multiplicities exist; only their consequences are known"""
        b = BagSeq(seq.len, seq.arr, state.fresh_array(hint + '_cnt', PyV, IntS))
        for f in b.consequences():
            state.assume(f)
        return b

    def consequences(self):
        from .values import FA
        x = z3.Const('bagx', PyV)
        i = z3.Int('bagi')
        c = lambda v: z3.Select(self.cnt, v)
        return [FA([x], c(x) >= 0, patterns=[c(x)]),
                z3.Implies(self.len == 0, FA([x], c(x) == 0, patterns=[c(x)])),
                FA([i], z3.Implies(z3.And(i >= 0, i < self.len), c(self.at(i)) >= 1), patterns=[self.at(i)])]

    def count(self, v):
        return z3.Select(self.cnt, v)

    def append(self, v):
        return BagSeq(self.len + 1, z3.Store(self.arr, self.len, v), z3.Store(self.cnt, v, z3.Select(self.cnt, v) + 1))

    def pop_last(self):
        v = self.at(self.len - 1)
        return BagSeq(self.len - 1, self.arr, z3.Store(self.cnt, v, z3.Select(self.cnt, v) - 1)), v

    def havoc(self, state, hint):
        return BagSeq.fresh(state, hint)

    def __repr__(self):
        return f'BagSeq({self.len}, {self.arr}, {self.cnt})'


# --------------------------------------------------------------------------------------
# effects
# --------------------------------------------------------------------------------------
class Effect:
    """one entry of the ghost effect log of a path"""

    def __init__(self, kind, **fields):
        self.kind = kind
        self.f = fields

    def __getattr__(self, name):
        try:
            return self.f[name]
        except KeyError:
            raise AttributeError(name)

    def __repr__(self):
        inner = ', '.join(f'{k}={short(v)}' for k, v in self.f.items() if k != 'snap')
        return f'{self.kind}({inner})'


def short(v, n=80):
    s = repr(v).replace('\n', ' ')
    return s if len(s) <= n else s[:n] + '…'


class Obligation:
    def __init__(self, name, pc, formula, path_id, info=None, concrete_fail=None):
        self.name = name
        self.pc = list(pc)
        self.formula = formula
        self.path_id = path_id
        self.info = info or {}
        self.concrete_fail = concrete_fail   # message when the failure is structural (no formula)


# --------------------------------------------------------------------------------------
# State
# --------------------------------------------------------------------------------------
class State:
    def __init__(self, script=(), base_axioms=(), timeout_ms=250, path_id=0):
        self.script = list(script)
        self.pos = 0
        self.taken = []
        self.pending = []
        self.heap = {}
        self.next_id = 1
        self.pc = []
        self.assumed_ids = set()     # ids of pc entries that are assumptions (not branch decisions)
        self.effects = []
        self.obligations = []
        self.counter = 0
        self.path_id = path_id
        self.timeout_ms = timeout_ms
        self.base_axioms = list(base_axioms)
        self.scopes = []
        self.shared = {}
        self._new_solver()
        self._lit = z3.Bool('!feasible')
        self.class_ids = {}
        self.class_by_id = {}
        self.value_classes = {}     # cls name -> (lift_fn(state, ref) -> term)
        self.unlifters = []
        self.fresh_exc = 0
        self.ghost = {}
        self.notes = []
        self.choice_log = []
        self.assumptions_used = set()

    def _new_solver(self):
        self.solver = z3.Solver()
        self.solver.set('timeout', self.timeout_ms)
        # feasibility only needs refutation: without MBQI a satisfiable query answers `unknown` at once,
        # which is treated as feasible (sound over-approximation of the explored paths)
        self.solver.set('smt.mbqi', False)
        # relevant extensionality only (values.ExtAxioms): sound for the only answer that is used here (unsat)
        self.solver.set('smt.array.extensional', False)
        self.ext = ExtAxioms()
        for ax in self.base_axioms:
            self.solver.add(ax)
        # re-create the scope structure: the formulas added after the k-th push are pc[marks[k]:marks[k+1]] (+ extras)
        marks = [m for m, _x in getattr(self, 'scopes', [])]
        extras = [x for _m, x in getattr(self, 'scopes', [])]
        lo = 0
        for k, hi in enumerate(marks + [len(self.pc)]):
            seg = list(self.pc[lo:hi])
            for f in seg:
                self.solver.add(f)
            for ax in self.ext.axioms_for((list(self.base_axioms) if k == 0 else []) + seg):
                self.solver.add(ax)
            lo = hi
            if k < len(marks):
                self.solver.push()
                for x in extras[k]:
                    self.solver.add(x)

    def push_scope(self, *extra):
        """solver scope for a sub-computation that is rolled back; `extra` formulas are asserted in the scope without being
        path-condition entries of their own"""
        self.scopes.append((len(self.pc), list(extra)))
        self.solver.push()
        for x in extra:
            self.solver.add(x)

    def pop_scope(self):
        self.scopes.pop()
        self.solver.pop()

    # ---- checkpoints (used when a contract turns out not to fit a call: the call is then inlined) ----------------
    _CP_LISTS = ('pc', 'effects', 'obligations', 'taken', 'pending', 'choice_log', 'notes', 'script')
    _CP_SETS = ('assumed_ids', 'assumptions_used')
    _CP_SCALARS = ('counter', 'next_id', 'pos', 'fresh_exc')

    def checkpoint(self):
        cp = {k: list(getattr(self, k)) for k in self._CP_LISTS}
        cp.update({k: set(getattr(self, k)) for k in self._CP_SETS})
        cp.update({k: getattr(self, k) for k in self._CP_SCALARS})
        cp['heap'] = {k: dict(v) for k, v in self.heap.items()}
        cp['ghost'] = {k: (dict(v) if isinstance(v, dict) else v) for k, v in self.ghost.items()}
        cp['class_ids'], cp['class_by_id'] = dict(self.class_ids), dict(self.class_by_id)
        cp['shared'] = dict(self.shared)
        return cp

    def restore(self, cp):
        for k in self._CP_LISTS:
            setattr(self, k, list(cp[k]))
        for k in self._CP_SETS:
            setattr(self, k, set(cp[k]))
        for k in self._CP_SCALARS:
            setattr(self, k, cp[k])
        self.heap = {k: dict(v) for k, v in cp['heap'].items()}
        self.ghost = {k: (dict(v) if isinstance(v, dict) else v) for k, v in cp['ghost'].items()}
        self.class_ids, self.class_by_id = dict(cp['class_ids']), dict(cp['class_by_id'])
        self.shared = dict(cp['shared'])
        self._new_solver()

    # ---- naming ---------------------------------------------------------------------
    def fresh_name(self, hint):
        self.counter += 1
        return f'{hint}!{self.counter - 1}'

    def fresh_val(self, hint='v'):
        return z3.Const(self.fresh_name(hint), PyV)

    def fresh_int(self, hint='n'):
        return z3.Int(self.fresh_name(hint))

    def fresh_bool(self, hint='b'):
        return z3.Bool(self.fresh_name(hint))

    def fresh_str(self, hint='s'):
        return z3.String(self.fresh_name(hint))

    def fresh_array(self, hint, dom, rng):
        return z3.Array(self.fresh_name(hint), dom, rng)

    def fresh_func(self, hint, *sorts):
        return z3.Function(self.fresh_name(hint), *sorts)

    # ---- heap -----------------------------------------------------------------------
    def alloc(self, cls, **fields):
        oid = self.next_id
        self.next_id += 1
        self.heap[oid] = dict(fields)
        return Ref(oid, cls)

    def getf(self, ref, field):
        return self.heap[ref.id][field]

    def hasf(self, ref, field):
        return field in self.heap[ref.id]

    def setf(self, ref, field, value):
        self.heap[ref.id][field] = value
        # fields that model storage mutated in place and shared by several objects (see share_field): write through
        for oid, f in self.shared.get((ref.id, field), ()):
            self.heap[oid][f] = value

    def share_field(self, a, b, field):
        """from now on field `field` of objects a and b denotes one shared mutable store (the current value of b's)"""
        group = set(self.shared.get((a.id, field), ())) | set(self.shared.get((b.id, field), ())) | {(a.id, field), (b.id, field)}
        for member in group:
            self.shared[member] = tuple(m for m in group if m != member)
        self.setf(b, field, self.heap[b.id][field])

    def snapshot(self):
        return Snapshot({k: dict(v) for k, v in self.heap.items()}, self)

    def class_id(self, clsref):
        if clsref.name not in self.class_ids:
            cid = 1_000_000 + len(self.class_ids)
            self.class_ids[clsref.name] = cid
            self.class_by_id[cid] = clsref
        return self.class_ids[clsref.name]

    def lift_ref(self, ref):
        fn = self.value_classes.get(ref.cls)
        if fn is not None:
            return fn(self, ref)
        return None

    def unlift_ref(self, rid):
        if rid in self.class_by_id:
            return self.class_by_id[rid]
        if rid in self.heap:
            return Ref(rid, self.heap[rid].get('__class__', 'object'))
        return None

    # ---- path condition -------------------------------------------------------------
    def assume(self, formula):
        if isinstance(formula, bool):
            if not formula:
                raise Infeasible()
            return
        self.pc.append(formula)
        self.assumed_ids.add(formula.get_id())
        self.solver.add(formula)
        for ax in self.ext.axioms_for([formula]):
            self.solver.add(ax)

    def feasible(self, extra=None):
        # an assumption literal is always passed: it selects z3's incremental core, which (with MBQI
        # off) answers `unknown` immediately for satisfiable quantified problems instead of building
        # a model; `unknown` counts as feasible
        if extra is None:
            r = self.solver.check(self._lit)
        elif isinstance(extra, bool):
            if not extra:
                return False
            r = self.solver.check(self._lit)
        else:
            r = self.solver.check(self._lit, extra)
        return r != z3.unsat

    def choose(self, alts, label=''):
        """alts: list of z3 Bool / python bool (guards of the alternatives). Returns chosen index."""
        if self.pos < len(self.script):
            i = self.script[self.pos]
            self.pos += 1
            self.taken.append(i)
            self.choice_log.append((label, i))
            g = alts[i]
            if not isinstance(g, bool):
                self._decide(g)
            return i
        feas = []
        for i, g in enumerate(alts):
            if isinstance(g, bool):
                if g:
                    feas.append(i)
            elif self.feasible(g):
                feas.append(i)
        if not feas:
            raise Infeasible()
        first = feas[0]
        for j in feas[1:]:
            self.pending.append(self.taken + [j])
        self.pos += 1
        self.taken.append(first)
        self.choice_log.append((label, first))
        g = alts[first]
        if not isinstance(g, bool):
            self._decide(g)
        return first

    def _decide(self, g):
        self.pc.append(g)
        self.solver.add(g)
        for ax in self.ext.axioms_for([g]):
            self.solver.add(ax)

    def branch(self, cond, label=''):
        """cond: python bool, SymB or z3 Bool -> python bool (forks when undetermined)"""
        if isinstance(cond, SymB):
            cond = cond.t
        if isinstance(cond, bool):
            return cond
        cond = z3.simplify(cond)
        if z3.is_true(cond):
            return True
        if z3.is_false(cond):
            return False
        return self.choose([cond, z3.Not(cond)], label) == 0

    # ---- obligations ----------------------------------------------------------------
    def oblige(self, name, formula, pc=None, **info):
        if isinstance(formula, SymB):
            formula = formula.t
        pc = self.pc if pc is None else pc
        if isinstance(formula, bool):
            if formula:
                self.obligations.append(Obligation(name, pc, z3.BoolVal(True), self.path_id, info))
            else:
                self.obligations.append(Obligation(name, pc, z3.BoolVal(False), self.path_id, info))
            return
        self.obligations.append(Obligation(name, pc, formula, self.path_id, info))

    def oblige_fail(self, name, message, **info):
        """a structural (non-formula) failure: violated iff the path is feasible"""
        self.obligations.append(Obligation(name, self.pc, z3.BoolVal(False), self.path_id, info,
                                           concrete_fail=message))

    # ---- effects --------------------------------------------------------------------
    def emit(self, kind, **fields):
        e = Effect(kind, **fields)
        self.effects.append(e)
        return e

    def new_exc_id(self):
        self.fresh_exc += 1
        return z3.IntVal(-self.fresh_exc)


class Snapshot:
    """immutable copy of the heap at some point of a path"""

    def __init__(self, heap, state):
        self.heap = heap
        self.state = state
        self.pc_len = len(state.pc) if state is not None and hasattr(state, 'pc') else None

    def getf(self, ref, field):
        return self.heap[ref.id][field]

    def hasf(self, ref, field):
        return ref.id in self.heap and field in self.heap[ref.id]

    def view(self, ref):
        return View(self, ref)


class View:
    """attribute-style read access into a snapshot: View(snap, ref).field.sub"""

    def __init__(self, snap, ref):
        object.__setattr__(self, '_snap', snap)
        object.__setattr__(self, '_ref', ref)

    def __getattr__(self, name):
        v = self._snap.getf(self._ref, name)
        if isinstance(v, Ref):
            return View(self._snap, v)
        return v

    def __getitem__(self, name):
        return self.__getattr__(name)

    def ref(self):
        return self._ref


# --------------------------------------------------------------------------------------
# Explorer
# --------------------------------------------------------------------------------------
class PathResult:
    def __init__(self, state, outcome, value=None, error=None):
        self.state = state
        self.outcome = outcome   # 'return' | 'raise' | 'end' | 'infeasible' | 'unsupported'
        self.value = value
        self.error = error


def explore(run_path, base_axioms, max_paths=4000, budget_s=600):
    """run_path(state) -> (outcome, value); explores all decision scripts"""
    work = [[]]
    results = []
    t0 = time.time()
    n = 0
    while work:
        script = work.pop()
        st = State(script, base_axioms, path_id=n)
        n += 1
        if n > max_paths or time.time() - t0 > budget_s:
            results.append(PathResult(st, 'unsupported', error=f'path budget exceeded ({n} paths)'))
            break
        try:
            outcome, value = run_path(st)
            results.append(PathResult(st, outcome, value))
        except PathEnd:
            results.append(PathResult(st, 'end'))
        except Infeasible:
            results.append(PathResult(st, 'infeasible'))
        except Unsupported as u:
            results.append(PathResult(st, 'unsupported', error=str(u)))
            break       # the function is undecided anyway: do not enumerate further paths
        work.extend(st.pending)
    return results
