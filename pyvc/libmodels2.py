"""
Models of *user code* (node classes, event managers, artifact stores: arbitrary havoc) and of the small
reflection helpers the engine applies to it (inspect, getattr with default, tags).
"""
import ast

import z3
from pyvc.values import FA

from .interp import (CallArgs, PyRaise, LibFn, LibRef, Function, BoundMethod, Closure, Partial, Coroutine, Awaitable,
                     Env, attr_fn)
from .models import used
from .state import SymMap, SymSeq, SymSet
from .values import (PyV, NONE, TRUE, FALSE, LATTICE, subcls, Ref, ClsRef, EnumMember, Sym, SymV, SymB, SymI, SymS,
                     Unsupported, lift, lower, as_bool_term, eq_term, wrap_bool, z3_not, z3_and, z3_or, as_z3,
                     mk_str, is_symbolic, IntS, BoolS, StrS, truthy_term)

HAS_ATTR = z3.Function('has_attr', PyV, StrS, BoolS)
IS_CORO_FN = z3.Function('is_coroutine_function', PyV, BoolS)
IS_CALLABLE = z3.Function('is_callable', PyV, BoolS)
TAG_IN = z3.Function('tag_in', PyV, StrS, BoolS)
USER = 'user code: '


def _none_axioms():
    # None has none of the attributes the engine probes on declared objects
    return [z3.Not(HAS_ATTR(NONE, z3.StringVal(n))) for n in ('name', 'node_type', '__module__', 'process', 'default_factory',
                                                                '__annotations__', '__generic_class__', '__qualname__')] \
        + [z3.Not(z3.Function('inspect_isclass', PyV, z3.BoolSort())(NONE))]      # None is not a class


from .values import EXTRA_AXIOMS   # noqa: E402
EXTRA_AXIOMS.append(_none_axioms)
SEQ_LEN = z3.Function('seq_len', PyV, IntS)
SEQ_AT = z3.Function('seq_at', PyV, IntS, PyV)


class UserCallPlugin:
    def unknown_call(self, it, fn, ca):
        st = it.st
        awaited = getattr(it, 'current_call_awaited', False)
        it.current_call_awaited = False
        kw = dict(ca.kwargs)
        star = list(ca.starmaps)
        eff = st.emit('user_call', fn=fn, args=list(ca.args), kwargs=kw, starmaps=star, awaited=awaited,
                      kwmaps=[it.dict_sym(sm) for sm in star], snap=st.snapshot(), result=None, exc=None)
        used(it, USER + 'a call into user code returns an arbitrary value or raises an arbitrary exception; it does not '
                        'touch engine state; if awaited it yields')

        def finish():
            if awaited:
                it.do_yield('user')
            if it.opt.get('user_raises', True) and st.choose([True, True], 'user-call-outcome') == 1:
                exc = SymV(PyV.exc(st.fresh_int('ecls'), st.fresh_int('eid')))
                st.assume(PyV.eid(exc.t) >= 0)
                eff.f['exc'] = exc
                raise PyRaise(exc, 'raised by user code')
            res = SymV(st.fresh_val('user_res'))
            eff.f['result'] = res
            return res
        if awaited:
            return (Awaitable('user-coroutine', finish),)
        return (finish(),)

    def getattr_default(self, it, obj, name, default):
        if isinstance(obj, SymV):
            st = it.st
            used(it, USER + 'attributes of user classes / instances are uninterpreted functions of the object')
            has = HAS_ATTR(obj.t, z3.StringVal(name))
            if st.branch(has, f'hasattr-{name}'):
                v = attr_fn(name)(obj.t)
                return (lower(v, st),)
            return (default,)
        return None

    def callable_(self, it, v):
        if isinstance(v, SymV):
            return (wrap_bool(IS_CALLABLE(v.t)),)
        return None

    def contains(self, it, container, item):
        if isinstance(container, SymV) and isinstance(item, (EnumMember, str)):
            name = item.value if isinstance(item, EnumMember) else item
            used(it, USER + 'membership of a tag in a node\'s tags tuple is an uninterpreted predicate')
            return (wrap_bool(TAG_IN(container.t, z3.StringVal(name))),)
        return None

    def iterate(self, it, v):
        # a list / tuple stored as an opaque value (e.g. the `oneof_nodes` graph attribute): an abstract sequence
        # whose length and elements are uninterpreted functions of the value (the same on every iteration)
        if isinstance(v, SymV):
            st = it.st
            used(it, 'iteration over a stored list value: a fixed abstract sequence SEQ_AT(v, 0..SEQ_LEN(v))')
            arr = st.fresh_array('seqview', IntS, PyV)
            i = z3.Int('svi')
            st.assume(FA([i], z3.Select(arr, i) == SEQ_AT(v.t, i), patterns=[z3.Select(arr, i)]))
            st.assume(SEQ_LEN(v.t) >= 0)
            return SymSeq(SEQ_LEN(v.t), arr)
        return None

    def lib_value(self, it, dotted):
        if dotted == 'inspect.iscoroutinefunction':
            def f(it_, ca):
                v = ca.args[0]
                if isinstance(v, SymV):
                    used(it_, 'inspect.iscoroutinefunction: uninterpreted predicate of the (user) function object')
                    return wrap_bool(IS_CORO_FN(v.t))
                if isinstance(v, (Function, BoundMethod)):
                    return v.finfo.is_async
                if isinstance(v, Closure):
                    return v.is_async
                raise Unsupported(f'iscoroutinefunction({v!r})')
            return (LibFn(dotted, f),)
        if dotted == 'inspect.getdoc':
            def getdoc(it_, ca):
                used(it_, 'inspect.getdoc: an uninterpreted function of the object (a string or None)')
                v = ca.args[0]
                return lower(z3.Function('getdoc', PyV, PyV)(lift(v, it_.st)), it_.st) if isinstance(v, SymV) else None
            return (LibFn(dotted, getdoc),)
        if dotted == 'inspect':
            return (LibRef('inspect'),)
        if dotted == 'uuid.uuid4':
            def u4(it_, ca):
                used(it_, 'uuid.uuid4(): a fresh opaque value')
                it_.st.emit('fresh_uuid')
                u = it_.st.fresh_val('uuid')
                it_.st.assume(u != NONE)
                return SymV(u)
            return (LibFn(dotted, u4),)
        if dotted == 'warnings.warn':
            return (LibFn(dotted, lambda it_, ca: None),)
        if dotted == 'warnings':
            return (LibRef('warnings'),)
        return None

    def symv_attr(self, it, obj, name):
        # attributes of user values that the engine reads are total uninterpreted functions; a missing attribute
        # on a user class is outside the validity precondition (NodeBase supplies defaults for all of them)
        if name in ('attempts', 'delay', 'exceptions', 'use_default', 'tags', 'process', 'get_default', 'node_type',
                    'name', 'verbose_name', 'save', 'load', '_shutdown', '_shutdown_thread', 'value', 'hex',
                    '__name__', '__qualname__', '__module__', '__doc__', '__annotations__', '__class__', '__generic_class__'):
            st = it.st
            if name in ('__module__', '__annotations__', '__generic_class__', '__qualname__'):
                # not every object has these: missing -> AttributeError; every class has __module__ / __name__ / __qualname__
                has = HAS_ATTR(obj.t, z3.StringVal(name))
                if name in ('__module__', '__qualname__'):
                    has = z3.Or(has, z3.Function('inspect_isclass', PyV, z3.BoolSort())(obj.t))
                if not st.branch(has, f'hasattr-{name}'):
                    it.raise_builtin('AttributeError', f'object has no attribute {name}')
            if st.branch(PyV.is_none(obj.t), 'attr-of-none'):
                it.raise_builtin('AttributeError', f'None.{name}')
            used(it, USER + 'attributes of user classes / instances are uninterpreted functions of the object')
            if name == 'hex':
                from .interp import STR_OF
                return (SymS(STR_OF(attr_fn(name)(obj.t))),)     # uuid.hex is a string
            if name == '__class__':
                st.assume(attr_fn(name)(obj.t) != NONE)      # every object has a class
            return (lower(attr_fn(name)(obj.t), st),)
        return None

    def global_value(self, it, mi, expr):
        # pool registries are process-wide singletons whose state is arbitrary when a run starts
        src = ast.unparse(expr)
        if src == 'PoolExecutorRegistry()' and mi.name.startswith('ml_pipeline_engine.parallelism'):
            st = it.st
            ci = mi.defs['PoolExecutorRegistry'][1]
            obj = st.alloc(ci.key, _pool_executor=SymV(st.fresh_val('pool_executor')),
                           _process_manager=SymV(st.fresh_val('process_manager')))
            st.setf(obj, '__class__', ci.key)
            used(it, 'pool registries: process-wide singletons in an arbitrary registration state')
            return (obj,)
        return None


def install(reg):
    reg.plug(UserCallPlugin())
