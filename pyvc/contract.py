"""
Contract DSL, modular call rule, loop rule and the per-function verification driver.
"""
import ast
import inspect
import types

import z3

from .interp import (Interp, CallArgs, PyRaise, ReturnEx, BreakEx, ContinueEx, Env, Coroutine, EnumeratedSeq,
                     RangeSeq, StarSeq)
from .state import State, SymMap, SymSeq, SymSet, PathEnd, Infeasible, Snapshot, View, explore, Obligation
from .values import (PyV, NONE, LATTICE, subcls, Ref, ClsRef, Sym, SymV, SymB, SymI, SymS, Unsupported, lift, lower,
                     as_z3, wrap_bool, z3_and, z3_or, z3_not, IntS, BoolS)


class A(types.SimpleNamespace):
    """bound arguments of a call"""


class ExcCase:
    def __init__(self, name, cls, when=None, ensures=None, modifies=None, may=False):
        self.name = name
        self.cls = cls            # class name (str) or None = any exception
        self.when = when          # z3 Bool: raised exactly when this holds (None with may=True: nondeterministic)
        self.ensures = ensures    # (post, exc) -> [(name, formula)]
        self.modifies = modifies  # None = same as normal modifies
        self.may = may


class LoopSpec:
    """inductive invariant of one loop of a function under contract"""

    def __init__(self, text=None, ordinal=None, havoc=None, heap_havoc=None, inv=None, measure=None,
                 body_post=None, name=None, ghost_init=None, ghost_update=None):
        self.text = text
        self.ordinal = ordinal
        self.havoc = havoc or {}
        self.heap_havoc = heap_havoc
        self.inv = inv
        self.measure = measure
        self.body_post = body_post
        self.ghost_init = ghost_init        # env -> None: create ghost locals before the loop
        self.ghost_update = ghost_update    # ctx (with iter_effects) -> None: update ghost locals at the back-edge
        self.name = name or (text or f'loop{ordinal}')

    def matches(self, ordinal, text):
        if self.text is not None:
            return self.text == text
        return self.ordinal == ordinal

    # ---- helpers ------------------------------------------------------------------
    def _havoc(self, it, env):
        st = it.st
        for name, kind in self.havoc.items():
            if name.startswith('ghost:'):
                st.ghost[name] = {'int': lambda: SymI(st.fresh_int(name[6:])), 'bool': lambda: SymB(st.fresh_bool(name[6:])),
                                  'val': lambda: SymV(st.fresh_val(name[6:]))}[kind]()
                continue
            name = it.local_name(env, name)
            found, cur = env.lookup(name)
            if kind == 'int':
                env.vars[name] = SymI(st.fresh_int(name))
            elif kind == 'bool':
                env.vars[name] = SymB(st.fresh_bool(name))
            elif kind == 'val':
                env.vars[name] = SymV(st.fresh_val(name))
            elif kind == 'content':
                if not found or not isinstance(cur, Ref):
                    raise Unsupported(f'havoc content of {name}: not a container')
                havoc_location(st, cur, content_field(cur), name)
            else:
                raise Unsupported(f'havoc kind {kind}')
        if self.heap_havoc is not None:
            for ref, field in self.heap_havoc(it, env):
                havoc_location(st, ref, field, f'{field}')

    def _check(self, it, env, ctx, tag, fname):
        res = self.inv(ctx) if self.inv is not None else []
        if not isinstance(res, (list, tuple)):
            res = [('inv', res)]
        for n, f in res:
            it.st.oblige(f'{fname}#loop[{self.name}]:{n}:{tag}', f)

    def _assume(self, it, ctx):
        res = self.inv(ctx) if self.inv is not None else []
        if not isinstance(res, (list, tuple)):
            res = [('inv', res)]
        for _n, f in res:
            it.st.assume(as_z3(f))

    # ---- for ------------------------------------------------------------------------
    def run_for(self, it, s, env, seq):
        st = it.st
        fname = env.finfo.qualname
        src_ref = None
        iterable_val = it.eval(s.iter, env) if False else None
        enumerated = isinstance(seq, EnumeratedSeq)
        base = seq.seq if enumerated else seq
        if isinstance(base, RangeSeq):
            length = base.n
            elem_at = lambda i: SymI(i)
        else:
            length = base.len
            elem_at = lambda i: lower(base.at(i), st)
        live = getattr(self, 'live_list', None)
        if self.ghost_init is not None:
            self.ghost_init(it, env)
        ctx = LoopCtx(it, env, z3.IntVal(0), length, base, self)
        ctx.entry_effects = len(st.effects)
        self._check(it, env, ctx, 'entry', fname)
        which = st.choose([True, True], f'loop[{self.name}]')
        self._havoc(it, env)
        if which == 0:
            i = st.fresh_int('i')
            st.assume(z3.And(i >= 0, i < length))
            ctx = LoopCtx(it, env, i, length, base, self)
            self._assume(it, ctx)
            if live is not None:
                found, lst = it.lookup_local(env, live)
                cur_items = st.getf(lst, 'items')
                x = lower(cur_items.at(i), st)
            else:
                x = elem_at(i)
            it.assign(s.target, (SymI(i), x) if enumerated else x, env)
            eff0 = len(st.effects)
            m0 = self.measure(ctx) if self.measure else None
            try:
                it.exec_body(s.body, env)
            except ContinueEx:
                pass
            except BreakEx:
                return
            ctx2 = LoopCtx(it, env, i + 1, length, base, self)
            ctx2.iter_effects = st.effects[eff0:]
            ctx2.i_before = i
            if self.ghost_update is not None:
                self.ghost_update(ctx2)
            self._check(it, env, ctx2, 'preserved', fname)
            if self.body_post is not None:
                ctx2.iter_effects = st.effects[eff0:]
                ctx2.i_before = i
                for n, f in self.body_post(ctx2):
                    oblige_any(st, f'{fname}#loop[{self.name}]:{n}', f)
            raise PathEnd()
        ctx = LoopCtx(it, env, length, length, base, self)
        self._assume(it, ctx)
        st.emit('loop_summary', loop=self.name, fn=fname)
        it.exec_body(s.orelse, env)

    # ---- while ----------------------------------------------------------------------
    def run_while(self, it, s, env):
        st = it.st
        fname = env.finfo.qualname
        if self.ghost_init is not None:
            self.ghost_init(it, env)
        ctx = LoopCtx(it, env, None, None, None, self)
        self._check(it, env, ctx, 'entry', fname)
        always = isinstance(s.test, ast.Constant) and s.test.value is True
        which = 0 if always else st.choose([True, True], f'while[{self.name}]')
        self._havoc(it, env)
        ctx = LoopCtx(it, env, None, None, None, self)
        self._assume(it, ctx)
        st.emit('loop_summary', loop=self.name, fn=fname)
        c = it.eval_cond(s.test, env)
        if which == 0:
            if not isinstance(c, bool):
                st.assume(c)
            elif not c:
                raise Infeasible()
            eff0 = len(st.effects)
            m0 = self.measure(ctx) if self.measure else None
            try:
                it.exec_body(s.body, env)
            except ContinueEx:
                pass
            except BreakEx:
                return
            ctx2 = LoopCtx(it, env, None, None, None, self)
            ctx2.iter_effects = st.effects[eff0:]
            if self.ghost_update is not None:
                self.ghost_update(ctx2)
            self._check(it, env, ctx2, 'preserved', fname)
            if m0 is not None:
                m1 = self.measure(ctx2)
                st.oblige(f'{fname}#loop[{self.name}]:measure-decreases', z3.And(m1 >= 0, m1 < m0))
            if self.body_post is not None:
                ctx2.iter_effects = st.effects[eff0:]
                for n, f in self.body_post(ctx2):
                    oblige_any(st, f'{fname}#loop[{self.name}]:{n}', f)
            raise PathEnd()
        if not isinstance(c, bool):
            st.assume(z3.Not(c))
        elif c:
            raise Infeasible()
        it.exec_body(s.orelse, env)


class LoopCtx:
    def __init__(self, it, env, i, length, seq, spec):
        self.it, self.env, self.i, self.len, self.seq, self.spec = it, env, i, length, seq, spec
        self.st = it.st
        self.pre = it.entry_snapshot
        self.a = it.entry_args
        self.iter_effects = []

    def var(self, name):
        if name.startswith('ghost:'):
            return self.st.ghost[name]
        found, v = self.it.lookup_local(self.env, name)
        if not found:
            raise Unsupported(f'loop invariant refers to unbound local {name}')
        return v

    def now(self):
        return self.st.snapshot()


class At:
    """a clause about the state at an earlier point of the path (a snapshot taken there): the obligation is posed under
    the path condition *as it was at that point* plus the definitions introduced while the clause was built.  Facts
    learnt later on the path (branch decisions after the point, posts of later callees) are irrelevant to whether the
    state at the point can violate the clause; leaving them out only weakens the hypotheses (never unsound for a
    proof) and keeps the query small."""

    def __init__(self, snap, formula):
        self.snap, self.formula = snap, formula


def oblige_any(st, name, f, defs_from=None):
    """f: formula | bool | str (structural failure message) | At | None"""
    if isinstance(f, At):
        if f.snap.pc_len is None or isinstance(f.formula, (bool, str)) or f.formula is None:
            return oblige_any(st, name, f.formula)
        pc = st.pc[:f.snap.pc_len] + (st.pc[defs_from:] if defs_from is not None and defs_from >= f.snap.pc_len else [])
        st.oblige(name, f.formula, pc=pc)
        return
    if f is None or f is True:
        st.oblige(name, True)
    elif f is False:
        st.oblige_fail(name, 'structural mismatch')
    elif isinstance(f, str):
        st.oblige_fail(name, f)
    else:
        st.oblige(name, f)


def content_field(ref):
    return {'list': 'items', 'tuple': 'items', 'deque': 'items', 'dict': 'map', 'set': 'elems'}.get(ref.cls)


def havoc_value(st, cur, hint):
    if hasattr(cur, 'havoc'):
        return cur.havoc(st, hint)
    if isinstance(cur, (SymMap, dict)):
        return SymMap.fresh(st, hint)
    if isinstance(cur, (SymSet, frozenset)):
        return SymSet.fresh(st, hint)
    if isinstance(cur, (SymSeq, tuple)):
        return SymSeq.fresh(st, hint)
    if isinstance(cur, (SymB, bool)):
        return SymB(st.fresh_bool(hint))
    if isinstance(cur, (SymI, int)):
        return SymI(st.fresh_int(hint))
    if isinstance(cur, Ref):
        raise Unsupported(f'havoc of reference field {hint}')
    if hasattr(cur, 'havoc'):
        return cur.havoc(st, hint)
    return SymV(st.fresh_val(hint))


def havoc_location(st, ref, field, hint):
    if field == '*':
        for f in list(st.heap[ref.id]):
            if not f.startswith('__') and not isinstance(st.heap[ref.id][f], Ref):
                havoc_location(st, ref, f, f'{hint}.{f}')
        return
    cur = st.getf(ref, field)
    st.setf(ref, field, havoc_value(st, cur, hint))


def same_value(a, b, st):
    """formula (or bool) saying two field values are equal"""
    if a is b:
        return True
    if isinstance(a, SymMap) and isinstance(b, SymMap):
        return a.eq(b)
    if isinstance(a, SymSet) and isinstance(b, SymSet):
        return a.mem == b.mem
    if isinstance(a, SymSeq) and isinstance(b, SymSeq):
        return z3.And(a.len == b.len, a.arr == b.arr)
    if isinstance(a, dict) and isinstance(b, dict):
        if set(a) != set(b):
            return False
        return z3_and(*[same_value(a[k], b[k], st) for k in a])
    if isinstance(a, (tuple, frozenset)) and isinstance(b, type(a)):
        if isinstance(a, tuple):
            if len(a) != len(b):
                return False
            return z3_and(*[same_value(x, y, st) for x, y in zip(a, b)])
        return a == b
    if isinstance(a, Ref) or isinstance(b, Ref):
        return isinstance(a, Ref) and isinstance(b, Ref) and a.id == b.id
    if hasattr(a, 'same_as'):
        return a.same_as(b, st)
    try:
        from .values import eq_term
        return eq_term(a, b, st)
    except Unsupported:
        if type(a) is type(b) and a == b:
            return True
        # a concrete container promoted to a symbolic one
        if isinstance(a, dict) and isinstance(b, SymMap) or isinstance(a, frozenset) and isinstance(b, SymSet) \
                or isinstance(a, tuple) and isinstance(b, SymSeq):
            return False
        return a is b


class Contract:
    path = ''
    name = ''
    props = ()
    returns = 'val'
    inline_at_calls = False
    loops = ()
    options = {}
    trusted = False        # True: assumed contract on a dependency (never on a /repo function)
    yields = False         # the call ends the caller's atomic segment
    doc = ''

    def on_yield(self, it, label):
        """interference at a yield while verifying this function: havoc shared state under the rely"""

    # -------- to be overridden --------------------------------------------------------
    def setup(self, it):
        raise NotImplementedError

    def requires(self, it, pre, a):
        return []

    def modifies(self, it, pre, a):
        return []

    def ensures(self, it, pre, post, a, res):
        return []

    def raises(self, it, pre, a):
        return []

    def effects_spec(self, it, pre, post, a, outcome, value, effects):
        return []

    def call_effects(self, it, pre, post, a, res):
        pass

    def witness(self, model, ctx):
        """optional: concretise a counter-model into an input the replayer can run on the real code (JSON-able dict)"""
        return None

    def result_term(self, it, pre, a):
        """optional: the result as an explicit function of the pre-state (pure functional contracts);
        used at call sites instead of a fresh symbol + ensures"""
        return None

    # -------- machinery ---------------------------------------------------------------
    @property
    def key(self):
        return f'{self.path}::{self.name}'

    def bind(self, it, fi, self_val, ca):
        env = Env({}, None, fi, module=fi.module, cls=fi.cls)
        if fi.is_static:
            self_val = None
        locals_ = it.bind_params(fi.node.args, self_val, ca, env, fi.qualname)
        for ref_name, cur_name in it.renaming_for(fi).items():      # renamed parameters keep their reference names too
            if cur_name in locals_ and ref_name not in locals_:
                locals_[ref_name] = locals_[cur_name]
        return A(**locals_)

    def make_result(self, it, pre, a):
        st = it.st
        r = self.returns
        if callable(r):
            return r(it, pre, a)
        if r == 'none':
            return None
        if r == 'val':
            return lower(st.fresh_val('res'), st) if False else SymV(st.fresh_val('res'))
        if r == 'bool':
            return SymB(st.fresh_bool('res'))
        if r == 'int':
            return SymI(st.fresh_int('res'))
        if r == 'str':
            return SymS(st.fresh_str('res'))
        if r == 'list':
            return it.st.alloc('list', items=SymSeq.fresh(st, 'res'))
        if r == 'dict':
            return it.st.alloc('dict', map=SymMap.fresh(st, 'res'))
        if r == 'set':
            return it.st.alloc('set', elems=SymSet.fresh(st, 'res'))
        raise Unsupported(f'result kind {r}')

    def apply_at_call(self, it, fi, self_val, ca):
        st = it.st
        caller = it.call_stack[-1] if it.call_stack else '<entry>'
        # a parameter the function did not have when the contract was written: the contract (verified with that parameter at
        # its default) does not cover a call that passes it -- the body is inlined instead (see call_function)
        from . import alpha
        added = alpha.new_params(fi.module.path, fi.qualname, fi.node)
        if added:
            pos = [x.arg for x in fi.node.args.posonlyargs + fi.node.args.args]
            n_pos = len(ca.args) + (0 if (fi.is_static or self_val is None) else 1)
            passed = [x for x in added if x in (ca.kwargs or {}) or (x in pos and pos.index(x) < n_pos)]
            if passed or ca.starmaps:
                raise AssertionError(f'the call passes {passed or "**kwargs"}, which the contract of {self.name} does not know')
        a = self.bind(it, fi, self_val, ca)
        pre = st.snapshot()
        for n, f in self.requires(it, pre, a):
            if not n.startswith('assumed:'):      # named history assumptions are carried, not checked
                st.oblige(f'{caller}#call:{self.name}.pre[{n}]', f, callee=self.name)
            else:
                st.assumptions_used.add(f'UNCHECKED PRECONDITION of {self.name.split(".")[-1]} assumed at a call site: {n[8:]}')
            st.assume(as_z3(f))
        pre_call = pre
        if self.yields:
            it.do_yield(self.name)
            pre = st.snapshot()
        cases = self.raises(it, pre, a)
        guards = []
        det = [c.when for c in cases if not c.may and c.when is not None]
        normal_guard = z3_not(z3_or(*det)) if det else True
        guards.append(normal_guard)
        for c in cases:
            guards.append(True if c.may or c.when is None else c.when)
        which = st.choose([g if isinstance(g, bool) else as_z3(g) for g in guards], f'call:{self.name}')
        mods = self.modifies(it, pre, a)
        if which > 0:
            case = cases[which - 1]
            m = case.modifies(it, pre, a) if case.modifies is not None else mods
            for ref, field in m:
                havoc_location(st, ref, field, f'{self.name}.{field}')
            if case.cls is None:
                exc = SymV(PyV.exc(st.fresh_int('ecls'), st.fresh_int('eid')))
                st.assume(PyV.eid(exc.t) >= 0)
            else:
                exc = it.new_exception(ClsRef(f'builtins.{case.cls}') if case.cls in LATTICE.BUILTIN_PARENTS
                                       else ClsRef(case.cls, it.repo.find_class(case.cls)))
            post = st.snapshot()
            if case.ensures is not None:
                for _n, f in case.ensures(post, exc):
                    st.assume(as_z3(f))
            st.emit('call', fn=self.name, a=a, res=None, exc=exc, pre=pre, post=post, case=case.name, pre_call=pre_call)
            raise PyRaise(exc, f'{self.name}:{case.name}')
        for ref, field in mods:
            havoc_location(st, ref, field, f'{self.name}.{field}')
        rt = self.result_term(it, pre, a) if not mods else None
        if rt is not None:
            res = wrap_bool(rt) if z3.is_bool(rt) else lower(rt, st)
            post = pre
        else:
            res = self.make_result(it, pre, a)
            post = st.snapshot()
            feasible_before = st.feasible()
            for _n, f in self.ensures(it, pre, post, a, res):
                try:
                    st.assume(as_z3(f))
                except Infeasible:
                    raise Unsupported(f'postcondition clause {_n!r} of {self.name} is literally false at a call site '
                                      f'(vacuity guard)')
            if feasible_before and not st.feasible():
                raise Unsupported(f'postcondition of {self.name} contradicts the state at a call site (vacuity guard)')
            if isinstance(res, SymV):
                res = lower(res.t, st)
        st.emit('call', fn=self.name, a=a, res=res, exc=None, pre=pre, post=post, case=None, pre_call=pre_call)
        self.call_effects(it, pre, post, a, res)
        return res


class Registry:
    def __init__(self):
        self.contracts = {}
        self.lemmas = []

    def add(self, c):
        self.contracts[c.key] = c
        return c

    def get(self, key):
        return self.contracts.get(key)

    def __iter__(self):
        return iter(self.contracts.values())


REGISTRY = Registry()


def contract(cls):
    """class decorator: instantiate and register"""
    inst = cls()
    REGISTRY.add(inst)
    return cls


class Lemma:
    """property-level lemma over contract *statements* (no code)"""
    name = ''
    props = ()

    def obligations(self, st):
        """returns [(name, formula)] to be proved valid under st.pc assumptions"""
        raise NotImplementedError


def lemma(cls):
    REGISTRY.lemmas.append(cls())
    return cls


# --------------------------------------------------------------------------------------
# verification of one function against its contract
# --------------------------------------------------------------------------------------
class FunctionReport:
    def __init__(self, contract):
        self.contract = contract
        self.obligations = []      # Obligation
        self.paths = 0
        self.outcomes = {}
        self.unsupported = []
        self.missing = False
        self.source_hash = None
        self.lines = None


MISSING_FUNCTIONS = set()      # short names of contracted functions that no longer exist in the tree being checked


def note_missing_functions(repo, registry):
    MISSING_FUNCTIONS.clear()
    for c_ in registry:
        if getattr(c_, 'assumed', False):
            continue
        if repo.function(c_.path, c_.name) is None:
            MISSING_FUNCTIONS.add(c_.name.split('.')[-1])


def verify_function(repo, registry, models_factory, c, base_axioms, options=None):
    note_missing_functions(repo, registry)
    rep = FunctionReport(c)
    fi = repo.function(c.path, c.name)
    if fi is None:
        rep.missing = True
        return rep
    rep.lines = (fi.node.lineno, fi.node.end_lineno)
    opts = dict(options or {})
    opts.update(c.options or {})

    def run_path(st):
        models = models_factory()
        it = Interp(repo, registry, st, models, verifying=fi.key, options=opts)
        models.attach(it)
        it.yield_hook = c.on_yield
        self_val, ca = c.setup(it)
        a = c.bind(it, fi, self_val, ca)
        pre = st.snapshot()
        it.entry_snapshot = pre
        it.entry_args = a
        for _n, f in c.requires(it, pre, a):
            st.assume(as_z3(f))
            if _n.startswith('assumed:'):
                st.assumptions_used.add(f'UNCHECKED PRECONDITION of {c.name.split(".")[-1]}: {_n[8:]}')
            else:
                st.assumptions_used.add(f'REQUIRES {c.name}: {_n}')
        # vacuity guard: the precondition must be satisfiable
        if not st.feasible():
            st.oblige_fail(f'{c.name}#precondition-satisfiable', 'precondition is contradictory')
            raise PathEnd()
        st.effects.clear()
        outcome, value = 'return', None
        it.call_stack.append(c.name)
        try:
            try:
                value = it.inline_function(fi, self_val, ca)
                if fi.is_async and isinstance(value, Coroutine):
                    value = it.await_value(value)
            except PyRaise as pr:
                outcome, value = 'raise', pr.val
        finally:
            it.call_stack.pop()
        post = st.snapshot()
        effects = list(st.effects)
        cases = c.raises(it, pre, a)
        if outcome == 'return':
            for n, f in c.ensures(it, pre, post, a, value):
                oblige_any(st, f'{c.name}#post[{n}]', f)
            for case in cases:
                if not case.may and case.when is not None:
                    st.oblige(f'{c.name}#must-raise[{case.name}]', z3_not(case.when))
            mods = c.modifies(it, pre, a)
        else:
            # the exception must be one of the declared cases
            matches = []
            for case in cases:
                m = True if case.cls is None else subcls(PyV.ecls(value.t), z3.IntVal(LATTICE.codes.get(case.cls, -1)))
                w = True if (case.may or case.when is None) else case.when
                matches.append(z3_and(m, w))
            st.oblige(f'{c.name}#raises-only-declared', z3_or(*matches) if matches else False,
                      raised=str(z3.simplify(value.t)))
            for case, m in zip(cases, matches):
                if case.ensures is not None:
                    for n, f in case.ensures(post, value):
                        st.oblige(f'{c.name}#exc-post[{case.name}.{n}]', z3.Implies(as_z3(m), as_z3(f)))
            mods = c.modifies(it, pre, a)
            for case, m in zip(cases, matches):
                if case.modifies is not None:
                    # use the union (frame is checked against what any matching case allows)
                    mods = list(mods) + list(case.modifies(it, pre, a))
        defs_from = len(st.pc)
        for n, f in list(c.effects_spec(it, pre, post, a, outcome, value, effects)):
            oblige_any(st, f'{c.name}#trace[{n}]', f, defs_from)
        # frame
        allowed = set()
        for ref, field in mods:
            allowed.add((ref.id, field))
        for oid, fields in pre.heap.items():
            for field, before in fields.items():
                if (oid, field) in allowed or (oid, '*') in allowed:
                    continue
                after = post.heap.get(oid, {}).get(field, before)
                if after is before:
                    continue
                eq = same_value(before, after, st)
                if eq is True:
                    continue
                st.oblige(f'{c.name}#frame', eq, location=f'{fields.get("__class__", "obj")}#{oid}.{field}')
        for ob_ in st.obligations:
            ob_.ctx = dict(pre=pre, post=post, a=a, it=it, outcome=outcome, value=value)
        return outcome, value

    def guarded(st):
        try:
            return run_path(st)
        except (PathEnd, Infeasible, Unsupported, PyRaise, ReturnEx, BreakEx, ContinueEx):
            raise
        except z3.Z3Exception as e:
            # z3py refusing an operation inside a contract clause (e.g. a symbolic term where the clause expected a python
            # value because a call is spelled differently now): the clause cannot be evaluated on this code
            import traceback
            where = traceback.extract_tb(e.__traceback__)[-2:]
            raise Unsupported(f'a contract clause could not be evaluated on this code (z3: {e}) at '
                              + ' <- '.join(f'{w.filename.split("/")[-1]}:{w.lineno}' for w in reversed(where)))
        except (KeyError, AttributeError, IndexError, TypeError, AssertionError) as e:
            # the contract's view of the data no longer fits the code (a representation changed): the contract cannot be
            # applied, which is undecided, not a violation and not a checker crash
            import traceback
            where = traceback.extract_tb(e.__traceback__)[-1]
            raise Unsupported(f'the contract does not apply to this code any more ({type(e).__name__}: {e} at '
                              f'{where.filename.split("/")[-1]}:{where.lineno})')

    results = explore(guarded, base_axioms, max_paths=opts.get('max_paths', 3000),
                      budget_s=opts.get('explore_budget_s', 300))
    rep.paths = len(results)
    rep.assumptions = set()
    for r in results:
        rep.assumptions |= r.state.assumptions_used
        rep.outcomes[r.outcome] = rep.outcomes.get(r.outcome, 0) + 1
        if r.outcome == 'unsupported':
            rep.unsupported.append(r.error)
        rep.obligations.extend(r.state.obligations)
        # reachability witness: every completed path is feasible by construction (choices are checked)
    # vacuity guard: a function whose every explored path ends in an exception satisfies all its normal-path clauses
    # vacuously; unless the contract says the function never returns normally, that is undecided, not held
    if results and not getattr(c, 'never_returns', False) and not any(
            k in rep.outcomes for k in ('return', 'end', 'unsupported')):
        rep.unsupported.append('no explored path returns normally (vacuity guard): ' + str(rep.outcomes))
    return rep
