"""
Reflection model for the annotation builder (trusted base for C15/C16): node classes, their `process`
annotations and the marks found there are opaque values described by uninterpreted functions.
"""
import ast

import z3
from pyvc.values import FA

from .interp import (CallArgs, PyRaise, LibFn, LibRef, attr_fn)
from .models import used
from .state import SymMap, SymSeq, SymSet
from .values import (PyV, NONE, TRUE, FALSE, Ref, ClsRef, EnumMember, Sym, SymV, SymB, SymI, SymS, Unsupported, lift,
                     lower, as_bool_term, wrap_bool, z3_not, z3_and, z3_or, as_z3, mk_str, mk_int, IntS, BoolS, StrS)
from .libmodels2 import SEQ_AT, SEQ_LEN, HAS_ATTR

REFL = 'reflection: '
ISCLASS = z3.Function('inspect_isclass', PyV, BoolS)
IN_MRO = z3.Function('in_mro', PyV, StrS, BoolS)            # (class, base class name)
MARK_KIND = z3.Function('mark_kind', PyV, IntS)            # kind of an annotation value
SIG_PARAMS = z3.Function('signature_parameters', PyV, PyV)  # method -> abstract list of (name, Parameter) pairs
ANN_ITEMS = z3.Function('annotation_items', PyV, PyV)      # __annotations__ dict -> abstract list of (name, annotation)
ANN_HAS = z3.Function('annotation_has', PyV, PyV, BoolS)   # __annotations__ dict has key

MARK_KINDS = {'InputMark': 1, 'SwitchCaseMark': 2, 'InputOneOfMark': 3, 'RecurrentSubGraphMark': 4,
              'InputGenericMark': 5, 'GenericInputMark': 6}


class Mro:
    def __init__(self, cls):
        self.cls = cls

    def sym_contains(self, it, item):
        if not isinstance(item, ClsRef):
            raise Unsupported('membership of a non-class in an MRO')
        used(it, REFL + 'inspect.getmro(c): membership of a named base class is an uninterpreted predicate of c')
        return wrap_bool(IN_MRO(self.cls, z3.StringVal(item.name.split('::')[-1].split('.')[-1])))


class PairList:
    """abstract list of pairs (dict.items(), signature parameters)"""

    def __init__(self, v):
        self.v = v

    def sym_iter(self, it):
        st = it.st
        arr = st.fresh_array('pairs', IntS, PyV)
        i = z3.Int('pli')
        st.assume(FA([i], z3.Select(arr, i) == SEQ_AT(self.v, i), patterns=[z3.Select(arr, i), SEQ_AT(self.v, i)]))
        st.assume(FA([i], z3.Implies(z3.And(i >= 0, i < SEQ_LEN(self.v)), z3.And(
            PyV.is_tup2(SEQ_AT(self.v, i)), PyV.is_str_(PyV.t0(SEQ_AT(self.v, i))))), patterns=[SEQ_AT(self.v, i)]))
        st.assume(SEQ_LEN(self.v) >= 0)
        return SymSeq(SEQ_LEN(self.v), arr)


class ReflectionPlugin:
    def lib_value(self, it, dotted):
        if dotted == 'inspect.isclass':
            def isclass(it_, ca):
                v = ca.args[0]
                if isinstance(v, ClsRef):
                    return True
                if isinstance(v, SymV):
                    used(it_, REFL + 'inspect.isclass: uninterpreted predicate of the declared object')
                    return wrap_bool(ISCLASS(v.t))
                return False
            return (LibFn(dotted, isclass),)
        if dotted == 'inspect.getmro':
            def getmro(it_, ca):
                v = ca.args[0]
                if isinstance(v, SymV):
                    return Mro(v.t)
                raise Unsupported(f'getmro({v!r})')
            return (LibFn(dotted, getmro),)
        if dotted == 'inspect.signature':
            def signature(it_, ca):
                v = ca.args[0]
                if isinstance(v, SymV):
                    used(it_, REFL + 'inspect.signature(m).parameters: an abstract list of (name, Parameter) pairs; '
                                     'Parameter.empty is the (truthy) sentinel class')
                    return Signature(v.t)
                raise Unsupported(f'signature({v!r})')
            return (LibFn(dotted, signature),)
        if dotted == 'copy.deepcopy':
            def deepcopy(it_, ca):
                v = ca.args[0]
                if isinstance(v, Ref) and v.cls == 'dict':
                    used(it_, 'copy.deepcopy of the node map: classes are atomic for deepcopy, the result is an equal new dict')
                    new = it_.st.alloc('dict', map=it_.st.getf(v, 'map'))
                    it_.st.emit('deepcopy', src=v, new=new)
                    return new
                raise Unsupported(f'deepcopy({v!r})')
            return (LibFn(dotted, deepcopy),)
        if dotted == 'copy':
            return (LibRef('copy'),)
        return None

    def type_(self, it, ca):
        if len(ca.args) == 3:
            st = it.st
            used(it, REFL + 'type(name, bases, namespace) creates a new class: a fresh opaque class value')
            new = st.fresh_val('new_class')
            st.assume(new != NONE)
            st.assume(ISCLASS(new))
            st.emit('new_class', name=ca.args[0], bases=ca.args[1], namespace=ca.args[2], cls=SymV(new))
            return (SymV(new),)
        if len(ca.args) == 1 and isinstance(ca.args[0], SymV):
            st = it.st
            used(it, REFL + 'type(x) of an opaque value: its class, an opaque class value (a function of x)')
            c = attr_fn('__class__')(ca.args[0].t)
            st.assume(c != NONE)
            st.assume(ISCLASS(c))
            return (SymV(c),)
        return None

    def isinstance_symv(self, it, v, spec):
        name = spec.name.split('::')[-1].split('.')[-1]
        if name in MARK_KINDS:
            used(it, REFL + 'isinstance(annotation, <Mark class>): the mark kind is an uninterpreted function of the annotation')
            return (MARK_KIND(v.t) == MARK_KINDS[name],)
        return None

    def symv_attr(self, it, obj, name):
        st = it.st
        if name == 'empty':
            return (ClsRef('inspect._empty'),)
        if name == 'items':
            used(it, REFL + '__annotations__.items(): an abstract list of (name, annotation) pairs')
            return (LibFn('items', lambda it_, ca: PairList(ANN_ITEMS(obj.t))),)
        if name in ('node', 'nodes', 'switch', 'cases', 'start_node', 'dest_node', 'max_iterations'):
            used(it, REFL + 'fields of a mark are uninterpreted functions of the mark')
            return (lower(attr_fn(name)(obj.t), st),)
        return None

    def value_attr(self, it, obj, name):
        return None

    def get_item(self, it, obj, key):
        if isinstance(obj, SymV):
            k = it.as_int(key)
            if k is None:
                return None
            used(it, 'subscript of a stored list value: SEQ_AT(v, i), IndexError outside 0..SEQ_LEN(v)')
            if not it.st.branch(z3.And(k >= 0, k < SEQ_LEN(obj.t)), 'seq-index'):
                it.raise_builtin('IndexError')
            return (lower(SEQ_AT(obj.t, k), it.st),)
        return None

    def contains(self, it, container, item):
        if isinstance(container, SymV) and isinstance(item, (SymV, SymS, str)):
            # `name in annotations`
            used(it, REFL + 'key membership in __annotations__: uninterpreted')
            return (wrap_bool(ANN_HAS(container.t, lift(item, it.st))),)
        return None


class Signature:
    def __init__(self, m):
        self.m = m

    def sym_getattr(self, it, name):
        if name == 'parameters':
            return ItemsOf(SIG_PARAMS(self.m))
        raise Unsupported(f'Signature.{name}')


class ItemsOf:
    def __init__(self, v):
        self.v = v

    def sym_getattr(self, it, name):
        if name == 'items':
            return LibFn('items', lambda it_, ca: PairList(self.v))
        raise Unsupported(f'mapping.{name}')


def annotations_items(it, ann):
    """`ann.items()` for a symbolic __annotations__ value"""
    return PairList(ANN_ITEMS(ann))


def install(reg):
    reg.plug(ReflectionPlugin())
