"""
Library models for networkx, asyncio and small stdlib pieces used by the engine (trusted base).
"""
import ast

import z3
from pyvc.values import FA

from .interp import (CallArgs, PyRaise, LibFn, LibRef, Function, BoundMethod, Closure, Partial, Coroutine, Awaitable,
                     Env, EnumeratedSeq, RangeSeq, StarSeq, STR_OF)
from .models import used, CM
from .state import SymMap, SymSeq, SymSet
from .values import (PyV, NONE, TRUE, FALSE, LATTICE, subcls, Ref, ClsRef, EnumMember, Sym, SymV, SymB, SymI, SymS,
                     Unsupported, lift, lower, as_bool_term, eq_term, wrap_bool, z3_not, z3_and, z3_or, as_z3,
                     mk_str, is_symbolic, IntS, BoolS, StrS, truthy_term)

GRAPH_CLS = 'ml_pipeline_engine/dag/graph.py::DiGraph'
NODE_FIELDS = ('is_switch', 'is_oneof', 'is_oneof_child', 'oneof_nodes', 'start_node', 'max_iterations',
               'additional_data')
EDGE_FIELDS = ('kwarg_name', 'is_switch', 'case_branch')

NX_AX = 'networkx 3.6: '
DEPTH = z3.Function('depth', IntS, PyV, IntS)
DEPTH_WIT = z3.Function('depth_wit', IntS, PyV, PyV)


class Arr:
    """immutable z3 array field (attribute table)"""
    __slots__ = ('a',)

    def __init__(self, a):
        self.a = a

    def at(self, k):
        return z3.Select(self.a, k)

    def store(self, k, v):
        return Arr(z3.Store(self.a, k, v))

    def same_as(self, other, st):
        return isinstance(other, Arr) and (self.a == other.a)

    def havoc(self, st, hint):
        return Arr(st.fresh_array(hint, self.a.sort().domain(), self.a.sort().range()))

    def __repr__(self):
        return f'Arr({self.a})'


def attr_key(k):
    if isinstance(k, EnumMember):
        return k.value
    if isinstance(k, str):
        return k
    raise Unsupported(f'symbolic graph attribute name {k!r}')


# ======================================================================================
# graph model
# ======================================================================================
class GraphOps:
    """semantics of the nx.DiGraph family over heap objects (see DESIGN §2.4, §2.10)"""

    def __init__(self, it):
        self.it = it
        self.st = it.st

    # ---- construction -------------------------------------------------------------
    @staticmethod
    def fresh_base(it, hint='G'):
        st = it.st
        fields = dict(g_kind='base', g_nodes=SymSet.fresh(st, hint + '_nodes'),
                      g_edges=SymSet.fresh(st, hint + '_edges'))
        for f in NODE_FIELDS:
            fields[f'na:{f}'] = Arr(st.fresh_array(f'{hint}_na_{f}', PyV, PyV))
        for f in EDGE_FIELDS:
            fields[f'ea:{f}'] = Arr(st.fresh_array(f'{hint}_ea_{f}', PyV, PyV))
        g = st.alloc(GRAPH_CLS, **fields)
        st.setf(g, '__class__', GRAPH_CLS)
        for k, v in dict(is_recurrent=False, is_oneof=False, is_nested_oneof=False, source=None, dest=None,
                         name='main-graph').items():
            st.setf(g, k, v)
        st.setf(g, '_DiGraph__hash_value', None)
        # edges connect nodes
        u, v = z3.Consts('gu gv', PyV)
        gn, ge = fields['g_nodes'], fields['g_edges']
        st.assume(FA([u, v], z3.Implies(ge.contains(PyV.tup2(u, v)), z3.And(gn.contains(u), gn.contains(v))),
                            patterns=[ge.contains(PyV.tup2(u, v))]))
        return g

    def empty_base(self, g):
        st = self.st
        st.setf(g, 'g_kind', 'base')
        st.setf(g, 'g_nodes', SymSet.empty())
        st.setf(g, 'g_edges', SymSet.empty())
        for f in NODE_FIELDS:
            st.setf(g, f'na:{f}', Arr(z3.K(PyV, NONE)))
        for f in EDGE_FIELDS:
            st.setf(g, f'ea:{f}', Arr(z3.K(PyV, NONE)))

    # ---- structure ----------------------------------------------------------------
    def kind(self, g, snap=None):
        return (snap or self.st).getf(g, 'g_kind')

    def root(self, g, snap=None):
        s = snap or self.st
        while s.getf(g, 'g_kind') != 'base':
            g = s.getf(g, 'g_base')
        return g

    def edge_trigger(self, g, u, v):
        """the membership term of (u, v) in the edge set of g's root graph: part of every edge_in(g, u, v), used as the
        trigger of axioms about edges (so they are instantiated for edges that are mentioned, not for all pairs)"""
        return self.st.getf(self.root(g), 'g_edges').contains(PyV.tup2(u, v))

    def _call_filter(self, flt, args, assuming):
        it = self.it
        return as_z3(as_bool_term(it.eval_merged(lambda: it.call_value(flt, CallArgs(args)), 'bool', assuming=assuming)))

    def node_in(self, g, x):
        st = self.st
        k = st.getf(g, 'g_kind')
        if k in ('base', 'sub'):
            return st.getf(g, 'g_nodes').contains(x)
        base = st.getf(g, 'g_base')
        inner = self.node_in(base, x)
        fn = st.getf(g, 'g_fnode')
        if fn is None:
            return inner
        return z3.And(inner, self._call_filter(fn, [lower(x, st)], inner))

    def edge_in(self, g, u, v):
        st = self.st
        k = st.getf(g, 'g_kind')
        if k == 'base':
            return st.getf(g, 'g_edges').contains(PyV.tup2(u, v))
        base = st.getf(g, 'g_base')
        if k == 'view':
            inner = z3.And(self.edge_in(base, u, v), self.node_in(g, u), self.node_in(g, v))
        else:
            ns = st.getf(g, 'g_nodes')
            inner = z3.And(self.edge_in(self.root(g), u, v), ns.contains(u), ns.contains(v))
        fe = st.getf(g, 'g_fedge')
        if fe is None:
            return inner
        return z3.And(inner, self._call_filter(fe, [lower(u, st), lower(v, st)], inner))

    def node_set(self, g):
        x = z3.Const('nsx', PyV)
        return SymSet.comprehension(self.st, x, self.node_in(g, x), 'nodeset')

    def card(self, g):
        st = self.st
        n = st.fresh_int('card')
        x, y = z3.Consts('cx1 cy1', PyV)
        st.assume(n >= 0)
        st.assume(FA([x], z3.Implies(self.node_in(g, x), n >= 1)))
        st.assume(z3.Implies(n >= 1, self.node_in(g, st.fresh_val('some_node'))))
        st.assume(FA([x, y], z3.Implies(z3.And(n == 1, self.node_in(g, x), self.node_in(g, y)), x == y)))
        used(self.it, NX_AX + 'len(G) is the number of visible nodes')
        return n

    # ---- attributes ---------------------------------------------------------------
    def nattr(self, g, n, name):
        r = self.root(g)
        return self.st.getf(r, f'na:{name}').at(n)

    def eattr(self, g, u, v, name):
        r = self.root(g)
        return self.st.getf(r, f'ea:{name}').at(PyV.tup2(u, v))

    def set_nattr(self, g, n, name, value):
        r = self.root(g)
        f = f'na:{name}'
        self.st.emit('write', obj=r, field=f, key=lower(n, self.st))
        self.st.setf(r, f, self.st.getf(r, f).store(n, lift(value, self.st)))

    # ---- algorithms ---------------------------------------------------------------
    def predecessors(self, g, n):
        p = z3.Const('px', PyV)
        s = SymSet.comprehension(self.st, p, self.edge_in(g, p, n), 'predset')
        used(self.it, NX_AX + 'G.predecessors(n) enumerates exactly {p | (p, n) is an edge of G}, no repetition')
        seq = self.it.models.enumerate_set(self.it, s, 'preds')
        seq.source_set = s
        return seq

    def successors_set(self, g, n):
        c = z3.Const('sx', PyV)
        used(self.it, NX_AX + 'descendants_at_distance(G, n, 1) is the set {c | (n, c) is an edge of G}')
        return SymSet.comprehension(self.st, c, self.edge_in(g, n, c), 'succset')

    def topological_sort(self, g, by_generation=True):
        st = self.st
        s = self.node_set(g)
        seq = self.it.models.enumerate_set(self.it, s, 'topo')
        seq.source_set = s
        i, j = z3.Ints('ti tj')
        used(self.it, NX_AX + 'topological_sort(G) yields every node of G once, predecessors before successors '
                              '(G acyclic)')
        st.assume(FA([i, j], z3.Implies(z3.And(i >= 0, j >= 0, i < seq.len, j < seq.len,
                                                      self.edge_in(g, seq.at(i), seq.at(j))), i < j),
                            patterns=[self.edge_trigger(g, seq.at(i), seq.at(j))]))
        # generation order (topological_sort is implemented by topological_generations): non-decreasing depth;
        # lexicographical_topological_sort is *some* topological order (smallest available id first): no such guarantee
        depth = self.depth_fn(g)
        if by_generation:
            st.assume(FA([i, j], z3.Implies(z3.And(i >= 0, i < j, j < seq.len), depth(seq.at(i)) <= depth(seq.at(j))),
                                patterns=[z3.MultiPattern(seq.at(i), seq.at(j))]))
        else:
            used(self.it, NX_AX + 'lexicographical_topological_sort(G) yields every node once, predecessors before successors')
        st.ghost.setdefault('topo', {})[id(seq)] = (g, depth)
        seq.graph = g
        seq.depth = depth
        return seq

    def depth_fn(self, g):
        """longest-path depth in g: 0 for sources, 1 + max over predecessors otherwise.
        One global symbol DEPTH(graph-id, node); its axioms are asserted once per graph and path."""
        st = self.st
        cache = st.ghost.setdefault('depth_fn', {})
        gid = z3.IntVal(g.id)
        depth = lambda x: DEPTH(gid, x)
        if g.id in cache:
            return depth
        wit = lambda x: DEPTH_WIT(gid, x)
        u, v = z3.Consts('du dv', PyV)
        st.assume(FA([u], depth(u) >= 0, patterns=[depth(u)]))
        st.assume(FA([u, v], z3.Implies(self.edge_in(g, u, v), depth(v) >= depth(u) + 1),
                            patterns=[self.edge_trigger(g, u, v)]))
        st.assume(FA([v], z3.Implies(z3.And(self.node_in(g, v), depth(v) > 0),
                                            z3.And(self.edge_in(g, wit(v), v), depth(wit(v)) == depth(v) - 1)),
                            patterns=[wit(v)]))   # inert unless a lemma mentions the witness (no matching loop)
        used(self.it, NX_AX + 'topological_sort yields nodes in non-decreasing longest-path depth '
                              '(topological_generations order)')
        cache[g.id] = True
        return depth

    def simple_path_nodes(self, g, s, d):
        """{x | x lies on a simple path s -> d in g}"""
        st = self.st
        rs = st.fresh_func('reach_from_s', PyV, BoolS)
        rd = st.fresh_func('reach_to_d', PyV, BoolS)
        ws = st.fresh_func('wit_pred', PyV, PyV)
        wd = st.fresh_func('wit_succ', PyV, PyV)
        u, v, x = z3.Consts('ru rv rx', PyV)
        used(self.it, NX_AX + 'the union of all_simple_paths(G, s, d) of an acyclic G is {x | s ->* x ->* d}; '
                              'reachability is axiomatised by closure and predecessor/successor witnesses')
        st.assume(rs(s))
        st.assume(rd(d))
        st.assume(FA([u, v], z3.Implies(z3.And(rs(u), self.edge_in(g, u, v)), rs(v)),
                            patterns=[z3.MultiPattern(rs(u), rs(v))]))
        st.assume(FA([u, v], z3.Implies(z3.And(rd(v), self.edge_in(g, u, v)), rd(u)),
                            patterns=[z3.MultiPattern(rd(u), rd(v))]))
        st.assume(FA([x], z3.Implies(z3.And(rs(x), x != s), z3.And(rs(ws(x)), self.edge_in(g, ws(x), x))),
                            patterns=[ws(x)]))    # witness axioms are inert unless the witness is mentioned
        st.assume(FA([x], z3.Implies(z3.And(rd(x), x != d), z3.And(rd(wd(x)), self.edge_in(g, x, wd(x)))),
                            patterns=[wd(x)]))
        res = SymSet.comprehension(st, x, z3.And(self.node_in(g, x), rs(x), rd(x)), 'pathnodes')
        st.ghost.setdefault('paths', []).append(dict(g=g, s=s, d=d, rs=rs, rd=rd, ws=ws, wd=wd, set=res))
        return res

    def subgraph(self, g, nodes_set):
        """G.subgraph(S): fresh instance of G's class; node set S ∩ visible nodes fixed now; edge filter of a view
        is kept (and stays live)"""
        st = self.st
        it = self.it
        x = z3.Const('sgx', PyV)
        fixed = SymSet.comprehension(st, x, z3.And(nodes_set.contains(x), self.node_in(g, x)), 'subnodes')
        new = it.instantiate(ClsRef(GRAPH_CLS, it.repo.klass('ml_pipeline_engine/dag/graph.py', 'DiGraph')), CallArgs())
        st.setf(new, 'g_kind', 'sub')
        st.setf(new, 'g_base', self.root(g))
        st.setf(new, 'g_nodes', fixed)
        fe = None
        gg = g
        filters = []
        while st.getf(gg, 'g_kind') != 'base':
            f = st.getf(gg, 'g_fedge')
            if f is not None:
                filters.append(f)
            gg = st.getf(gg, 'g_base')
        if len(filters) > 1:
            raise Unsupported('stacked edge filters')
        st.setf(new, 'g_fedge', filters[0] if filters else None)
        used(it, NX_AX + 'G.subgraph(S) is a view with node set S ∩ nodes(G) fixed at creation, live edges, '
                         'a fresh instance of type(G)')
        return new

    def subgraph_view(self, g, fnode, fedge):
        st = self.st
        it = self.it
        new = it.instantiate(ClsRef(GRAPH_CLS, it.repo.klass('ml_pipeline_engine/dag/graph.py', 'DiGraph')), CallArgs())
        st.setf(new, 'g_kind', 'view')
        st.setf(new, 'g_base', g)
        st.setf(new, 'g_fnode', fnode)
        st.setf(new, 'g_fedge', fedge)
        used(it, NX_AX + 'subgraph_view(G, filter_node, filter_edge) is a live view; a fresh instance of type(G)')
        return new


class NodeView:
    def __init__(self, g):
        self.g = g

    def sym_getitem(self, it, key):
        return NodeAttrs(self.g, lift(key, it.st))

    def sym_iter(self, it):
        ops = GraphOps(it)
        s = ops.node_set(self.g)
        seq = it.models.enumerate_set(it, s, 'nodes')
        seq.source_set = s
        return seq

    def sym_getattr(self, it, name):
        if name == 'keys':
            return LibFn('NodeView.keys', lambda it_, ca: self)
        raise Unsupported(f'NodeView.{name}')

    def sym_contains(self, it, item):
        return wrap_bool(GraphOps(it).node_in(self.g, lift(item, it.st)))

    def sym_len(self, it):
        return SymI(GraphOps(it).card(self.g))


class NodeAttrs:
    def __init__(self, g, n):
        self.g, self.n = g, n

    def _check(self, it):
        ops = GraphOps(it)
        if not it.st.branch(ops.node_in(self.g, self.n), 'node-in-graph'):
            it.raise_builtin('KeyError', 'node not in graph')
        return ops

    def sym_getattr(self, it, name):
        if name == 'get':
            def get(it_, ca):
                ops = self._check(it_)
                v = ops.nattr(self.g, self.n, attr_key(ca.args[0]))
                if len(ca.args) > 1 and ca.args[1] is not None:
                    raise Unsupported('node attr get with default')
                return lower(v, it_.st)
            return LibFn('NodeAttrs.get', get)
        raise Unsupported(f'node attribute dict .{name}')

    def sym_getitem(self, it, key):
        ops = self._check(it)
        used(it, NX_AX + 'G.nodes[n][field]: attribute assumed present where the code subscripts it')
        return lower(ops.nattr(self.g, self.n, attr_key(key)), it.st)

    def sym_setitem(self, it, key, v):
        ops = self._check(it)
        ops.set_nattr(self.g, self.n, attr_key(key), v)


class EdgeView:
    def __init__(self, g):
        self.g = g

    def sym_getitem(self, it, key):
        if isinstance(key, tuple) and len(key) == 2:
            u, v = lift(key[0], it.st), lift(key[1], it.st)
        elif isinstance(key, SymV):
            u, v = PyV.t0(key.t), PyV.t1(key.t)
        else:
            raise Unsupported(f'edge key {key!r}')
        ops = GraphOps(it)
        if not it.st.branch(ops.edge_in(self.g, u, v), 'edge-in-graph'):
            it.raise_builtin('KeyError', 'edge not in graph')
        return EdgeAttrs(self.g, u, v)

    def sym_iter(self, it):
        ops = GraphOps(it)
        e = z3.Const('evx', PyV)
        s = SymSet.comprehension(it.st, e, z3.And(PyV.is_tup2(e), ops.edge_in(self.g, PyV.t0(e), PyV.t1(e))), 'edgeset')
        seq = it.models.enumerate_set(it, s, 'edges')
        seq.source_set = s
        return seq

    def sym_getattr(self, it, name):
        if name == 'keys':
            return LibFn('EdgeView.keys', lambda it_, ca: self)
        raise Unsupported(f'EdgeView.{name}')

    def sym_len(self, it):
        return SymI(it.st.fresh_int('n_edges'))


class EdgeAttrs:
    def __init__(self, g, u, v):
        self.g, self.u, self.v = g, u, v

    def sym_getattr(self, it, name):
        if name == 'get':
            def get(it_, ca):
                return lower(GraphOps(it_).eattr(self.g, self.u, self.v, attr_key(ca.args[0])), it_.st)
            return LibFn('EdgeAttrs.get', get)
        raise Unsupported(f'edge attribute dict .{name}')


class AllSimplePaths:
    def __init__(self, g, s, d):
        self.g, self.s, self.d = g, s, d


class GraphPlugin:
    """hooks into ModelRegistry"""

    def lib_value(self, it, dotted):
        fns = {
            'networkx.topological_sort': self.nx_topological_sort,
            'networkx.lexicographical_topological_sort': self.nx_lexicographical_topological_sort,
            'networkx.descendants_at_distance': self.nx_descendants_at_distance,
            'networkx.all_simple_paths': self.nx_all_simple_paths,
            'networkx.subgraph_view': self.nx_subgraph_view,
        }
        if dotted in fns:
            return (LibFn(dotted, fns[dotted]),)
        if dotted in ('networkx.DiGraph', 'networkx.Graph'):
            return (ClsRef(dotted),)
        if dotted == 'networkx':
            return (LibRef('networkx'),)
        return None

    @staticmethod
    def is_graph(v):
        return isinstance(v, Ref) and v.cls == GRAPH_CLS

    def obj_attr(self, it, obj, name):
        if name == '__dict__' and self.is_graph(obj):
            return (InstanceDict(obj),)
        return None

    def nx_topological_sort(self, it, ca):
        return GraphOps(it).topological_sort(ca.args[0])

    def nx_lexicographical_topological_sort(self, it, ca):
        if ca.kwargs.get('key') is not None or len(ca.args) > 1:
            raise Unsupported('lexicographical_topological_sort with a key')
        return GraphOps(it).topological_sort(ca.args[0], by_generation=False)

    def nx_descendants_at_distance(self, it, ca):
        g, n, dist = ca.args
        if dist != 1:
            raise Unsupported('descendants_at_distance with distance != 1')
        return it.new_set(GraphOps(it).successors_set(g, lift(n, it.st)))

    def nx_all_simple_paths(self, it, ca):
        return AllSimplePaths(ca.args[0], lift(ca.args[1], it.st), lift(ca.args[2], it.st))

    def nx_subgraph_view(self, it, ca):
        return GraphOps(it).subgraph_view(ca.args[0], ca.kwargs.get('filter_node'), ca.kwargs.get('filter_edge'))

    def nested_set_comprehension(self, it, e, env):
        # {node_id for path in nx.all_simple_paths(dag, s, d) for node_id in path}
        g0, g1 = e.generators
        src = it.eval(g0.iter, env)
        if isinstance(src, AllSimplePaths) and isinstance(g1.iter, ast.Name) and isinstance(g0.target, ast.Name) \
                and g1.iter.id == g0.target.id and isinstance(e.elt, ast.Name) and isinstance(g1.target, ast.Name) \
                and e.elt.id == g1.target.id and not g0.ifs and not g1.ifs:
            ops = GraphOps(it)
            if not it.st.branch(ops.node_in(src.g, src.s), 'source-in-graph'):
                it.st.emit('nx_error', what='NodeNotFound')
                it.raise_builtin('KeyError', 'NodeNotFound: source not in graph')
            return (it.new_set(ops.simple_path_nodes(src.g, src.s, src.d)),)
        return None

    def libclass_attr(self, it, libbase, name, instance, clsref):
        if libbase not in ('networkx.DiGraph', 'nx.DiGraph'):
            return None
        g = instance
        if g is None:
            return None
        ops = GraphOps(it)
        st = it.st
        if name == '__init__':
            def init(it_, ca):
                ops.empty_base(g)
                if 'name' in ca.kwargs:
                    st.setf(g, 'name', ca.kwargs['name'])
            return (LibFn('DiGraph.__init__', init),)
        if name == 'nodes':
            return (NodeView(g),)
        if name == 'edges':
            return (EdgeView(g),)
        if name == 'predecessors':
            return (LibFn('G.predecessors', lambda it_, ca: GraphOps(it_).predecessors(g, lift(ca.args[0], it_.st))),)
        if name == 'subgraph':
            def subgraph(it_, ca):
                s = ca.args[0]
                if not (isinstance(s, Ref) and s.cls == 'set'):
                    s = it_.models.set_from_iterable(it_, s)
                return GraphOps(it_).subgraph(g, it_.models.symset_of(it_, it_.st.getf(s, 'elems')))
            return (LibFn('G.subgraph', subgraph),)
        if name == 'add_node':
            return (LibFn('G.add_node', lambda it_, ca: self.add_node(it_, g, ca)),)
        if name == 'add_edge':
            return (LibFn('G.add_edge', lambda it_, ca: self.add_edge(it_, g, ca)),)
        if name == 'copy':
            return (LibFn('G.copy', lambda it_, ca: self.copy(it_, g, ca)),)
        if name == '__contains__':
            def contains(it_, ca):
                used(it_, NX_AX + '`n in G` is membership among the visible nodes')
                return wrap_bool(GraphOps(it_).node_in(g, lift(ca.args[0], it_.st)))
            return (LibFn('G.__contains__', contains),)
        if name == '__len__':
            return (LibFn('G.__len__', lambda it_, ca: SymI(GraphOps(it_).card(g))),)
        if name == 'name':
            return ('',)
        return None

    def length(self, it, v):
        if self.is_graph(v):
            return (SymI(GraphOps(it).card(v)),)
        return None

    def iterate(self, it, v):
        if self.is_graph(v):
            return NodeView(v).sym_iter(it)
        return None

    def to_str(self, it, v):
        if self.is_graph(v):
            return (SymS(z3.Function('graph_str', IntS, StrS)(z3.IntVal(v.id))),)
        return None

    # ---- mutation (builder) -------------------------------------------------------
    def add_node(self, it, g, ca):
        st = it.st
        if st.getf(g, 'g_kind') != 'base':
            raise Unsupported('add_node on a view')
        n = lift(ca.args[0], st)
        used(it, NX_AX + 'add_node(n, **attrs) inserts n and merges attrs into its attribute dict')
        st.emit('write', obj=g, field='g_nodes', key=ca.args[0])
        st.setf(g, 'g_nodes', st.getf(g, 'g_nodes').add(n))
        attrs = dict(ca.kwargs)
        for sm in ca.starmaps:
            raise Unsupported('add_node with symbolic ** attributes')
        for k, v in attrs.items():
            f = f'na:{attr_key(k)}'
            st.setf(g, f, st.getf(g, f).store(n, lift(v, st)))
        st.emit('add_node', g=g, n=ca.args[0], attrs=attrs)

    def add_edge(self, it, g, ca):
        st = it.st
        if st.getf(g, 'g_kind') != 'base':
            raise Unsupported('add_edge on a view')
        u, v = lift(ca.args[0], st), lift(ca.args[1], st)
        used(it, NX_AX + 'add_edge(u, v, **attrs) inserts u, v and the single edge (u, v) and merges attrs '
                         '(a DiGraph has at most one edge per ordered pair)')
        st.emit('write', obj=g, field='g_edges', key=(ca.args[0], ca.args[1]))
        st.setf(g, 'g_nodes', st.getf(g, 'g_nodes').add(u).add(v))
        st.setf(g, 'g_edges', st.getf(g, 'g_edges').add(PyV.tup2(u, v)))
        for k, val in ca.kwargs.items():
            f = f'ea:{attr_key(k)}'
            st.setf(g, f, st.getf(g, f).store(PyV.tup2(u, v), lift(val, st)))
        st.emit('add_edge', g=g, u=ca.args[0], v=ca.args[1], attrs=dict(ca.kwargs))

    def copy(self, it, g, ca=None):
        st = it.st
        if st.getf(g, 'g_kind') != 'base':
            raise Unsupported('copy of a view')
        as_view = False
        if ca is not None:
            as_view = ca.kwargs.get('as_view', ca.args[0] if ca.args else False)
        if as_view is not False:
            if as_view is not True:
                raise Unsupported('G.copy(as_view=<symbolic>)')
            # a networkx view is read-only as to structure, but its node / edge attribute dicts ARE the original's
            used(it, NX_AX + 'G.copy(as_view=True) is a view: same nodes, edges and attribute dictionaries as G (writes to node / edge '
                             'attributes through it land in G)')
            new = it.instantiate(ClsRef(GRAPH_CLS, it.repo.klass('ml_pipeline_engine/dag/graph.py', 'DiGraph')), CallArgs())
            for f, val in list(st.heap[g.id].items()):
                if f.startswith(('g_', 'na:', 'ea:')):
                    st.setf(new, f, val)
                    if f.startswith(('g_nodes', 'g_edges', 'na:', 'ea:')):
                        st.share_field(new, g, f)
            st.setf(new, 'name', st.getf(g, 'name') if st.hasf(g, 'name') else '')
            st.emit('graph_view', src=g, new=new)
            return new
        used(it, NX_AX + 'G.copy() is a fresh graph of type(G) with equal nodes/edges and fresh copies of the '
                         'attribute dicts')
        new = it.instantiate(ClsRef(GRAPH_CLS, it.repo.klass('ml_pipeline_engine/dag/graph.py', 'DiGraph')), CallArgs())
        for f, val in list(st.heap[g.id].items()):
            if f.startswith(('g_', 'na:', 'ea:')):
                st.setf(new, f, val)
        st.setf(new, 'name', st.getf(g, 'name') if st.hasf(g, 'name') else '')
        st.emit('graph_copy', src=g, new=new)
        return new


class InstanceDict:
    """`g.__dict__` of a graph object.  Only `a.__dict__.update(b.__dict__)` is modelled: plain attributes are rebound to
    b's values; networkx's storage dicts (`_node`, `_adj`, `_pred`, `_succ`: the model's node / edge / attribute tables)
    are the *same dict objects* afterwards, i.e. a and b share their nodes, edges and attribute tables from then on."""

    def __init__(self, obj):
        self.obj = obj

    def sym_getattr(self, it, name):
        if name != 'update':
            raise Unsupported(f'__dict__.{name}')

        def update(it_, ca):
            other = ca.args[0] if ca.args else None
            if not isinstance(other, InstanceDict):
                raise Unsupported('__dict__.update(<not an instance dict>)')
            st = it_.st
            a, b = self.obj, other.obj
            if st.getf(a, 'g_kind') != 'base' or st.getf(b, 'g_kind') != 'base':
                raise Unsupported('__dict__.update on a graph view')
            used(it_, NX_AX + 'a.__dict__.update(b.__dict__) makes a share b\'s storage dicts (nodes, adjacency, attributes)')
            st.emit('write', obj=a, field='__dict__')
            for f, val in list(st.heap[b.id].items()):
                if f.startswith(('g_nodes', 'g_edges', 'na:', 'ea:')):
                    st.setf(a, f, val)
                    st.share_field(a, b, f)
                elif f not in ('g_kind', 'g_base', '__class__'):
                    st.setf(a, f, val)
            st.emit('graph_storage_shared', a=a, b=b)
            return None
        return LibFn('__dict__.update', update)


# ======================================================================================
# asyncio model
# ======================================================================================
ASY = 'asyncio (CPython 3.12): '
TState, (T_PENDING, T_OK, T_EXC, T_CANCELLED) = z3.EnumSort('TState', ['t_pending', 't_ok', 't_exc', 't_cancelled'])


def new_world(it):
    st = it.st
    w = st.alloc('world', task_st=Arr(st.fresh_array('task_st', IntS, TState)),
                 task_exc=Arr(st.fresh_array('task_exc', IntS, PyV)),
                 task_cancel=Arr(st.fresh_array('task_cancel', IntS, BoolS)),
                 event_set=SymSet.fresh(st, 'event_set'),
                 next_task=SymI(st.fresh_int('next_task')))
    st.ghost['world'] = w
    tid = z3.Int('wt')
    ts, te = st.getf(w, 'task_st').a, st.getf(w, 'task_exc').a
    st.assume(FA([tid], z3.Implies(ts[tid] == T_EXC, PyV.is_exc(te[tid])), patterns=[te[tid]]))
    return w


def world(it):
    w = it.st.ghost.get('world')
    if w is None:
        w = new_world(it)
    return w


class TaskOps:
    def __init__(self, it, snap=None):
        self.it = it
        self.s = snap or it.st
        self.w = it.st.ghost['world'] if 'world' in it.st.ghost else world(it)

    def st_of(self, tid):
        return self.s.getf(self.w, 'task_st').at(tid)

    def exc_of(self, tid):
        return self.s.getf(self.w, 'task_exc').at(tid)

    def cancel_req(self, tid):
        return self.s.getf(self.w, 'task_cancel').at(tid)


class AsyncioPlugin:
    def lib_value(self, it, dotted):
        if dotted == 'asyncio.create_task':
            return (LibFn(dotted, self.create_task),)
        if dotted == 'asyncio.sleep':
            return (LibFn(dotted, self.sleep),)
        if dotted == 'asyncio.get_running_loop':
            return (LibFn(dotted, lambda it_, ca: LoopModel()),)
        if dotted in ('asyncio.Condition', 'asyncio.Event', 'asyncio.Task'):
            return (ClsRef(dotted),)
        if dotted == 'asyncio':
            return (LibRef('asyncio'),)
        return None

    def create_task(self, it, ca):
        st = it.st
        coro = ca.args[0] if ca.args else ca.kwargs.get('coro')
        name = ca.kwargs.get('name')
        w = world(it)
        nt = st.getf(w, 'next_task')
        tid = nt.t
        used(it, ASY + 'create_task schedules the coroutine as a new pending Task; it starts running only after the '
                       'creator yields')
        st.setf(w, 'next_task', SymI(tid + 1))
        st.setf(w, 'task_st', st.getf(w, 'task_st').store(tid, T_PENDING))
        st.setf(w, 'task_cancel', st.getf(w, 'task_cancel').store(tid, z3.BoolVal(False)))
        if isinstance(coro, Coroutine):
            coro.consumed = True
            st.emit('spawn', coro=coro, fn=coro.label, args=coro.args, kwargs=coro.kwargs, self_val=coro.self_val,
                    tid=tid, name=name, snap=st.snapshot())
        else:
            st.emit('spawn', coro=coro, fn=repr(coro), args=(), kwargs={}, self_val=None, tid=tid, name=name,
                    snap=st.snapshot())
        return SymV(PyV.task(tid))

    def sleep(self, it, ca):
        delay = ca.args[0] if ca.args else 0

        def run():
            used(it, ASY + 'sleep(d) suspends the coroutine (a yield), then returns None')
            it.st.emit('sleep', delay=delay)
            it.do_yield('sleep')
            return None
        return Awaitable('sleep', run)

    def symv_attr(self, it, obj, name):
        """methods of Task values"""
        if name not in ('done', 'cancelled', 'exception', 'cancel', 'get_name', 'add_done_callback'):
            return None
        st = it.st
        t = obj.t
        if not st.branch(PyV.is_task(t), 'is-task'):
            return None
        tid = PyV.tid(t)

        def done(it_, ca):
            return wrap_bool(TaskOps(it_).st_of(tid) != T_PENDING)

        def cancelled(it_, ca):
            return wrap_bool(TaskOps(it_).st_of(tid) == T_CANCELLED)

        def exception(it_, ca):
            ops = TaskOps(it_)
            s = ops.st_of(tid)
            used(it_, ASY + 'Task.exception() raises CancelledError on a cancelled task, InvalidStateError on a pending '
                            'one, returns the exception or None otherwise')
            it_.st.emit('task_exception_call', tid=tid, snap=it_.st.snapshot())
            which = it_.st.choose([s == T_EXC, s == T_OK, s == T_CANCELLED, s == T_PENDING], 'task-exception')
            if which == 0:
                return lower(ops.exc_of(tid), it_.st)
            if which == 1:
                return None
            if which == 2:
                it_.raise_builtin('CancelledError', 'Task.exception() on a cancelled task')
            it_.raise_builtin('RuntimeError', 'InvalidStateError: Task.exception() on a pending task')

        def cancel(it_, ca):
            w = world(it_)
            ops = TaskOps(it_)
            pending = ops.st_of(tid) == T_PENDING
            used(it_, ASY + 'Task.cancel() on a pending task requests cancellation (delivered at its current await)')
            it_.st.emit('cancel', tid=tid, snap=it_.st.snapshot())
            cur = it_.st.getf(w, 'task_cancel')
            it_.st.setf(w, 'task_cancel', Arr(z3.If(pending, z3.Store(cur.a, tid, True), cur.a)))
            return wrap_bool(pending)

        def get_name(it_, ca):
            return SymS(z3.Function('task_name', IntS, StrS)(tid))

        def add_done_callback(it_, ca):
            fn = ca.args[0]
            used(it_, ASY + 'Task.add_done_callback(f): f(task) is run by the loop some time after the task finishes; '
                            'recorded as a ghost effect, never executed by the verifier')
            it_.st.emit('done_callback', tid=tid, fn=fn, bound=getattr(fn, 'bound', None), fn_name=getattr(fn, 'name', repr(fn)))
            return None
        return (LibFn(f'Task.{name}', dict(done=done, cancelled=cancelled, exception=exception, cancel=cancel,
                                          get_name=get_name, add_done_callback=add_done_callback)[name]),)

    def obj_attr(self, it, obj, name):
        if obj.cls == 'defaultdict' and name == '__getitem__':
            return None
        return None

    def get_item(self, it, obj, key):
        if isinstance(obj, Ref) and obj.cls == 'defaultdict':
            factory = it.st.getf(obj, 'factory')
            if isinstance(factory, ClsRef) and factory.name == 'asyncio.Condition':
                return (CondModel(lift(key, it.st)),)
            if isinstance(factory, ClsRef) and factory.name == 'asyncio.Event':
                return (EventModel(lift(key, it.st)),)
            raise Unsupported(f'defaultdict with factory {factory!r}')
        return None


class LoopModel:
    def sym_getattr(self, it, name):
        if name == 'run_in_executor':
            def rie(it_, ca):
                executor, fn = ca.args

                def run():
                    used(it_, ASY + 'loop.run_in_executor(ex, f) yields, then evaluates to f()\'s value or raises its '
                                    'exception (executor itself trusted)')
                    it_.st.emit('run_in_executor', executor=executor, fn=fn)
                    it_.do_yield('run_in_executor')
                    return it_.call_value(fn, CallArgs())
                return Awaitable('run_in_executor', run)
            return LibFn('loop.run_in_executor', rie)
        raise Unsupported(f'loop.{name}')


class CondModel(CM):
    """asyncio.Condition identified by its key in the lock store"""

    def __init__(self, name):
        self.name = name

    def cm_enter(self, it, is_async):
        used(it, ASY + 'Lock.acquire of an un-held lock with no waiters does not yield (fast path); in this engine no '
                       'lock is held across a yield other than inside Condition.wait (obligation C02.L)')
        it.st.emit('lock_acquire', cond=self.name)
        held = it.st.ghost.setdefault('held', [])
        held.append(self.name)
        return None

    def cm_exit(self, it, is_async, pr):
        it.st.emit('lock_release', cond=self.name)
        it.st.ghost['held'].pop()
        return False

    def sym_getattr(self, it, name):
        if name == 'wait_for':
            def wait_for(it_, ca):
                pred = ca.args[0]

                def run():
                    used(it_, ASY + 'Condition.wait_for(p) returns only in a state where p() is true, evaluated without '
                                    'an intervening yield; it releases the lock while waiting')
                    st = it_.st
                    # p() is evaluated first; if true, no yield at all
                    first = it_.eval_merged(lambda: it_.call_value(pred, CallArgs()), 'bool')
                    st.emit('wait', cond=self.name, pred=pred, snap=st.snapshot(), first=first)
                    if st.branch(as_bool_term(first), 'wait-pred-initially'):
                        return True
                    held = st.ghost.get('held', [])
                    saved = list(held)
                    held.clear()            # wait() releases the lock ...
                    try:
                        it_.do_yield('cond.wait')
                    finally:
                        held.extend(saved)  # ... and re-acquires it before returning or raising (also when cancelled)
                    after = it_.eval_merged(lambda: it_.call_value(pred, CallArgs()), 'bool')
                    st.assume(as_z3(as_bool_term(after)))
                    st.emit('woken', cond=self.name, snap=st.snapshot())
                    return True
                return Awaitable('cond.wait_for', run)
            return LibFn('Condition.wait_for', wait_for)
        if name == 'notify_all':
            def notify_all(it_, ca):
                used(it_, ASY + 'Condition.notify_all wakes every waiter of that condition (requires the lock)')
                if self.name is not None and not any(z3.eq(self.name, h) for h in it_.st.ghost.get('held', [])):
                    it_.raise_builtin('RuntimeError', 'cannot notify on un-acquired lock')
                it_.st.emit('notify', cond=self.name, snap=it_.st.snapshot())
            return LibFn('Condition.notify_all', notify_all)
        raise Unsupported(f'Condition.{name}')


class EventModel:
    def __init__(self, name):
        self.name = name

    def sym_getattr(self, it, name):
        if name == 'wait':
            def wait(it_, ca):
                def run():
                    st = it_.st
                    w = world(it_)
                    used(it_, ASY + 'Event.wait returns once the event is set (at once, without yielding, if already set)')
                    st.emit('event_wait', event=self.name, snap=st.snapshot())
                    if st.branch(st.getf(w, 'event_set').contains(self.name), 'event-already-set'):
                        return True
                    it_.do_yield('event.wait')
                    st.assume(st.getf(w, 'event_set').contains(self.name))
                    return True
                return Awaitable('event.wait', run)
            return LibFn('Event.wait', wait)
        if name == 'set':
            def set_(it_, ca):
                w = world(it_)
                it_.st.emit('event_set', event=self.name, snap=it_.st.snapshot())
                it_.st.setf(w, 'event_set', it_.st.getf(w, 'event_set').add(self.name))
            return LibFn('Event.set', set_)
        raise Unsupported(f'Event.{name}')


def install(reg):
    reg.plug(GraphPlugin())
    reg.plug(AsyncioPlugin())
    from . import libmodels2, libmodels3, libmodels4
    libmodels2.install(reg)
    libmodels3.install(reg)
    libmodels4.install(reg)
