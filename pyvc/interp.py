"""
Direct-style symbolic interpreter for the Python subset of DESIGN §2.3, run over the ast of the
real source of /repo.  Forking is done by the decision script of ``State`` (see state.py).
"""
import ast

import z3

from .repo import ClassInfo, FuncInfo
from .state import (State, SymMap, SymSeq, SymSet, PathEnd, Infeasible, Snapshot, View)
from .values import (PyV, NONE, TRUE, FALSE, LATTICE, subcls, Ref, ClsRef, EnumMember, Sym, SymV, SymB, SymI, SymS,
                     Unsupported, lift, lower, as_bool_term, eq_term, wrap_bool, z3_not, z3_and, z3_or, as_z3,
                     mk_str, is_symbolic, truthy_term, IntS, BoolS, StrS)


# --------------------------------------------------------------------------------------
# control-flow signals
# --------------------------------------------------------------------------------------
class ReturnEx(Exception):
    def __init__(self, value):
        self.value = value


class BreakEx(Exception):
    pass


class ContinueEx(Exception):
    pass


class PyRaise(Exception):
    """a Python exception in flight; ``val`` is SymV(exc(cls, id))"""

    def __init__(self, val, note=''):
        self.val = val
        self.note = note

    def __str__(self):
        return f'PyRaise({self.val}, {self.note})'


# --------------------------------------------------------------------------------------
# callable values
# --------------------------------------------------------------------------------------
class Function:
    def __init__(self, finfo):
        self.finfo = finfo

    def __repr__(self):
        return f'<function {self.finfo.qualname}>'


class BoundMethod:
    def __init__(self, finfo, self_val):
        self.finfo = finfo
        self.self_val = self_val

    def __repr__(self):
        return f'<bound {self.finfo.qualname} of {self.self_val}>'


class Closure:
    def __init__(self, node, env, name=None):
        self.node = node
        self.env = env
        self.name = name or getattr(node, 'name', '<lambda>')
        self.is_async = isinstance(node, ast.AsyncFunctionDef)

    def __repr__(self):
        return f'<closure {self.name}>'


class Partial:
    def __init__(self, fn, args, kwargs, starmaps=()):
        self.fn, self.args, self.kwargs, self.starmaps = fn, list(args), dict(kwargs), list(starmaps)

    def __repr__(self):
        return f'<partial {self.fn}>'


class Coroutine:
    """result of calling an ``async def``: runs when awaited (or spawned)"""

    def __init__(self, fn, self_val, args, kwargs, starmaps, label):
        self.fn, self.self_val, self.args, self.kwargs, self.starmaps, self.label = fn, self_val, args, kwargs, starmaps, label
        self.consumed = False

    def __repr__(self):
        return f'<coroutine {self.label}>'


class Awaitable:
    """awaitable produced by a library model"""

    def __init__(self, label, thunk):
        self.label, self.thunk = label, thunk

    def __repr__(self):
        return f'<awaitable {self.label}>'


class LibRef:
    """a library module / object referred to by dotted name"""

    def __init__(self, name):
        self.name = name

    def __repr__(self):
        return f'<lib {self.name}>'

    def __eq__(self, other):
        return isinstance(other, LibRef) and other.name == self.name

    def __hash__(self):
        return hash(('LibRef', self.name))


class LibFn:
    def __init__(self, name, impl, bound=None):
        self.name, self.impl, self.bound = name, impl, bound

    def __repr__(self):
        return f'<libfn {self.name}>'


class SuperProxy:
    def __init__(self, self_val, after_cls):
        self.self_val, self.after_cls = self_val, after_cls


class Env:
    def __init__(self, vars=None, parent=None, finfo=None, module=None, cls=None):
        self.vars = vars if vars is not None else {}
        self.parent = parent
        self.finfo = finfo
        self.module = module if module is not None else (parent.module if parent else None)
        self.cls = cls if cls is not None else (parent.cls if parent else None)
        self.exc_stack = parent.exc_stack if parent else []

    def lookup(self, name):
        e = self
        while e is not None:
            if name in e.vars:
                return True, e.vars[name]
            e = e.parent
        return False, None

    def mangle(self, name):
        if self.cls is not None and name.startswith('__') and not name.endswith('__'):
            return f'_{self.cls.name.lstrip("_")}{name}'
        return name


class CallArgs:
    def __init__(self, args=(), kwargs=None, starmaps=()):
        self.args = list(args)
        self.kwargs = dict(kwargs or {})
        self.starmaps = list(starmaps)   # dict Refs with (possibly) symbolic keys


LOGGER_NAMES = {'logger', 'lock_logger', 'logger_manager', 'logger_manager_lock', 'logger_node', 'logger_parallelism'}

EXC_ARG = z3.Function('exc_arg', IntS, PyV)
TMATCH = z3.Function('tmatch', PyV, IntS, BoolS)      # class-tuple value matches exception class


def attr_fn(name):
    return z3.Function(f'attr_{name}', PyV, PyV)


class Interp:
    MAX_DEPTH = 12

    def __init__(self, repo, contracts, state, models, verifying=None, options=None):
        self.repo = repo
        self.contracts = contracts      # key -> Contract
        self.st = state
        self.models = models            # ModelRegistry
        self.verifying = verifying      # FuncInfo key being verified (inlined at depth 0)
        self.opt = options or {}
        self.depth = 0
        self.loop_specs = {}            # provided by the contract being verified
        self.call_stack = []
        self.inline_only = set(self.opt.get('inline', ()))
        # frozen value dataclasses of /repo that live inside symbolic containers as PyV terms
        state.value_classes.setdefault(
            'ml_pipeline_engine/types.py::CaseResult',
            lambda st, ref: PyV.case(lift(st.getf(ref, 'label'), st), lift(st.getf(ref, 'node_id'), st)))
        state.value_classes.setdefault(
            'ml_pipeline_engine/types.py::Recurrent',
            lambda st, ref: PyV.rec(lift(st.getf(ref, 'data'), st)))

    # ==================================================================================
    # yields (atomic segment boundaries)
    # ==================================================================================
    yield_hook = None
    entry_snapshot = None
    entry_args = None

    def do_yield(self, label):
        st = self.st
        held = list(st.ghost.get('held', []))
        st.emit('yield', label=label, held=held, snap=st.snapshot())
        if self.yield_hook is not None:
            self.yield_hook(self, label)
        if self.opt.get('inject_cancel'):
            if st.choose([True, True], f'cancel@{label}') == 1:
                st.emit('cancelled', at=label)
                self.raise_builtin('CancelledError', f'cancelled at {label}')

    # ==================================================================================
    # exceptions
    # ==================================================================================
    def exc_class_code(self, clsref):
        name = clsref.name.split('.')[-1].split('::')[-1]
        if name not in LATTICE.codes:
            ci = clsref.info
            if isinstance(ci, ClassInfo):
                parent = None
                for b in self.repo.class_bases(ci):
                    if isinstance(b, ClassInfo):
                        self.exc_class_code(ClsRef(b.key, b))
                        parent = b.name
                        break
                    bn = b.split('.')[-1]
                    if bn in LATTICE.codes:
                        parent = bn
                        break
                if parent is None:
                    raise Unsupported(f'{clsref} is not an exception class')
                LATTICE.register(name, parent)
            else:
                raise Unsupported(f'unknown exception class {clsref}')
        return LATTICE.codes[name]

    def is_exc_class(self, v):
        if not isinstance(v, ClsRef):
            return False
        name = v.name.split('.')[-1].split('::')[-1]
        if name in LATTICE.codes:
            return True
        ci = v.info
        if isinstance(ci, ClassInfo):
            for c in self.repo.mro(ci):
                n = c.name if isinstance(c, ClassInfo) else c.split('.')[-1]
                if n in LATTICE.codes:
                    return True
        return False

    def new_exception(self, clsref, args=()):
        code = self.exc_class_code(clsref)
        eid = self.st.new_exc_id()
        val = SymV(PyV.exc(z3.IntVal(code), eid))
        if args:
            try:
                self.st.assume(EXC_ARG(eid) == lift(args[0], self.st))
            except Unsupported:
                pass
        self.st.emit('new_exc', cls=clsref.name.split('::')[-1].split('.')[-1], exc=val, args=list(args))
        return val

    def raise_builtin(self, name, note=''):
        raise PyRaise(self.new_exception(ClsRef(f'builtins.{name}')), note)

    def exc_matches(self, excval, spec):
        """z3 Bool / bool: does exception value match the except-clause spec value"""
        cls_term = PyV.ecls(excval.t)
        if isinstance(spec, ClsRef):
            code = self.exc_class_code(spec)
            return z3.simplify(subcls(cls_term, z3.IntVal(code)))
        if isinstance(spec, tuple):
            return z3_or(*[self.exc_matches(excval, s) for s in spec])
        if isinstance(spec, Ref) and spec.cls == 'tuple':
            return self.exc_matches(excval, self.st.getf(spec, 'items'))
        if isinstance(spec, SymV):
            return TMATCH(spec.t, cls_term)
        raise Unsupported(f'except clause spec {spec!r}')

    # ==================================================================================
    # name resolution
    # ==================================================================================
    def resolve_global(self, module, name):
        if name == '__name__':
            return module.name
        r = self.repo.resolve(module.name, name)
        if r is None or r[0] == 'missing':
            return self.builtin(name)
        return self.materialize(r)

    def materialize(self, r):
        kind = r[0]
        if kind == 'func':
            return Function(r[1])
        if kind == 'class':
            return ClsRef(r[1].key, r[1])
        if kind == 'lib':
            return self.models.lib_value(self, r[1])
        if kind == 'module':
            return LibRef('repo:' + r[1])
        if kind == 'assign':
            expr, mi = r[1], r[2]
            key = (mi.name, ast.dump(expr))
            return self.models.global_value(self, mi, expr)
        raise Unsupported(f'cannot materialize {r}')

    BUILTIN_EXC = set(LATTICE.BUILTIN_PARENTS)

    def builtin(self, name):
        if name in self.BUILTIN_EXC:
            return ClsRef(f'builtins.{name}')
        if name in ('object', 'str', 'int', 'bool', 'dict', 'list', 'set', 'tuple', 'type', 'float', 'bytes'):
            return ClsRef(f'builtins.{name}')
        fn = getattr(self, f'bi_{name}', None)
        if fn is not None:
            return LibFn(name, fn)
        raise Unsupported(f'unknown global/builtin name {name!r}')

    # ==================================================================================
    # containers (built-in models)
    # ==================================================================================
    def new_dict(self, content=None):
        return self.st.alloc('dict', map=content if content is not None else {})

    def new_list(self, items=()):
        return self.st.alloc('list', items=items if isinstance(items, SymSeq) else tuple(items))

    def new_set(self, elems=None):
        return self.st.alloc('set', elems=elems if elems is not None else frozenset())

    def new_tuple(self, items):
        return tuple(items)

    def dict_sym(self, ref):
        """content of a dict object as SymMap (promoting a concrete one)"""
        m = self.st.getf(ref, 'map')
        if isinstance(m, SymMap):
            return m
        sm = SymMap.empty()
        for k, v in m.items():
            sm = sm.store(lift(k, self.st), lift(v, self.st))
        return sm

    def dict_set(self, ref, key, value):
        m = self.st.getf(ref, 'map')
        if not isinstance(m, SymMap) and not is_symbolic(key) and not isinstance(key, Ref):
            m = dict(m)
            m[key] = value
            self.st.setf(ref, 'map', m)
            return
        sm = self.dict_sym(ref)
        self.st.setf(ref, 'map', sm.store(lift(key, self.st), lift(value, self.st)))

    def dict_get(self, ref, key, default=None, raise_missing=False):
        m = self.st.getf(ref, 'map')
        if not isinstance(m, SymMap):
            if not is_symbolic(key):
                if key in m:
                    return m[key]
                if raise_missing:
                    self.raise_builtin('KeyError', f'{key!r}')
                return default
            if not m:
                if raise_missing:
                    self.raise_builtin('KeyError', 'empty dict')
                return default
            m = self.dict_sym(ref)
        k = lift(key, self.st)
        if self.st.branch(m.has(k), 'dict-has-key'):
            return lower(m.at(k), self.st)
        if raise_missing:
            self.raise_builtin('KeyError', f'{key!r}')
        return default

    def dict_contains(self, ref, key):
        m = self.st.getf(ref, 'map')
        if not isinstance(m, SymMap):
            if not is_symbolic(key):
                return key in m
            if not m:
                return False
            m = self.dict_sym(ref)
        return wrap_bool(m.has(lift(key, self.st)))

    def seq_of(self, v):
        """python-side iterable value -> tuple (concrete) or SymSeq"""
        if isinstance(v, tuple):
            return v
        if isinstance(v, Ref) and v.cls in ('list', 'tuple', 'deque'):
            return self.st.getf(v, 'items')
        if isinstance(v, SymSeq):
            return v
        return None

    # ==================================================================================
    # attribute access
    # ==================================================================================
    def class_of_ref(self, ref):
        """ClassInfo for repo-class objects"""
        key = ref.cls
        if '::' in key:
            path, name = key.split('::')
            return self.repo.klass(path, name)
        return None

    def get_attr(self, obj, name, env=None):
        if env is not None:
            name = env.mangle(name)
        st = self.st
        if isinstance(obj, SuperProxy):
            return self.super_attr(obj, name)
        if isinstance(obj, Ref):
            if st.hasf(obj, name):
                return st.getf(obj, name)
            ci = self.class_of_ref(obj)
            if ci is not None:
                found = self.class_attr(ci, name, obj)
                if found is not None:
                    return found[0]
            m = self.models.obj_attr(self, obj, name)
            if m is not None:
                return m[0]
            if ci is None:
                # a library / built-in object whose attribute has no model: undecided, never an AttributeError
                raise Unsupported(f'no model for {obj.cls}.{name}')
            ann = self.declared_field_annotation(ci, name)
            if ann is not None:
                # a declared (dataclass) field the contract's shape does not list: at function entry it can hold any value
                # of its declared type
                st.assumptions_used.add(f'field {ci.name}.{name} is not part of the contract\'s shape: arbitrary value of its '
                                        f'declared type ({ann})')
                head = ann.split('[')[0].split('.')[-1]
                if head in ('set', 'Set'):
                    val = st.alloc('set', elems=SymSet.fresh(st, name))
                elif head in ('dict', 'Dict'):
                    val = st.alloc('dict', map=SymMap.fresh(st, name))
                elif head in ('list', 'List'):
                    val = st.alloc('list', items=SymSeq.fresh(st, name))
                elif head in ('bool', 'int', 'str'):
                    val = (SymB(st.fresh_bool(name)) if head == 'bool' else SymI(st.fresh_int(name)) if head == 'int'
                           else SymS(st.fresh_str(name)))
                elif head in ('Any', 'Optional', 'Union', 'object'):
                    val = SymV(st.fresh_val(name))
                else:
                    raise Unsupported(f'the contract\'s shape of {ci.name} has no field {name} (declared with type {ann})')
                st.setf(obj, name, val)
                return val
            if name in self.declared_instance_attrs(ci):
                # the class declares the attribute (dataclass field or `self.x = ...` in a method) but the state the
                # contract set up does not have it: the contract's view of the object is out of date, not the code wrong
                raise Unsupported(f'the contract\'s shape of {ci.name} has no field {name} (declared by the class)')
            if name.startswith('__') and name.endswith('__'):
                # special attributes (__dict__, __class__, ...) exist on every object: no model, undecided
                raise Unsupported(f'special attribute {name} of an instance of {ci.name}')
            if not all(isinstance(c, ClassInfo) or c.split('.')[-1].split('[')[0] in (
                    'object', 'ABC', 'Protocol', 'Generic', 'Exception', 'BaseException') for c in self.repo.mro(ci)):
                # a library base class may well define it
                raise Unsupported(f'attribute {name} of an instance of {ci.name} (library base class, no model)')
            self.raise_builtin('AttributeError', f'{obj!r}.{name}')
        if isinstance(obj, ClsRef):
            if isinstance(obj.info, ClassInfo):
                found = self.class_attr(obj.info, name, None, clsref=obj)
                if found is not None:
                    return found[0]
            m = self.models.cls_attr(self, obj, name)
            if m is not None:
                return m[0]
            if name == '__name__':
                return obj.name.split('::')[-1].split('.')[-1]
            if isinstance(obj.info, ClassInfo) and all(
                    isinstance(c, ClassInfo) or c.split('.')[-1].split('[')[0] in ('object', 'ABC', 'Protocol', 'Generic', 'Exception', 'BaseException')
                    for c in self.repo.mro(obj.info)):
                self.raise_builtin('AttributeError', f'{obj}.{name}')
            raise Unsupported(f'class attribute {obj}.{name}')
        if isinstance(obj, LibRef):
            if obj.name.startswith('repo:'):
                return self.materialize(self.repo.resolve(obj.name[5:], name))
            return self.models.lib_value(self, f'{obj.name}.{name}')
        if isinstance(obj, SymV):
            return self.symv_attr(obj, name)
        if isinstance(obj, EnumMember):
            if name == 'value':
                return obj.value
            if name == 'name':
                return obj.name
        if isinstance(obj, Function) and name == '__name__':
            return obj.finfo.node.name
        if isinstance(obj, (Closure,)) and name == '__name__':
            return obj.name
        if hasattr(obj, 'sym_getattr'):
            return obj.sym_getattr(self, name)
        if isinstance(obj, str) or isinstance(obj, SymS):
            return LibFn(f'str.{name}', lambda it, ca, _o=obj, _n=name: it.models.str_method(it, _o, _n, ca))
        if obj is None:
            self.raise_builtin('AttributeError', f'None.{name}')
        m = self.models.value_attr(self, obj, name)
        if m is not None:
            return m[0]
        raise Unsupported(f'attribute {name!r} of {obj!r}')

    def symv_attr(self, obj, name):
        st = self.st
        t = obj.t
        if name in ('node_id', 'label'):
            if st.branch(PyV.is_case(t), 'is-case'):
                return lower(PyV.cnode(t) if name == 'node_id' else PyV.clabel(t), st)
            self.raise_builtin('AttributeError', f'{name} of non-CaseResult')
        if name == 'data' and self.opt.get('rec_data', True):
            if st.branch(PyV.is_rec(t), 'is-rec'):
                return lower(PyV.rdata(t), st)
            self.raise_builtin('AttributeError', 'data of non-Recurrent')
        hook = self.models.symv_attr(self, obj, name)
        if hook is not None:
            return hook[0]
        if name in ('startswith', 'endswith', 'lower', 'upper', 'replace', 'split', 'join', 'strip'):
            # string methods on a value that may or may not be a string
            if st.branch(PyV.is_str_(t), 'is-str'):
                return self.get_attr(SymS(PyV.s(t)), name)
            self.raise_builtin('AttributeError', f'{name} of a non-string')
        if st.branch(PyV.is_none(t), 'attr-of-none'):
            self.raise_builtin('AttributeError', f'None.{name}')
        if name in self.MUTATORS and not self.rooted_in_fresh_value(t):
            return LibFn(f'value.{name}', lambda it, ca, _n=name, _o=obj: it.mutation_of_opaque_value(_o, _n))
        return lower(attr_fn(name)(t), st)

    # methods that change a built-in container in place.  Values that are terms (node results, graph attribute values such
    # as the candidate list of a one-of, user inputs) are immutable in the model and are shared by reference in reality
    # (graph copies are shallow): engine code that mutates one changes data it does not own.
    MUTATORS = frozenset(('append', 'extend', 'insert', 'remove', 'pop', 'clear', 'sort', 'reverse', 'add', 'discard', 'update',
                          'setdefault', 'popitem', '__setitem__', '__delitem__', 'difference_update', 'intersection_update'))

    def rooted_in_fresh_value(self, t):
        """t is  attr_a(attr_b(... v ...))  with v a value created by this very function (a class made by type(), the result
        of a user call): mutating it touches nothing that existed before"""
        fresh = {e.cls.t.get_id() for e in self.st.effects if e.kind == 'new_class' and isinstance(getattr(e, 'cls', None), SymV)}
        fresh |= {e.result.t.get_id() for e in self.st.effects if e.kind == 'user_call' and isinstance(getattr(e, 'result', None), SymV)}
        while True:
            if t.get_id() in fresh:
                return True
            if z3.is_app(t) and t.num_args() == 1 and t.decl().name().startswith('attr_'):
                t = t.arg(0)
                continue
            return False

    def mutation_of_opaque_value(self, obj, name):
        c = self.contracts.get(self.verifying) if self.verifying else None
        cname = c.name if c is not None else (self.verifying or '<entry>')
        self.st.oblige_fail(f'{cname}#frame', f'in-place mutation ({name}) of a value the function does not own: node results, graph '
                            f'attribute values and inputs are shared by reference between runs and scopes', location=f'value.{name}')
        raise Unsupported(f'in-place mutation ({name}) of an opaque value')

    def declared_field_annotation(self, ci, name):
        for c in self.repo.mro(ci):
            if isinstance(c, ClassInfo) and c.is_dataclass:
                for item in c.node.body:
                    if isinstance(item, ast.AnnAssign) and isinstance(item.target, ast.Name) and item.target.id == name \
                            and 'ClassVar' not in ast.unparse(item.annotation):
                        return ast.unparse(item.annotation)
        return None

    def declared_instance_attrs(self, ci):
        cache = self.__dict__.setdefault('_decl_attrs', {})
        if ci.key not in cache:
            names = set()
            for c in self.repo.mro(ci):
                if not isinstance(c, ClassInfo):
                    continue
                names.update(n for n, _d in c.ann_fields)
                for fi in c.methods.values():
                    for node in ast.walk(fi.node):
                        if isinstance(node, (ast.Assign, ast.AnnAssign, ast.AugAssign)):
                            targets = node.targets if isinstance(node, ast.Assign) else [node.target]
                            for t_ in targets:
                                if isinstance(t_, ast.Attribute) and isinstance(t_.value, ast.Name) and t_.value.id == 'self':
                                    attr = t_.attr
                                    if attr.startswith('__') and not attr.endswith('__'):
                                        attr = f'_{c.name.lstrip("_")}{attr}'
                                    names.add(attr)
            cache[ci.key] = names
        return cache[ci.key]

    def class_attr(self, ci, name, instance, clsref=None):
        """look ``name`` up in the class hierarchy; returns (value,) or None"""
        for c in self.repo.mro(ci):
            if isinstance(c, ClassInfo):
                prefix = f'_{c.name.lstrip("_")}__'
                if name.startswith(prefix) and ('__' + name[len(prefix):]) in c.methods:
                    name = '__' + name[len(prefix):]
                if name in c.methods:
                    fi = c.methods[name]
                    if fi.is_static:
                        return (Function(fi),)
                    if fi.is_classmethod:
                        return (BoundMethod(fi, clsref or ClsRef(ci.key, ci)),)
                    if instance is None:
                        return (Function(fi),)
                    if fi.is_property:
                        return (self.call_function(fi, instance, CallArgs()),)
                    return (BoundMethod(fi, instance),)
                if name in c.attrs:
                    expr = c.attrs[name]
                    env = Env({}, None, None, module=c.module, cls=c)
                    # enum members
                    if self.is_enum_class(c) and clsref is not None or (self.is_enum_class(c) and instance is None):
                        val = self.eval(expr, env)
                        return (EnumMember(c.name, name, val),)
                    if isinstance(expr, ast.Call) and ast.unparse(expr.func) == 'field':
                        return None
                    if isinstance(expr, (ast.Dict, ast.List, ast.Set)) or (
                            isinstance(expr, ast.Call) and ast.unparse(expr.func) in ('dict', 'list', 'set', 'defaultdict')):
                        return (self.class_level_state(c, name, expr),)
                    return (self.eval(expr, env),)
            else:
                m = self.models.libclass_attr(self, c, name, instance, clsref or ClsRef(ci.key, ci))
                if m is not None:
                    return m
        return None

    def class_level_state(self, ci, name, expr):
        """a mutable container defined in a class body is shared by all instances and all calls in the process: one
        persistent object per path whose initial content is arbitrary (earlier calls may have filled it)"""
        cache = self.st.ghost.setdefault('class_state', {})
        key = (ci.key, name)
        if key not in cache:
            st = self.st
            st.assumptions_used.add('class-level mutable containers are process-wide state with arbitrary initial content')
            if isinstance(expr, ast.Dict) or (isinstance(expr, ast.Call) and ast.unparse(expr.func) in ('dict', 'defaultdict')):
                cache[key] = st.alloc('dict', map=SymMap.fresh(st, f'{ci.name}_{name}'))
            elif isinstance(expr, ast.List) or (isinstance(expr, ast.Call) and ast.unparse(expr.func) == 'list'):
                cache[key] = st.alloc('list', items=SymSeq.fresh(st, f'{ci.name}_{name}'))
            else:
                cache[key] = st.alloc('set', elems=SymSet.fresh(st, f'{ci.name}_{name}'))
        return cache[key]

    def is_enum_class(self, ci):
        return any(isinstance(b, str) and b.split('.')[-1] == 'Enum' for b in self.repo.mro(ci))

    def super_attr(self, proxy, name):
        obj = proxy.self_val
        ci = self.class_of_ref(obj) if isinstance(obj, Ref) else obj.info
        mro = self.repo.mro(ci)
        idx = mro.index(proxy.after_cls)
        for c in mro[idx + 1:]:
            if isinstance(c, ClassInfo):
                if name in c.methods:
                    return BoundMethod(c.methods[name], obj)
            else:
                m = self.models.libclass_attr(self, c, name, obj, None)
                if m is not None:
                    return m[0]
        if name == '__init__':
            return LibFn('object.__init__', lambda it, ca: None)
        raise Unsupported(f'super().{name} for {ci}')

    def set_attr(self, obj, name, value, env=None):
        if env is not None:
            name = env.mangle(name)
        if isinstance(obj, Ref):
            if self.models.obj_setattr(self, obj, name, value):
                return
            self.st.emit('write', obj=obj, field=name)
            self.st.setf(obj, name, value)
            return
        if hasattr(obj, 'sym_setattr'):
            obj.sym_setattr(self, name, value)
            return
        raise Unsupported(f'attribute assignment on {obj!r}.{name}')

    # ==================================================================================
    # calls
    # ==================================================================================
    def call_value(self, fn, ca):
        st = self.st
        awaited, self.current_call_awaited = self.current_call_awaited, False
        if isinstance(fn, SymV):
            self.current_call_awaited = awaited     # only calls into user code consume the flag
            return self.models.unknown_call(self, fn, ca)
        if isinstance(fn, BoundMethod):
            return self.call_function(fn.finfo, fn.self_val, ca)
        if isinstance(fn, Function):
            return self.call_function(fn.finfo, None, ca)
        if isinstance(fn, Closure):
            return self.call_closure(fn, ca)
        if isinstance(fn, Partial):
            kw = dict(fn.kwargs)
            kw.update(ca.kwargs)
            return self.call_value(fn.fn, CallArgs(fn.args + ca.args, kw, fn.starmaps + ca.starmaps))
        if isinstance(fn, LibFn):
            return fn.impl(self, ca)
        if isinstance(fn, ClsRef):
            return self.instantiate(fn, ca)
        if hasattr(fn, 'sym_call'):
            return fn.sym_call(self, ca)
        if isinstance(fn, SymV):
            return self.models.unknown_call(self, fn, ca)
        raise Unsupported(f'call of {fn!r}')

    def bind_params(self, node_args, self_val, ca, env, fname):
        """bind CallArgs to an ast.arguments; returns dict of locals"""
        params = [a.arg for a in node_args.posonlyargs + node_args.args]
        locals_ = {}
        args = list(ca.args)
        if self_val is not None:
            args = [self_val] + args
        kwargs = dict(ca.kwargs)
        n_pos = len(params)
        for i, p in enumerate(params):
            if i < len(args):
                locals_[p] = args[i]
            elif p in kwargs:
                locals_[p] = kwargs.pop(p)
        extra_pos = args[n_pos:]
        if node_args.vararg is not None:
            if len(extra_pos) == 1 and isinstance(extra_pos[0], StarSeq):
                locals_[node_args.vararg.arg] = self.st.alloc('tuple', items=extra_pos[0].seq)
            elif any(isinstance(x, StarSeq) for x in extra_pos):
                raise Unsupported('mixed positional and symbolic * arguments')
            else:
                locals_[node_args.vararg.arg] = tuple(extra_pos)
        elif extra_pos:
            self.raise_builtin('TypeError', f'{fname}: too many positional arguments')
        for a in node_args.kwonlyargs:
            if a.arg in kwargs:
                locals_[a.arg] = kwargs.pop(a.arg)
        # defaults
        defaults = node_args.defaults
        for p, d in zip(params[len(params) - len(defaults):], defaults):
            if p not in locals_:
                locals_[p] = self.eval(d, env)
        for a, d in zip(node_args.kwonlyargs, node_args.kw_defaults):
            if a.arg not in locals_ and d is not None:
                locals_[a.arg] = self.eval(d, env)
        missing = [p for p in params + [a.arg for a in node_args.kwonlyargs] if p not in locals_]
        if missing:
            if ca.starmaps:
                # named parameters supplied through a symbolic ** mapping
                for p in list(missing):
                    for sm in ca.starmaps:
                        m = self.dict_sym(sm)
                        if self.st.branch(m.has(mk_str(p)), f'param-{p}-in-starmap'):
                            locals_[p] = lower(m.at(mk_str(p)), self.st)
                            missing.remove(p)
                            break
            if missing:
                self.st.emit('type_error', fn=fname, missing=missing)
                self.raise_builtin('TypeError', f'{fname}: missing {missing}')
        if node_args.kwarg is not None:
            if ca.starmaps:
                if len(ca.starmaps) == 1 and not kwargs:
                    d = self.new_dict(self.dict_sym(ca.starmaps[0]))
                else:
                    sm = SymMap.empty()
                    for k, v in kwargs.items():
                        sm = sm.store(lift(k, self.st), lift(v, self.st))
                    if len(ca.starmaps) == 1:
                        base = self.dict_sym(ca.starmaps[0])
                        # concrete keywords override / extend the symbolic mapping
                        for k, v in kwargs.items():
                            base = base.store(lift(k, self.st), lift(v, self.st))
                        sm = base
                    else:
                        raise Unsupported('several ** mappings into **kwargs')
                    d = self.new_dict(sm)
                locals_[node_args.kwarg.arg] = d
            else:
                locals_[node_args.kwarg.arg] = self.new_dict(dict(kwargs))
        elif kwargs:
            self.raise_builtin('TypeError', f'{fname}: unexpected keyword arguments {list(kwargs)}')
        return locals_

    def call_function(self, fi, self_val, ca, force_inline=False):
        # contract call?
        c = self.contracts.get(fi.key)
        is_entry = (self.depth == 0 and self.verifying == fi.key)
        if c is not None and not is_entry and not force_inline and fi.key not in self.inline_only and not c.inline_at_calls:
            if fi.is_async:
                return Coroutine(fi, self_val, ca.args, ca.kwargs, ca.starmaps, fi.qualname)
            cp = self.st.checkpoint()
            try:
                return c.apply_at_call(self, fi, self_val, ca)
            except (KeyError, AttributeError, IndexError, TypeError, AssertionError) as e:
                # the contract no longer fits the callee (parameters renamed, representation changed): the callee's own
                # verification reports that as undecided; here the real body is executed instead, which is always sound
                self.st.restore(cp)
                self.st.assumptions_used.add(f'contract of {fi.qualname} did not fit a call any more '
                                             f'({type(e).__name__}: {e}); its body was inlined there')
                return self.inline_function(fi, self_val, ca)
        if fi.is_async and not is_entry and not force_inline:
            return Coroutine(fi, self_val, ca.args, ca.kwargs, ca.starmaps, fi.qualname)
        return self.inline_function(fi, self_val, ca)

    KNOWN_DECORATORS = ('staticmethod', 'classmethod', 'property', 'dataclass', 'abc.abstractmethod', 'abstractmethod',
                        'functools.wraps', 'dont_use_for_prod', 'cachedmethod', 'functools.lru_cache', 'lru_cache',
                        'functools.cache', 'cache', 'contract')

    def check_decorators(self, fi):
        for d in fi.decorators:
            head = d.split('(')[0]
            if not any(head == k or head.endswith('.' + k) for k in self.KNOWN_DECORATORS):
                raise Unsupported(f'decorator @{d} on {fi.qualname} has no model')

    def memoised_call(self, fi, self_val, ca):
        """functools.lru_cache / cache: the result is a function of the arguments only, shared by every caller in the
        process (no fresh object per call, no re-execution)"""
        st = self.st
        if ca.kwargs or ca.starmaps:
            raise Unsupported(f'memoised call of {fi.qualname} with keyword arguments')
        args = ([self_val] if self_val is not None else []) + list(ca.args)
        self.st.assumptions_used.add('functools.lru_cache: the decorated function is evaluated at most once per argument '
                                     'tuple in the process; later calls return the stored object')
        f = z3.Function(f'memo_{fi.qualname}', *([PyV] * len(args) + [PyV]))
        res = f(*[lift(x, st) for x in args]) if args else z3.Const(f'memo_{fi.qualname}', PyV)
        st.emit('memoised_call', fn=fi.qualname, args=args, result=res)
        return lower(res, st)

    def inline_function(self, fi, self_val, ca):
        if self.depth > self.MAX_DEPTH:
            raise Unsupported(f'inline depth exceeded at {fi.qualname}')
        self.check_decorators(fi)
        if any(d.split('(')[0].split('.')[-1] in ('lru_cache', 'cache') for d in fi.decorators):
            return self.memoised_call(fi, self_val, ca)
        memo = any(d.startswith('cachedmethod') for d in fi.decorators)
        n_eff0 = len(self.st.effects)
        completed = False
        if memo:
            # a direct read of the run's storage in the body is visible in the text, whether or not the body can be executed
            # to the end (loops of a helper introduced by a refactoring have no invariant of their own)
            direct = sorted({n.attr for n in ast.walk(fi.node) if isinstance(n, ast.Attribute) and isinstance(n.value, ast.Attribute)
                             and n.value.attr == '_node_storage'})
            if direct:
                caller0 = self.call_stack[-1] if self.call_stack else fi.qualname
                self.st.oblige_fail(f'{caller0}#memoised[{fi.qualname}]-depends-only-on-its-key-and-run-immutable-structure',
                                    f'the memoised function reads run state: _node_storage.{direct}')
        module_env = Env({}, None, fi, module=fi.module, cls=fi.cls)
        if fi.is_static:
            self_val = None
        locals_ = self.bind_params(fi.node.args, self_val, ca, module_env, fi.qualname)
        env = Env(locals_, None, fi, module=fi.module, cls=fi.cls)
        env.exc_stack = []
        self.depth += 1
        self.call_stack.append(fi.qualname)
        try:
            self.exec_body(fi.node.body, env)
            completed = True
            return None
        except ReturnEx as r:
            completed = True
            return r.value
        except PyRaise:
            completed = True
            raise
        finally:
            self.depth -= 1
            self.call_stack.pop()
            if memo and completed:
                # @cachedmethod is treated as transparent; that is only sound if the body reads nothing but its key and
                # run-immutable structure: no read of the run's storage
                reads = [e.fn for e in self.st.effects[n_eff0:] if e.kind == 'call' and e.fn.split('.')[0] in ('DAGNodeStorage', 'HiddenDict')]
                caller = self.call_stack[-1] if self.call_stack else fi.qualname
                if reads:
                    self.st.oblige_fail(f'{caller}#memoised[{fi.qualname}]-depends-only-on-its-key-and-run-immutable-structure',
                                        f'the memoised function reads run state: {sorted(set(reads))}')
                else:
                    self.st.oblige(f'{caller}#memoised[{fi.qualname}]-depends-only-on-its-key-and-run-immutable-structure', True)

    def call_closure(self, cl, ca):
        if cl.is_async:
            return Coroutine(cl, None, ca.args, ca.kwargs, ca.starmaps, cl.name)
        return self.run_closure(cl, ca)

    def run_closure(self, cl, ca):
        node = cl.node
        locals_ = self.bind_params(node.args, None, ca, cl.env, cl.name)
        env = Env(locals_, cl.env, cl.env.finfo)
        if isinstance(node, ast.Lambda):
            return self.eval(node.body, env)
        self.depth += 1
        try:
            self.exec_body(node.body, env)
            return None
        except ReturnEx as r:
            return r.value
        finally:
            self.depth -= 1

    def await_value(self, v):
        if isinstance(v, Coroutine):
            if v.consumed:
                raise Unsupported('coroutine awaited twice')
            v.consumed = True
            ca = CallArgs(v.args, v.kwargs, v.starmaps)
            if isinstance(v.fn, Closure):
                return self.run_closure(v.fn, ca)
            fi = v.fn
            c = self.contracts.get(fi.key)
            if c is not None and fi.key not in self.inline_only and not c.inline_at_calls:
                return c.apply_at_call(self, fi, v.self_val, ca)
            return self.inline_function(fi, v.self_val, ca)
        if isinstance(v, Awaitable):
            return v.thunk()
        if hasattr(v, 'sym_await'):
            return v.sym_await(self)
        raise Unsupported(f'await of {v!r}')

    def instantiate(self, clsref, ca):
        ci = clsref.info
        if self.is_exc_class(clsref):
            return self.new_exception(clsref, ca.args)
        if not isinstance(ci, ClassInfo):
            return self.models.instantiate_lib(self, clsref, ca)
        if self.is_enum_class(ci):
            return self.models.enum_lookup(self, ci, ca)
        hook = self.models.instantiate_repo(self, ci, ca)
        if hook is not None:
            return hook[0]
        obj = self.st.alloc(ci.key)
        self.st.setf(obj, '__class__', ci.key)
        self.st.emit('alloc', obj=obj, cls=ci.name)
        init = self.repo.find_method(ci, '__init__')
        if init is not None:
            self.call_function(init, obj, ca)
        elif any(isinstance(c, ClassInfo) and c.is_dataclass for c in self.repo.mro(ci)):
            self.dataclass_init(ci, obj, ca)
        else:
            libinit = None
            for c in self.repo.mro(ci):
                if isinstance(c, str):
                    libinit = self.models.libclass_attr(self, c, '__init__', obj, clsref)
                    if libinit is not None:
                        break
            if libinit is not None:
                self.call_value(libinit[0], ca)
            elif ca.args or ca.kwargs:
                raise Unsupported(f'constructor arguments for {ci.name} without __init__')
        return obj

    def dataclass_init(self, ci, obj, ca):
        fields = []
        for c in reversed(self.repo.mro(ci)):
            if isinstance(c, ClassInfo) and c.is_dataclass:
                for name, default in c.ann_fields:
                    fields = [f for f in fields if f[0] != name]
                    fields.append((name, default, c))
        args = list(ca.args)
        kwargs = dict(ca.kwargs)
        frozen = any('frozen=True' in d for c in self.repo.mro(ci) if isinstance(c, ClassInfo) for d in c.decorators)
        for name, default, c in fields:
            init_flag = True
            factory = None
            dflt = default
            if isinstance(default, ast.Call) and ast.unparse(default.func) == 'field':
                dflt = None
                for kw in default.keywords:
                    if kw.arg == 'init' and isinstance(kw.value, ast.Constant) and kw.value.value is False:
                        init_flag = False
                    elif kw.arg == 'default_factory':
                        factory = kw.value
                    elif kw.arg == 'default':
                        dflt = kw.value
            env = Env({}, None, None, module=c.module, cls=c)
            if not init_flag:
                if factory is not None:
                    self.st.setf(obj, name, self.call_value(self.eval(factory, env), CallArgs()))
                elif dflt is not None:
                    self.st.setf(obj, name, self.eval(dflt, env))
                continue
            if args:
                val = args.pop(0)
            elif name in kwargs:
                val = kwargs.pop(name)
            elif factory is not None:
                val = self.call_value(self.eval(factory, env), CallArgs())
            elif dflt is not None:
                val = self.eval(dflt, env)
            else:
                self.raise_builtin('TypeError', f'{ci.name}.__init__ missing {name}')
            self.st.setf(obj, name, val)
        if kwargs or args:
            self.raise_builtin('TypeError', f'{ci.name}.__init__ unexpected arguments {list(kwargs)}')
        self.st.setf(obj, '__frozen__', frozen)
        post = self.repo.find_method(ci, '__post_init__')
        if post is not None:
            self.call_function(post, obj, CallArgs())

    # ==================================================================================
    # statements
    # ==================================================================================
    def exec_body(self, stmts, env):
        for s in stmts:
            self.exec_stmt(s, env)

    def exec_stmt(self, s, env):
        m = getattr(self, 'st_' + type(s).__name__, None)
        if m is None:
            raise Unsupported(f'statement {type(s).__name__} at line {s.lineno}')
        return m(s, env)

    def st_Expr(self, s, env):
        if isinstance(s.value, ast.Constant):
            return
        self.eval(s.value, env)

    def st_Pass(self, s, env):
        pass

    def st_Return(self, s, env):
        raise ReturnEx(self.eval(s.value, env) if s.value is not None else None)

    def st_Break(self, s, env):
        raise BreakEx()

    def st_Continue(self, s, env):
        raise ContinueEx()

    def st_Assign(self, s, env):
        v = self.eval(s.value, env)
        for t in s.targets:
            self.assign(t, v, env)

    def st_AnnAssign(self, s, env):
        if s.value is not None:
            self.assign(s.target, self.eval(s.value, env), env)

    def st_AugAssign(self, s, env):
        cur = self.eval(ast.copy_location(self._as_load(s.target), s.target), env)
        v = self.binop(s.op, cur, self.eval(s.value, env))
        self.assign(s.target, v, env)

    @staticmethod
    def _as_load(target):
        import copy
        t = copy.copy(target)
        t.ctx = ast.Load()
        return t

    def st_FunctionDef(self, s, env):
        env.vars[s.name] = Closure(s, env, s.name)

    st_AsyncFunctionDef = st_FunctionDef

    def st_Import(self, s, env):
        for a in s.names:
            env.vars[a.asname or a.name.split('.')[0]] = LibRef(a.name if a.asname else a.name.split('.')[0])

    def st_ImportFrom(self, s, env):
        for a in s.names:
            if self.repo.is_repo_module(s.module):
                env.vars[a.asname or a.name] = self.materialize(self.repo.resolve(s.module, a.name))
            else:
                env.vars[a.asname or a.name] = self.models.lib_value(self, f'{s.module}.{a.name}')

    def st_Assert(self, s, env):
        v = self.eval(s.test, env)
        if not self.st.branch(as_bool_term(v), 'assert'):
            self.raise_builtin('AssertionError')

    def st_Delete(self, s, env):
        raise Unsupported('del statement')

    def assign(self, target, v, env):
        if isinstance(target, ast.Name):
            # closures assign into their own env; nonlocal is not used in the code base
            env.vars[target.id] = v
        elif isinstance(target, ast.Attribute):
            obj = self.eval(target.value, env)
            self.set_attr(obj, target.attr, v, env)
        elif isinstance(target, ast.Subscript):
            obj = self.eval(target.value, env)
            key = self.eval(target.slice, env)
            self.set_item(obj, key, v)
        elif isinstance(target, (ast.Tuple, ast.List)):
            items = self.unpack(v, len(target.elts))
            for t, x in zip(target.elts, items):
                self.assign(t, x, env)
        else:
            raise Unsupported(f'assignment target {type(target).__name__}')

    def unpack(self, v, n):
        if isinstance(v, tuple):
            if len(v) != n:
                self.raise_builtin('ValueError', 'unpack')
            return list(v)
        if isinstance(v, Ref) and v.cls in ('list', 'tuple'):
            items = self.st.getf(v, 'items')
            if isinstance(items, tuple):
                return self.unpack(items, n)
        if isinstance(v, SymV) and n == 2:
            if self.st.branch(PyV.is_tup2(v.t), 'unpack-tup2'):
                return [lower(PyV.t0(v.t), self.st), lower(PyV.t1(v.t), self.st)]
            self.raise_builtin('TypeError', 'unpack non-pair')
        u = self.models.unpack(self, v, n)
        if u is not None:
            return u
        raise Unsupported(f'unpack of {v!r}')

    def st_If(self, s, env):
        c = self.eval_cond(s.test, env)
        if self.st.branch(c, f'if@{s.lineno}'):
            self.exec_body(s.body, env)
        else:
            self.exec_body(s.orelse, env)

    def eval_cond(self, expr, env):
        return self.truth(self.eval(expr, env))

    def truth(self, v):
        """Python truthiness; containers are true iff non-empty"""
        if isinstance(v, Ref):
            st = self.st
            if v.cls in ('list', 'tuple', 'deque'):
                items = st.getf(v, 'items')
                return bool(items) if isinstance(items, tuple) else (items.len > 0)
            if v.cls == 'dict' or v.cls == 'defaultdict':
                m = st.getf(v, 'map')
                if not isinstance(m, SymMap):
                    return bool(m)
                k = z3.Const('trk', PyV)
                return z3.Exists([k], m.has(k))
            if v.cls == 'set':
                e = st.getf(v, 'elems')
                if isinstance(e, frozenset):
                    return bool(e)
                k = z3.Const('trk', PyV)
                return z3.Exists([k], e.contains(k))
        return as_bool_term(v)

    def st_Raise(self, s, env):
        if s.exc is None:
            if not env.exc_stack:
                self.raise_builtin('RuntimeError', 'No active exception to reraise')
            raise PyRaise(env.exc_stack[-1], 're-raise')
        v = self.eval(s.exc, env)
        if isinstance(v, ClsRef):
            v = self.instantiate(v, CallArgs())
        if isinstance(v, SymV):
            if self.st.branch(PyV.is_exc(v.t), 'raise-is-exc'):
                raise PyRaise(v, f'raise@{s.lineno}')
            self.raise_builtin('TypeError', 'exceptions must derive from BaseException')
        raise Unsupported(f'raise of {v!r}')

    def st_Try(self, s, env):
        pending = None
        try:
            try:
                self.exec_body(s.body, env)
            except PyRaise as pr:
                handled = False
                for h in s.handlers:
                    if h.type is None:
                        match = True
                    else:
                        spec = self.eval(h.type, env)
                        match = self.exc_matches(pr.val, spec)
                    if self.st.branch(match, f'except@{h.lineno}'):
                        handled = True
                        if h.name:
                            env.vars[h.name] = pr.val
                        env.exc_stack.append(pr.val)
                        try:
                            self.exec_body(h.body, env)
                        finally:
                            env.exc_stack.pop()
                        break
                if not handled:
                    raise
            else:
                self.exec_body(s.orelse, env)
        except (ReturnEx, BreakEx, ContinueEx, PyRaise) as ce:
            if not s.finalbody:
                raise
            pending = ce
        if s.finalbody:
            self.exec_body(s.finalbody, env)     # a control signal raised here replaces ``pending``
            if pending is not None:
                if isinstance(pending, PyRaise):
                    pass
                raise pending

    def st_With(self, s, env):
        self.with_items(s.items, s.body, env, is_async=False)

    def st_AsyncWith(self, s, env):
        self.with_items(s.items, s.body, env, is_async=True)

    def with_items(self, items, body, env, is_async):
        if not items:
            return self.exec_body(body, env)
        item = items[0]
        cm = self.eval(item.context_expr, env)
        if not hasattr(cm, 'cm_enter'):
            cm = self.models.context_manager(self, cm)
        val = cm.cm_enter(self, is_async)
        if item.optional_vars is not None:
            self.assign(item.optional_vars, val, env)
        try:
            self.with_items(items[1:], body, env, is_async)
        except PyRaise as pr:
            suppressed = cm.cm_exit(self, is_async, pr)
            if not suppressed:
                raise
        except (ReturnEx, BreakEx, ContinueEx):
            cm.cm_exit(self, is_async, None)
            raise
        else:
            cm.cm_exit(self, is_async, None)

    # ---- rename tolerance (pyvc/alpha.py) -------------------------------------------------
    def renaming_for(self, fi):
        if fi is None:
            return {}
        from . import alpha
        return alpha.renaming(fi.module.path, fi.qualname, fi.node)

    def lookup_local(self, env, name):
        """a local of the function by the name the contract knows it under (the reference name), or by its current name"""
        found, v = env.lookup(name)
        if found:
            return found, v
        cur = self.renaming_for(env.finfo).get(name)
        if cur is not None:
            return env.lookup(cur)
        return False, None

    def local_name(self, env, name):
        found, _v = env.lookup(name)
        if found:
            return name
        return self.renaming_for(env.finfo).get(name, name)

    # ---- loops ----------------------------------------------------------------------
    def loop_spec(self, kind, s, env):
        fi = env.finfo
        if fi is None:
            return None
        specs = self.loop_specs.get(fi.key) if isinstance(self.loop_specs, dict) else None
        if not specs:
            c = self.contracts.get(fi.key)
            specs = c.loops if c is not None else None
        if not specs and self.verifying is not None:
            # a loop that was moved into an uncontracted helper keeps the invariant written for it (matched by the
            # text of the iterated expression)
            c = self.contracts.get(self.verifying)
            text_ = ast.unparse(s.iter) if isinstance(s, ast.For) else ast.unparse(s.test)
            specs = [sp for sp in (c.loops if c is not None else []) if sp.text is not None and sp.text == text_]
        if not specs:
            return None
        # ordinal among loops of the same kind in the function, in source order
        loops = [n for n in ast.walk(fi.node) if isinstance(n, (ast.For, ast.While, ast.AsyncFor))]
        loops.sort(key=lambda n: (n.lineno, n.col_offset))
        ordinal = loops.index(s)
        text = ast.unparse(s.iter) if isinstance(s, ast.For) else ast.unparse(s.test)
        for sp in specs:
            if sp.matches(ordinal, text):
                return sp
        ren = self.renaming_for(fi)
        if ren:
            from . import alpha
            for sp in specs:
                if sp.text is not None and alpha.rename_text(sp.text, ren) == text:
                    return sp
        return None

    def st_For(self, s, env):
        it = self.eval(s.iter, env)
        seq = self.iter_seq(it)
        if isinstance(seq, tuple):
            broke = False
            for x in seq:
                self.assign(s.target, x, env)
                try:
                    self.exec_body(s.body, env)
                except BreakEx:
                    broke = True
                    break
                except ContinueEx:
                    continue
            if not broke:
                self.exec_body(s.orelse, env)
            return
        spec = self.loop_spec('for', s, env)
        if spec is None:
            raise Unsupported(f'for-loop over a symbolic sequence without an invariant at line {s.lineno} '
                              f'({ast.unparse(s.iter)})')
        spec.run_for(self, s, env, seq)

    def st_While(self, s, env):
        spec = self.loop_spec('while', s, env)
        if spec is None:
            # concrete unrolling (bounded) when the test stays concrete
            for _ in range(64):
                c = self.eval_cond(s.test, env)
                if not isinstance(c, bool):
                    raise Unsupported(f'while-loop with symbolic test without invariant at line {s.lineno}')
                if not c:
                    self.exec_body(s.orelse, env)
                    return
                try:
                    self.exec_body(s.body, env)
                except BreakEx:
                    return
                except ContinueEx:
                    continue
            raise Unsupported(f'while-loop did not terminate concretely at line {s.lineno}')
        spec.run_while(self, s, env)

    def iter_seq(self, it):
        """value being iterated -> tuple or SymSeq"""
        seq = self.seq_of(it)
        if seq is not None:
            return seq
        if isinstance(it, Ref) and it.cls == 'dict':
            m = self.st.getf(it, 'map')
            if not isinstance(m, SymMap):
                return tuple(m.keys())
            return self.models.enumerate_map_keys(self, m)
        if isinstance(it, Ref) and it.cls == 'set':
            e = self.st.getf(it, 'elems')
            if isinstance(e, frozenset):
                return tuple(e)
            return self.models.enumerate_set(self, e)
        if hasattr(it, 'sym_iter'):
            return it.sym_iter(self)
        r = self.models.iterate(self, it)
        if r is not None:
            return r
        raise Unsupported(f'iteration over {it!r}')

    # ==================================================================================
    # expressions
    # ==================================================================================
    def eval(self, e, env):
        m = getattr(self, 'ex_' + type(e).__name__, None)
        if m is None:
            raise Unsupported(f'expression {type(e).__name__} at line {getattr(e, "lineno", "?")}')
        return m(e, env)

    def ex_Constant(self, e, env):
        v = e.value
        if v is Ellipsis:
            return None
        if isinstance(v, (float, bytes, complex)):
            raise Unsupported(f'constant {v!r}')
        return v

    def ex_Name(self, e, env):
        found, v = env.lookup(e.id)
        if found:
            return v
        if e.id in LOGGER_NAMES:
            return LibRef('logger')
        return self.resolve_global(env.module, e.id)

    def ex_Attribute(self, e, env):
        obj = self.eval(e.value, env)
        if isinstance(obj, LibRef) and obj.name == 'logger':
            return LibFn('logger.call', lambda it, ca: None)
        return self.get_attr(obj, e.attr, env)

    await_target = None
    current_call_awaited = False

    def ex_Await(self, e, env):
        saved = self.await_target
        self.await_target = e.value
        try:
            v = self.eval(e.value, env)
        finally:
            self.await_target = saved
        return self.await_value(v)

    def ex_Call(self, e, env):
        # loggers: skipped entirely, arguments not evaluated (DESIGN §2.2)
        f = e.func
        if isinstance(f, ast.Attribute) and isinstance(f.value, ast.Name) and f.value.id in LOGGER_NAMES:
            found, _ = env.lookup(f.value.id)
            if not found:
                return None
        if isinstance(f, ast.Name) and f.id == 'super' and not e.args:
            found, selfv = env.lookup('self')
            return SuperProxy(selfv, env.cls)
        fn = self.eval(f, env)
        args = []
        for a in e.args:
            if isinstance(a, ast.Starred):
                v = self.eval(a.value, env)
                seq = self.iter_seq(v)
                if not isinstance(seq, tuple):
                    args.append(StarSeq(seq))
                else:
                    args.extend(seq)
            else:
                args.append(self.eval(a, env))
        kwargs = {}
        starmaps = []
        for k in e.keywords:
            if k.arg is None:
                v = self.eval(k.value, env)
                if isinstance(v, Ref) and v.cls == 'dict':
                    m = self.st.getf(v, 'map')
                    if isinstance(m, SymMap):
                        starmaps.append(v)
                    else:
                        for kk, vv in m.items():
                            kwargs[str(kk.value) if isinstance(kk, EnumMember) else kk] = vv
                else:
                    raise Unsupported(f'** of {v!r}')
            else:
                kwargs[k.arg] = self.eval(k.value, env)
        self.current_call_awaited = (e is self.await_target)
        return self.call_value(fn, CallArgs(args, kwargs, starmaps))

    def ex_Lambda(self, e, env):
        return Closure(e, env, '<lambda>')

    def ex_IfExp(self, e, env):
        c = self.eval_cond(e.test, env)
        if self.st.branch(c, f'ifexp@{e.lineno}'):
            return self.eval(e.body, env)
        return self.eval(e.orelse, env)

    def ex_BoolOp(self, e, env):
        is_and = isinstance(e.op, ast.And)
        v = None
        for i, sub in enumerate(e.values):
            v = self.eval(sub, env)
            if i == len(e.values) - 1:
                return v
            c = self.truth(v)
            t = self.st.branch(c, f'boolop@{e.lineno}')
            if is_and and not t:
                return v
            if not is_and and t:
                return v
        return v

    def ex_UnaryOp(self, e, env):
        v = self.eval(e.operand, env)
        if isinstance(e.op, ast.Not):
            return wrap_bool(z3_not(self.truth(v)))
        if isinstance(e.op, ast.USub):
            if isinstance(v, int):
                return -v
            if isinstance(v, SymI):
                return SymI(-v.t)
        raise Unsupported(f'unary {type(e.op).__name__} on {v!r}')

    def ex_BinOp(self, e, env):
        return self.binop(e.op, self.eval(e.left, env), self.eval(e.right, env))

    def binop(self, op, a, b):
        if not is_symbolic(a) and not is_symbolic(b) and not isinstance(a, (Ref, ClsRef)) and not isinstance(b, (Ref, ClsRef)) \
                and not hasattr(a, 'sym_binop'):
            try:
                if isinstance(op, ast.Add):
                    return a + b
                if isinstance(op, ast.Sub):
                    return a - b
                if isinstance(op, ast.Mult):
                    return a * b
            except TypeError:
                pass
        if hasattr(a, 'sym_binop'):
            return a.sym_binop(self, op, b)
        ia, ib = self.as_int(a), self.as_int(b)
        if ia is not None and ib is not None:
            if isinstance(op, ast.Add):
                return SymI(ia + ib)
            if isinstance(op, ast.Sub):
                return SymI(ia - ib)
        sa, sb = self.as_str(a), self.as_str(b)
        if sa is not None and sb is not None and isinstance(op, ast.Add):
            return SymS(z3.Concat(sa, sb))
        raise Unsupported(f'binary {type(op).__name__} on {a!r}, {b!r}')

    @staticmethod
    def as_int(v):
        if isinstance(v, bool):
            return None
        if isinstance(v, int):
            return z3.IntVal(v)
        if isinstance(v, SymI):
            return v.t
        return None

    @staticmethod
    def as_str(v):
        if isinstance(v, str):
            return z3.StringVal(v)
        if isinstance(v, SymS):
            return v.t
        if isinstance(v, EnumMember):
            return z3.StringVal(v.value)
        return None

    def ex_Compare(self, e, env):
        left = self.eval(e.left, env)
        result = True
        for op, comp in zip(e.ops, e.comparators):
            right = self.eval(comp, env)
            r = self.compare(op, left, right)
            result = z3_and(result, as_bool_term(r) if not isinstance(r, bool) else r)
            left = right
            if len(e.ops) > 1 and not self.st.branch(result, 'chain-compare'):
                return False
        return wrap_bool(result)

    def compare(self, op, a, b):
        st = self.st
        if isinstance(op, (ast.Eq, ast.NotEq)):
            r = eq_term(a, b, st)
            return wrap_bool(r if isinstance(op, ast.Eq) else z3_not(r))
        if isinstance(op, (ast.Is, ast.IsNot)):
            r = self.identity(a, b)
            return wrap_bool(r if isinstance(op, ast.Is) else z3_not(r))
        if isinstance(op, (ast.In, ast.NotIn)):
            r = self.contains(b, a)
            r = as_bool_term(r)
            return wrap_bool(r if isinstance(op, ast.In) else z3_not(r))
        ia, ib = self.as_int(a), self.as_int(b)
        if ia is None and isinstance(a, SymV):
            pass
        if ia is not None and ib is not None:
            if isinstance(op, ast.Lt):
                return wrap_bool(ia < ib)
            if isinstance(op, ast.LtE):
                return wrap_bool(ia <= ib)
            if isinstance(op, ast.Gt):
                return wrap_bool(ia > ib)
            if isinstance(op, ast.GtE):
                return wrap_bool(ia >= ib)
        raise Unsupported(f'comparison {type(op).__name__} on {a!r}, {b!r}')

    def identity(self, a, b):
        """``a is b``: for None/True/False and heap objects it is exact; otherwise structural"""
        if a is None or b is None or isinstance(a, bool) or isinstance(b, bool):
            other = b if (a is None or isinstance(a, bool)) else a
            const = a if (a is None or isinstance(a, bool)) else b
            if not is_symbolic(other):
                return other is const
            if isinstance(other, SymB):
                if isinstance(const, bool):
                    return other.t if const else z3.Not(other.t)
                return False
            if isinstance(other, (SymI, SymS)):
                return False
            return z3.simplify(lift(other, self.st) == lift(const, self.st))
        if isinstance(a, Ref) and isinstance(b, Ref):
            return a.id == b.id
        if isinstance(a, (Ref, ClsRef)) or isinstance(b, (Ref, ClsRef)):
            if is_symbolic(a) or is_symbolic(b):
                return z3.simplify(lift(a, self.st) == lift(b, self.st))
            return a == b
        return eq_term(a, b, self.st)

    def contains(self, container, item):
        st = self.st
        if isinstance(container, (tuple, list)):
            return z3_or(*[as_bool_term(wrap_bool(eq_term(item, x, st))) for x in container])
        if isinstance(container, Ref):
            if container.cls == 'dict':
                return self.dict_contains(container, item)
            if container.cls == 'set':
                e = st.getf(container, 'elems')
                if isinstance(e, frozenset):
                    if not is_symbolic(item) and all(not is_symbolic(x) for x in e):
                        return item in e
                    return z3_or(*[as_bool_term(wrap_bool(eq_term(item, x, st))) for x in e])
                return wrap_bool(e.contains(lift(item, st)))
            if container.cls in ('list', 'tuple', 'deque'):
                items = st.getf(container, 'items')
                if isinstance(items, tuple):
                    return self.contains(items, item)
                k = st.fresh_int('k')
                v = lift(item, st)
                return wrap_bool(z3.Exists([k], z3.And(k >= 0, k < items.len, items.at(k) == v)))
            ci = self.class_of_ref(container)
            if ci is not None:
                m = self.repo.find_method(ci, '__contains__')
                if m is not None:
                    return self.call_function(m, container, CallArgs([item]))
                lm = None
                for c in self.repo.mro(ci):
                    if isinstance(c, str):
                        lm = self.models.libclass_attr(self, c, '__contains__', container, None)
                        if lm is not None:
                            break
                if lm is not None:
                    return self.call_value(lm[0], CallArgs([item]))
        if hasattr(container, 'sym_contains'):
            return container.sym_contains(self, item)
        if isinstance(container, (str, SymS)):
            s, sub = self.as_str(container), self.as_str(item)
            if s is not None and sub is not None:
                return wrap_bool(z3.Contains(s, sub))
        r = self.models.contains(self, container, item)
        if r is not None:
            return r[0]
        raise Unsupported(f'`in` on {container!r}')

    def ex_Tuple(self, e, env):
        out = []
        for x in e.elts:
            if isinstance(x, ast.Starred):
                seq = self.iter_seq(self.eval(x.value, env))
                if not isinstance(seq, tuple):
                    raise Unsupported('starred symbolic sequence in tuple display')
                out.extend(seq)
            else:
                out.append(self.eval(x, env))
        return tuple(out)

    def ex_List(self, e, env):
        return self.new_list(self.ex_Tuple(e, env))

    def ex_Set(self, e, env):
        items = self.ex_Tuple(e, env)
        if any(is_symbolic(x) for x in items):
            s = SymSet.empty()
            for x in items:
                s = s.add(lift(x, self.st))
            return self.new_set(s)
        return self.new_set(frozenset(items))

    def ex_Dict(self, e, env):
        d = self.new_dict()
        for k, v in zip(e.keys, e.values):
            if k is None:
                src = self.eval(v, env)
                self.models.dict_update(self, d, src)
            else:
                self.dict_set(d, self.eval(k, env), self.eval(v, env))
        return d

    def ex_JoinedStr(self, e, env):
        parts = []
        for v in e.values:
            if isinstance(v, ast.Constant):
                parts.append(v.value)
            else:
                val = self.eval(v.value, env)
                parts.append(self.to_str(val))
        if all(isinstance(p, str) for p in parts):
            return ''.join(parts)
        t = None
        for p in parts:
            pt = self.as_str(p)
            t = pt if t is None else z3.Concat(t, pt)
        return SymS(t)

    def to_str(self, v):
        if isinstance(v, str):
            return v
        if isinstance(v, SymS):
            return v
        if isinstance(v, EnumMember):
            # str() of a (str, Enum) member is 'Class.member'; format() uses the value in 3.12 for mixed-in str
            return v.value
        if isinstance(v, bool) or v is None or isinstance(v, int):
            return str(v)
        if isinstance(v, ClsRef):
            return f"<class '{v.name.split('::')[-1]}'>"
        if isinstance(v, SymB):
            return SymS(z3.If(v.t, z3.StringVal('True'), z3.StringVal('False')))
        if isinstance(v, SymI):
            return SymS(STR_OF(PyV.int_(v.t)))
        if isinstance(v, SymV):
            # str() of an arbitrary value: an uninterpreted function of the value
            if self.opt.get('symv_str', True):
                return SymS(STR_OF(v.t))
        r = self.models.to_str(self, v)
        if r is not None:
            return r
        raise Unsupported(f'str() of {v!r}')

    def ex_Subscript(self, e, env):
        obj = self.eval(e.value, env)
        if isinstance(e.slice, ast.Slice):
            lo = self.eval(e.slice.lower, env) if e.slice.lower is not None else None
            hi = self.eval(e.slice.upper, env) if e.slice.upper is not None else None
            return self.get_slice(obj, lo, hi)
        key = self.eval(e.slice, env)
        return self.get_item(obj, key)

    def get_slice(self, obj, lo, hi):
        if isinstance(obj, (str, tuple)) and not is_symbolic(lo) and not is_symbolic(hi):
            return obj[lo:hi]
        if isinstance(obj, SymV):
            if self.st.branch(PyV.is_str_(obj.t), 'slice-of-str'):
                obj = SymS(PyV.s(obj.t))
            else:
                raise Unsupported('slice of a non-string value')
        if isinstance(obj, (str, SymS)):
            s = self.as_str(obj)
            n = z3.Length(s)
            lo_t = z3.IntVal(0) if lo is None else self.as_int(lo)
            hi_t = n if hi is None else self.as_int(hi)
            if lo is not None and isinstance(lo, int) and lo < 0:
                lo_t = n + lo
            if hi is not None and isinstance(hi, int) and hi < 0:
                hi_t = n + hi
            return SymS(z3.SubString(s, lo_t, hi_t - lo_t))
        raise Unsupported(f'slice of {obj!r}')

    def get_item(self, obj, key):
        st = self.st
        if isinstance(obj, tuple):
            if isinstance(key, int):
                try:
                    return obj[key]
                except IndexError:
                    self.raise_builtin('IndexError')
            raise Unsupported('symbolic index into a concrete tuple')
        if isinstance(obj, Ref):
            if obj.cls == 'dict':
                return self.dict_get(obj, key, raise_missing=True)
            if obj.cls in ('list', 'tuple', 'deque'):
                items = st.getf(obj, 'items')
                if isinstance(items, tuple):
                    if isinstance(key, int):
                        try:
                            return items[key]
                        except IndexError:
                            self.raise_builtin('IndexError')
                    raise Unsupported('symbolic index into a concrete list')
                k = self.as_int(key)
                if k is None:
                    raise Unsupported(f'list index {key!r}')
                if st.branch(z3.And(k >= 0, k < items.len), 'index-in-range'):
                    return lower(items.at(k), st)
                if st.branch(z3.And(k < 0, -k <= items.len), 'neg-index'):
                    return lower(items.at(items.len + k), st)
                self.raise_builtin('IndexError')
            ci = self.class_of_ref(obj)
            if ci is not None:
                m = self.repo.find_method(ci, '__getitem__')
                if m is not None:
                    return self.call_function(m, obj, CallArgs([key]))
                for c in self.repo.mro(ci):
                    if isinstance(c, str):
                        lm = self.models.libclass_attr(self, c, '__getitem__', obj, None)
                        if lm is not None:
                            return self.call_value(lm[0], CallArgs([key]))
        if hasattr(obj, 'sym_getitem'):
            return obj.sym_getitem(self, key)
        if isinstance(obj, LibRef) or isinstance(obj, ClsRef):
            return obj   # typing subscripts: t.Dict[...] etc.
        r = self.models.get_item(self, obj, key)
        if r is not None:
            return r[0]
        raise Unsupported(f'subscript of {obj!r}')

    def set_item(self, obj, key, v):
        st = self.st
        if isinstance(obj, Ref):
            if obj.cls == 'dict':
                st.emit('write', obj=obj, field='map', key=key)
                return self.dict_set(obj, key, v)
            if obj.cls == 'list':
                items = st.getf(obj, 'items')
                st.emit('write', obj=obj, field='items', key=key)
                if isinstance(items, tuple):
                    if isinstance(key, int):
                        l = list(items)
                        l[key] = v
                        st.setf(obj, 'items', tuple(l))
                        return
                    raise Unsupported('symbolic index store into a concrete list')
                k = self.as_int(key)
                if st.branch(z3.And(k >= 0, k < items.len), 'store-index-in-range'):
                    st.setf(obj, 'items', items.set(k, lift(v, st)))
                    return
                self.raise_builtin('IndexError')
            ci = self.class_of_ref(obj)
            if ci is not None:
                m = self.repo.find_method(ci, '__setitem__')
                if m is not None:
                    return self.call_function(m, obj, CallArgs([key, v]))
                for c in self.repo.mro(ci):
                    if isinstance(c, str):
                        lm = self.models.libclass_attr(self, c, '__setitem__', obj, None)
                        if lm is not None:
                            return self.call_value(lm[0], CallArgs([key, v]))
        if hasattr(obj, 'sym_setitem'):
            return obj.sym_setitem(self, key, v)
        raise Unsupported(f'subscript store on {obj!r}')

    # ---- comprehensions -------------------------------------------------------------
    def ex_ListComp(self, e, env):
        return self.comprehension(e, env, 'list')

    def ex_SetComp(self, e, env):
        return self.comprehension(e, env, 'set')

    def ex_GeneratorExp(self, e, env):
        return self.comprehension(e, env, 'list')

    def ex_DictComp(self, e, env):
        # {K: V for ...}: the list of (K, V) pairs of the same generators, folded into a mapping in which a later pair
        # overwrites an earlier one with the same key
        import ast as _ast
        pairs = _ast.ListComp(elt=_ast.Tuple(elts=[e.key, e.value], ctx=_ast.Load()), generators=e.generators)
        _ast.copy_location(pairs, e)
        _ast.fix_missing_locations(pairs)
        lst = self.comprehension(pairs, env, 'list')
        items = self.st.getf(lst, 'items')
        st = self.st
        if isinstance(items, tuple):
            if all(isinstance(x, tuple) and len(x) == 2 and not is_symbolic(x[0]) for x in items):
                return self.new_dict({x[0]: x[1] for x in items})
            m = SymMap.empty()
            for x in items:
                if not (isinstance(x, tuple) and len(x) == 2):
                    raise Unsupported('dict comprehension element')
                m = m.store(lift(x[0], st), lift(x[1], st))
            return st.alloc('dict', map=m)
        from .models import used
        from .values import FA
        used(self, 'dict comprehension: the mapping of the (key, value) pairs in order, a later pair overwriting an earlier one')
        m = SymMap.fresh(st, 'dcomp')
        wit = st.fresh_func('dcomp_wit', PyV, IntS)
        i, j = z3.Ints('dci dcj')
        k = z3.Const('dck', PyV)
        key_at = lambda idx: PyV.t0(items.at(idx))
        st.assume(FA([i], z3.Implies(z3.And(i >= 0, i < items.len), z3.And(PyV.is_tup2(items.at(i)), m.has(key_at(i)))),
                     patterns=[items.at(i)]))
        st.assume(FA([k], z3.Implies(m.has(k), z3.And(wit(k) >= 0, wit(k) < items.len, key_at(wit(k)) == k,
                                                      m.at(k) == PyV.t1(items.at(wit(k))))), patterns=[m.has(k)]))
        st.assume(FA([k, j], z3.Implies(z3.And(m.has(k), j > wit(k), j < items.len), key_at(j) != k),
                     patterns=[z3.MultiPattern(m.has(k), items.at(j))]))
        return st.alloc('dict', map=m)

    def comprehension(self, e, env, kind):
        if len(e.generators) == 1:
            g = e.generators[0]
            seq = self.iter_seq(self.eval(g.iter, env))
            if isinstance(seq, tuple):
                out = []
                for x in seq:
                    sub = Env({}, env, env.finfo)
                    self.assign(g.target, x, sub)
                    if all(self.st.branch(self.eval_cond(c, sub), 'comp-if') for c in g.ifs):
                        out.append(self.eval(e.elt, sub))
                if kind == 'list':
                    return self.new_list(out)
                if any(is_symbolic(x) for x in out):
                    s = SymSet.empty()
                    for x in out:
                        s = s.add(lift(x, self.st))
                    return self.new_set(s)
                return self.new_set(frozenset(out))
            return self.models.symbolic_comprehension(self, e, env, kind, seq)
        if len(e.generators) == 2 and kind == 'set':
            return self.models.nested_set_comprehension(self, e, env)
        raise Unsupported('comprehension shape')

    # ==================================================================================
    # pure evaluation with merging (for predicates and comprehension bodies)
    # ==================================================================================
    def _split_pc(self, delta, v):
        """guards = the branch decisions of the sub-path; assumes = each assumption guarded by the decisions that
        precede it (an assumption made before a decision does not depend on that decision)"""
        guards, assumes = [], []
        for f in delta:
            if f.get_id() in self.st.assumed_ids:
                if guards:
                    assumes.append(z3.Implies(z3.And(*guards) if len(guards) > 1 else guards[0], f))
                else:
                    assumes.append(f)
            else:
                guards.append(f)
        return guards, assumes, v

    def eval_merged(self, thunk, kind='val', assuming=None):
        """Run ``thunk`` (which may fork) from the current state and merge all outcomes into one
        term.  The sub-computation must be pure: no heap writes, no effects, no exceptions."""
        st = self.st
        saved = (st.script, st.pos, st.taken, st.pending, st.pc, st.choice_log)
        heap_before = {k: dict(v) for k, v in st.heap.items()}
        n_eff = len(st.effects)
        n_obl = len(st.obligations)
        next_id = st.next_id
        counter0 = st.counter
        counter_max = st.counter
        work = [[]]
        outcomes = []
        base_pc = list(st.pc)
        if assuming is not None and not isinstance(assuming, bool):
            base_pc = base_pc + [assuming]
        # the solver must be restored between sub-paths: use push/pop
        while work:
            script = work.pop()
            st.pc = list(saved[4])
            if assuming is not None and not isinstance(assuming, bool):
                st.push_scope(assuming)
            else:
                st.push_scope()
            st.script, st.pos, st.taken, st.pending = script, 0, [], []
            st.pc = list(base_pc)
            st.heap = {k: dict(v) for k, v in heap_before.items()}
            st.next_id = next_id
            st.counter = counter0      # sub-paths share the names of their common prefix
            try:
                v = thunk()
                if isinstance(v, Ref) and v.cls in st.value_classes:
                    v = SymV(lift(v, st))      # value objects are turned into terms while their fields still exist
                bad = [x.kind for x in st.effects[n_eff:] if x.kind in IMPURE_EFFECTS]
                for oid, fields in heap_before.items():
                    cur = st.heap.get(oid, {})
                    for fname, fval in fields.items():
                        if cur.get(fname) is not fval:
                            bad.append(f'write:{oid}.{fname}')
                if bad:
                    raise Unsupported(f'impure sub-computation inside a merged evaluation: {bad}')
                outcomes.append(self._split_pc(st.pc[len(base_pc):], v))
            except PyRaise as pr:
                outcomes.append(self._split_pc(st.pc[len(base_pc):], pr))
            except Infeasible:
                pass
            finally:
                del st.effects[n_eff:]
                st.pop_scope()
                counter_max = max(counter_max, st.counter)
            work.extend(st.pending)
        st.counter = counter_max
        (st.script, st.pos, st.taken, st.pending, st.pc, st.choice_log) = saved
        st.heap = heap_before
        st.next_id = next_id
        if not outcomes:
            raise Infeasible()
        # assumptions made inside the sub-computation (callee postconditions, model axioms) define its
        # fresh symbols: they stay valid, guarded by the branch decisions under which they were made
        self.last_merged_assumptions = []
        for guards, assumes, _v in outcomes:
            if assumes:
                pre_g = ([assuming] if assuming is not None and not isinstance(assuming, bool) else [])
                f = z3.And(*assumes) if len(assumes) > 1 else assumes[0]
                if pre_g:
                    f = z3.Implies(z3.And(*pre_g) if len(pre_g) > 1 else pre_g[0], f)
                self.last_merged_assumptions.append(f)
                st.assume(f)
        outcomes = [(g, v) for g, _a, v in outcomes]
        # merge
        raising = [(pc, v) for pc, v in outcomes if isinstance(v, PyRaise)]
        normal = [(pc, v) for pc, v in outcomes if not isinstance(v, PyRaise)]
        if raising:
            conds = [z3.And(*pc) if pc else z3.BoolVal(True) for pc, _ in raising]
            if st.branch(z3.Or(*conds), 'merged-raises'):
                raise raising[0][1]
        if not normal:
            raise Infeasible()
        if kind == 'bool':
            terms = [(z3.And(*pc) if pc else z3.BoolVal(True), as_z3(as_bool_term(v))) for pc, v in normal]
            out = terms[-1][1]
            for c, t in reversed(terms[:-1]):
                out = z3.If(c, t, out)
            return wrap_bool(out)
        terms = [(z3.And(*pc) if pc else z3.BoolVal(True), lift(v, st)) for pc, v in normal]
        out = terms[-1][1]
        for c, t in reversed(terms[:-1]):
            out = z3.If(c, t, out)
        return lower(out, st)

    # ==================================================================================
    # builtins
    # ==================================================================================
    def bi_len(self, it, ca):
        v = ca.args[0]
        if isinstance(v, (tuple, str)):
            return len(v)
        if isinstance(v, SymS):
            return SymI(z3.Length(v.t))
        if isinstance(v, Ref):
            if v.cls in ('list', 'tuple', 'deque'):
                items = self.st.getf(v, 'items')
                if isinstance(items, tuple):
                    return len(items)
                return lower(PyV.int_(items.len), self.st)
            if v.cls == 'dict':
                m = self.st.getf(v, 'map')
                if not isinstance(m, SymMap):
                    return len(m)
            if v.cls == 'set':
                e = self.st.getf(v, 'elems')
                if isinstance(e, frozenset):
                    return len(e)
        if hasattr(v, 'sym_len'):
            return v.sym_len(self)
        r = self.models.length(self, v)
        if r is not None:
            return r[0]
        raise Unsupported(f'len of {v!r}')

    def bi_bool(self, it, ca):
        if not ca.args:
            return False
        return wrap_bool(self.truth(ca.args[0]))

    def bi_isinstance(self, it, ca):
        return wrap_bool(self.isinstance_term(ca.args[0], ca.args[1]))

    def isinstance_term(self, v, spec):
        if isinstance(spec, tuple):
            return z3_or(*[self.isinstance_term(v, s) for s in spec])
        if isinstance(spec, Ref) and spec.cls == 'tuple':
            return self.isinstance_term(v, self.st.getf(spec, 'items'))
        if not isinstance(spec, ClsRef):
            raise Unsupported(f'isinstance against {spec!r}')
        name = spec.name.split('::')[-1].split('.')[-1]
        if name == 'object':
            return True
        if isinstance(v, SymV):
            t = v.t
            if name == 'Recurrent':
                return PyV.is_rec(t)
            if name == 'CaseResult':
                return PyV.is_case(t)
            if self.is_exc_class(spec):
                code = self.exc_class_code(spec)
                return z3.And(PyV.is_exc(t), subcls(PyV.ecls(t), z3.IntVal(code)))
            if name == 'str':
                return PyV.is_str_(t)
            if name == 'bool':
                return PyV.is_bool_(t)
            if name == 'int':
                return z3.Or(PyV.is_int_(t), PyV.is_bool_(t))
            r = self.models.isinstance_symv(self, v, spec)
            if r is not None:
                return r[0]
            raise Unsupported(f'isinstance({v!r}, {name})')
        if isinstance(v, Ref):
            ci = self.class_of_ref(v)
            if ci is not None:
                for c in self.repo.mro(ci):
                    cn = c.name if isinstance(c, ClassInfo) else c.split('.')[-1]
                    if cn == name:
                        return True
                return False
            return v.cls.split('.')[-1] == name
        if v is None:
            return False
        if isinstance(v, (bool, SymB)):
            return name in ('bool', 'int')
        if isinstance(v, (int, SymI)):
            return name == 'int'
        if isinstance(v, EnumMember):
            return name in ('str', 'Enum', v.cls)
        if isinstance(v, (str, SymS)):
            return name == 'str'
        if isinstance(v, tuple):
            return name == 'tuple'
        r = self.models.isinstance_other(self, v, spec)
        if r is not None:
            return r[0]
        raise Unsupported(f'isinstance({v!r}, {name})')

    def bi_getattr(self, it, ca):
        obj, name = ca.args[0], ca.args[1]
        if not isinstance(name, str):
            raise Unsupported('getattr with symbolic name')
        has_default = len(ca.args) > 2
        if has_default:
            r = self.models.getattr_default(self, obj, name, ca.args[2])
            if r is not None:
                return r[0]
            try:
                return self.get_attr(obj, name)
            except PyRaise as pr:
                # only AttributeError is swallowed
                m = self.exc_matches(pr.val, ClsRef('builtins.AttributeError'))
                if self.st.branch(m, 'getattr-default'):
                    return ca.args[2]
                raise
        return self.get_attr(obj, name)

    def bi_callable(self, it, ca):
        v = ca.args[0]
        if isinstance(v, (Function, BoundMethod, Closure, Partial, LibFn, ClsRef)):
            return True
        if v is None or isinstance(v, (bool, int, str, tuple)):
            return False
        r = self.models.callable_(self, v)
        if r is not None:
            return r[0]
        raise Unsupported(f'callable({v!r})')

    def bi_list(self, it, ca):
        if not ca.args:
            return self.new_list(())
        if hasattr(ca.args[0], 'as_list'):
            return ca.args[0].as_list(self)
        seq = self.iter_seq(ca.args[0])
        return self.new_list(seq)

    def bi_tuple(self, it, ca):
        if not ca.args:
            return ()
        seq = self.iter_seq(ca.args[0])
        if isinstance(seq, tuple):
            return seq
        return self.st.alloc('tuple', items=seq)

    def bi_set(self, it, ca):
        if not ca.args:
            return self.new_set()
        return self.models.set_from_iterable(self, ca.args[0])

    def bi_dict(self, it, ca):
        d = self.new_dict()
        if ca.args:
            self.models.dict_update(self, d, ca.args[0])
        for k, v in ca.kwargs.items():
            self.dict_set(d, k, v)
        for sm in ca.starmaps:
            self.models.dict_update(self, d, sm)
        return d

    def bi_str(self, it, ca):
        return self.to_str(ca.args[0])

    def bi_enumerate(self, it, ca):
        seq = self.iter_seq(ca.args[0])
        if isinstance(seq, tuple):
            return tuple((i, x) for i, x in enumerate(seq))
        return EnumeratedSeq(seq)

    def bi_range(self, it, ca):
        if len(ca.args) == 1:
            n = ca.args[0]
            if isinstance(n, int):
                return tuple(range(n))
            return RangeSeq(self.range_len(n))
        raise Unsupported('range with several arguments')

    def range_len(self, n):
        if isinstance(n, SymI):
            return n.t
        if isinstance(n, SymV):
            # range(x) raises TypeError unless x is an int
            if self.st.branch(PyV.is_int_(n.t), 'range-arg-int'):
                return PyV.i(n.t)
            self.raise_builtin('TypeError', 'range() argument is not an int')
        raise Unsupported(f'range({n!r})')

    def bi_any(self, it, ca):
        return self.models.any_all(self, ca.args[0], True)

    def bi_all(self, it, ca):
        return self.models.any_all(self, ca.args[0], False)

    def bi_hash(self, it, ca):
        return self.models.hash_(self, ca.args[0])

    def bi_sorted(self, it, ca):
        return self.models.sorted_(self, ca)

    def bi_type(self, it, ca):
        return self.models.type_(self, ca)

    def bi_globals(self, it, ca):
        return self.models.globals_(self)

    def bi_zip(self, it, ca):
        seqs = [self.iter_seq(a) for a in ca.args]
        if all(isinstance(s, tuple) for s in seqs):
            return tuple(zip(*seqs))
        raise Unsupported('zip over symbolic sequences')


STR_OF = z3.Function('str_of', PyV, StrS)


def _str_of_axioms():
    # str(x) of a value that is a string is that string
    v = z3.Const('sov', PyV)
    from .values import FA as _FA
    return [_FA([v], z3.Implies(PyV.is_str_(v), STR_OF(v) == PyV.s(v)), patterns=[STR_OF(v)])]


from .values import EXTRA_AXIOMS as _EXTRA_AXIOMS   # noqa: E402
_EXTRA_AXIOMS.append(_str_of_axioms)
IMPURE_EFFECTS = {'spawn', 'notify', 'event_set', 'yield', 'cancel', 'sleep', 'wait', 'event_wait', 'user_call',
                  'add_node', 'add_edge'}


class StarSeq:
    """*args expansion of a symbolic sequence"""

    def __init__(self, seq):
        self.seq = seq


class EnumeratedSeq:
    def __init__(self, seq):
        self.seq = seq


class RangeSeq:
    def __init__(self, n):
        self.n = n
