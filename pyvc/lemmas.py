"""property-level lemmas: obligations over contract *statements* (no code), discharged like any other"""
import time
import traceback

import z3

from pyvc.state import State, Obligation
from pyvc.solve import discharge
from pyvc.values import LATTICE, Unsupported
from pyvc.state import PathEnd, Infeasible
from pyvc.interp import PyRaise


def run_lemmas(lemmas, tier, seed):
    from pyvc.run import Repo, prepare_lattice, load_contracts, models_factory
    from pyvc.interp import Interp
    out = []
    repo = Repo()
    prepare_lattice(repo)
    reg = load_contracts()
    axioms = LATTICE.axioms()
    for l in lemmas:
        t0 = time.time()
        r = dict(key=getattr(l, 'key', None) or f'lemma::{l.name}', verdicts=[], unsupported=[], missing=False, paths=1, outcomes={}, error=None,
                 assumptions=[], lines=None, props=list(l.props))
        try:
            st = State([], axioms)
            models = models_factory()
            it = Interp(repo, reg, st, models)
            models.attach(it)
            for n, f in l.obligations(it):
                if isinstance(f, bool):
                    ob = Obligation(f'lemma:{l.name}#{n}', st.pc, z3.BoolVal(f), 0, concrete_fail=None if f else 'structural mismatch')
                    v = discharge(ob, axioms, timeout_s=20, seed=seed)
                    r['verdicts'].append(v.as_dict())
                    continue
                ob = Obligation(f'lemma:{l.name}#{n}', st.pc, f, 0)
                v = discharge(ob, axioms, timeout_s=20 if tier == 'quick' else 120, seed=seed, both=(tier == 'thorough'),
                              cvc5_first=getattr(l, 'cvc5_first', False))
                r['verdicts'].append(v.as_dict())
            r['assumptions'] = sorted(st.assumptions_used)
        except Unsupported as e:
            r['unsupported'].append(str(e))
        except (PathEnd, Infeasible, PyRaise) as e:
            r['unsupported'].append(f'the constructor did not return normally ({type(e).__name__}: {e})')
        except Exception:
            r['error'] = traceback.format_exc()
        r['wall_s'] = time.time() - t0
        out.append(r)
    return out
