"""
Rename tolerance.  Contracts name locals (`ctx.var('local_tasks')`), loops (by the text of the iterated expression) and
parameters (`a.dag`) of the function they are anchored in.  A pure renaming of locals / parameters (with or without changed
docstrings, comments, annotations) is the most common behaviour-preserving edit; it must not make a contract inapplicable.

`contracts/reference/` holds a snapshot of the source files the contracts were written against (tools/snapshot_reference.py
refreshes it).  For a function under contract, the current function and its reference are compared after replacing every
locally bound name by the index of its first occurrence and dropping docstrings and annotations: if the two are identical,
the function is alpha-equivalent to its reference and the positional correspondence of names is the renaming
(reference name -> current name).  The renaming is applied to the names a contract mentions; nothing else changes.  If the
function is not alpha-equivalent to its reference, there is no renaming (the contract applies as written, or not at all).
"""
import ast
import copy
import os

REF_ROOT = os.path.join(os.path.dirname(os.path.dirname(os.path.abspath(__file__))), 'contracts', 'reference')
_ref_cache = {}


def _ref_function(path, qualname):
    if path not in _ref_cache:
        full = os.path.join(REF_ROOT, path) + '.txt'
        try:
            _ref_cache[path] = ast.parse(open(full, encoding='utf-8').read())
        except (OSError, SyntaxError):
            _ref_cache[path] = None
    tree = _ref_cache[path]
    if tree is None:
        return None
    parts = qualname.split('.')
    body = tree.body
    node = None
    for i, p in enumerate(parts):
        node = next((n for n in body if isinstance(n, (ast.FunctionDef, ast.AsyncFunctionDef, ast.ClassDef)) and n.name == p), None)
        if node is None:
            return None
        body = node.body
    return node if isinstance(node, (ast.FunctionDef, ast.AsyncFunctionDef)) else None


def _bound_names(fn):
    """names bound inside the function: parameters, assignment / for / with / except / comprehension / walrus targets, nested defs"""
    bound = set()
    for n in ast.walk(fn):
        if isinstance(n, ast.arg):
            bound.add(n.arg)
        elif isinstance(n, ast.Name) and isinstance(n.ctx, (ast.Store, ast.Del)):
            bound.add(n.id)
        elif isinstance(n, (ast.FunctionDef, ast.AsyncFunctionDef, ast.ClassDef)) and n is not fn:
            bound.add(n.name)
        elif isinstance(n, ast.ExceptHandler) and n.name:
            bound.add(n.name)
        elif isinstance(n, (ast.Global, ast.Nonlocal)):
            for x in n.names:
                bound.discard(x)
    return bound


def _strip(fn):
    fn = copy.deepcopy(fn)
    for n in ast.walk(fn):
        if isinstance(n, (ast.FunctionDef, ast.AsyncFunctionDef, ast.ClassDef)):
            if n.body and isinstance(n.body[0], ast.Expr) and isinstance(n.body[0].value, ast.Constant) \
                    and isinstance(n.body[0].value.value, str):
                n.body = n.body[1:] or [ast.Pass()]
            if not isinstance(n, ast.ClassDef):
                n.returns = None
        if isinstance(n, ast.arg):
            n.annotation = None
        if isinstance(n, ast.AnnAssign):
            n.annotation = ast.Constant(value=None)
    return fn


def _normalise(fn):
    """(dump with bound names replaced by first-occurrence indices, ordered list of the bound names)"""
    fn = _strip(fn)
    bound = _bound_names(fn)
    order = []

    def idx(name):
        if name not in order:
            order.append(name)
        return f'§{order.index(name)}'

    class V(ast.NodeTransformer):
        def visit_arg(self, n):
            if n.arg in bound:
                n.arg = idx(n.arg)
            return n

        def visit_Name(self, n):
            if n.id in bound:
                n.id = idx(n.id)
            return n

        def visit_FunctionDef(self, n):
            if n is not fn and n.name in bound:
                n.name = idx(n.name)
            self.generic_visit(n)
            return n
        visit_AsyncFunctionDef = visit_FunctionDef

        def visit_ExceptHandler(self, n):
            if n.name and n.name in bound:
                n.name = idx(n.name)
            self.generic_visit(n)
            return n
    fn.name = '§f'
    V().visit(fn)
    return ast.dump(fn), order


_cache = {}


def renaming(path, qualname, cur_fn):
    """{reference name: current name} if the current function is a renaming of its reference, else {}"""
    key = (path, qualname, id(cur_fn))
    if key in _cache:
        return _cache[key]
    out = {}
    ref = _ref_function(path, qualname)
    if ref is not None:
        try:
            d0, n0 = _normalise(ref)
            d1, n1 = _normalise(cur_fn)
            if d0 == d1 and len(n0) == len(n1):
                out = {a: b for a, b in zip(n0, n1) if a != b}
        except Exception:   # noqa: BLE001
            out = {}
    _cache[key] = out
    return out


def new_params(path, qualname, cur_fn):
    """parameters of the current function that its reference version (the one the contract was written for) does not have:
    more positional parameters than before, or keyword-only names that did not exist.  A contract says nothing about them."""
    ref = _ref_function(path, qualname)
    if ref is None:
        return []
    ra, ca = ref.args, cur_fn.args
    ref_pos = [a.arg for a in ra.posonlyargs + ra.args]
    cur_pos = [a.arg for a in ca.posonlyargs + ca.args]
    out = cur_pos[len(ref_pos):]
    ref_kw = {a.arg for a in ra.kwonlyargs}
    out += [a.arg for a in ca.kwonlyargs if a.arg not in ref_kw and len(ca.kwonlyargs) > len(ra.kwonlyargs)]
    return out


def rename_text(text, ren):
    """apply the renaming to the source text of an expression (a loop header)"""
    if not ren or text is None:
        return text
    try:
        tree = ast.parse(text, mode='eval')
    except SyntaxError:
        return text
    for n in ast.walk(tree):
        if isinstance(n, ast.Name) and n.id in ren:
            n.id = ren[n.id]
    return ast.unparse(tree)
