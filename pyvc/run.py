"""
Driver: verifies the functions under contract that a property depends on, discharges every
obligation, compares refutations with /verif/known_findings.json, writes evidence and decides the
exit code (DESIGN §2.11).
"""
import importlib
import json
import multiprocessing as mp
import os
import pkgutil
import subprocess
import sys
import time
import traceback

import z3

VERIF = os.path.dirname(os.path.dirname(os.path.abspath(__file__)))
sys.path.insert(0, VERIF)

from pyvc import repo as repo_mod          # noqa: E402
from pyvc.values import LATTICE           # noqa: E402
from pyvc.repo import Repo, ClassInfo     # noqa: E402


def prepare_lattice(repo):
    """register every exception class defined in /repo (parents first)"""
    changed = True
    while changed:
        changed = False
        for mi in repo.modules.values():
            for d in mi.defs.values():
                if d[0] != 'class':
                    continue
                ci = d[1]
                if ci.name in LATTICE.codes:
                    continue
                for b in repo.class_bases(ci):
                    bn = b.name if isinstance(b, ClassInfo) else b.split('.')[-1]
                    if bn in LATTICE.codes:
                        LATTICE.register(ci.name, bn)
                        changed = True
                        break


def load_contracts():
    import contracts
    from pyvc.contract import REGISTRY
    for m in sorted(pkgutil.iter_modules(contracts.__path__), key=lambda m: m.name):
        importlib.import_module(f'contracts.{m.name}')
    return REGISTRY


def models_factory():
    from pyvc.models import ModelRegistry
    reg = ModelRegistry()
    try:
        from pyvc import libmodels
        libmodels.install(reg)
    except ImportError:
        pass
    return reg


def clause_props(name, contract_props):
    """an obligation clause may carry a tag `|C03,C11`: it then belongs to those properties only"""
    import re
    m = re.search(r'\|((?:C\d+,?)+)', name)
    if m:
        return [t for t in m.group(1).split(',') if t]
    return list(contract_props)


def verify_worker(args):
    key, tier, seed = args
    t0 = time.time()
    out = dict(key=key, verdicts=[], unsupported=[], missing=False, paths=0, outcomes={}, error=None,
               assumptions=[], lines=None, trusted=False)
    try:
        repo = Repo()
        prepare_lattice(repo)
        reg = load_contracts()
        c = reg.get(key)
        out['props'] = list(c.props)
        out['trusted'] = bool(c.trusted)
        if getattr(c, 'assumed', False):
            out['assumed'] = True
            out['doc'] = c.doc
            out['wall_s'] = 0.0
            return out
        from pyvc.contract import verify_function
        from pyvc.solve import discharge, merge_verdicts
        axioms = LATTICE.axioms()
        rep = verify_function(repo, reg, models_factory, c, axioms, options=dict(tier=tier))
        out['missing'] = rep.missing
        out['paths'] = rep.paths
        out['outcomes'] = rep.outcomes
        out['unsupported'] = sorted(set(rep.unsupported))
        out['lines'] = rep.lines
        out['assumptions'] = sorted(rep.assumptions) if hasattr(rep, 'assumptions') else []
        timeout = 20 if tier == 'quick' else 120
        seen = {}
        verdicts = []
        refuted_names = set()
        for ob in rep.obligations:
            sig = (ob.name, tuple(f.get_id() for f in ob.pc), ob.formula.get_id())
            if sig in seen:
                continue
            seen[sig] = True
            if ob.name in refuted_names:
                continue        # already refuted on another path: one witness is enough
            v = discharge(ob, axioms, timeout_s=timeout, seed=seed, both=(tier == 'thorough'))
            verdicts.append(v)
            if v.status == 'refuted':
                refuted_names.add(ob.name)
                function_level = any(tag in ob.name for tag in ('#post[', '#raises-only-declared', '#must-raise[', '#exc-post[', '#frame'))
                if function_level and v.z3_model is not None and getattr(ob, 'ctx', None) is not None:
                    try:
                        v.witness = c.witness(v.z3_model, ob.ctx)
                        if v.witness is not None:
                            v.witness['contract'] = c.key
                            v.witness['obligation'] = ob.name
                    except Exception as e:      # pragma: no cover
                        v.witness = None
                        v.info['witness_error'] = f'{type(e).__name__}: {e}'
        merged = merge_verdicts(verdicts)
        out['verdicts'] = [v.as_dict() for v in merged]
        out['n_queries'] = len(verdicts)
    except Exception:
        out['error'] = traceback.format_exc()
    out['wall_s'] = time.time() - t0
    return out


def run_contracts(keys, tier, seed, jobs=None):
    jobs = jobs or min(16, max(1, len(keys)))
    ctx = mp.get_context('fork')
    with ctx.Pool(jobs, maxtasksperchild=1) as pool:
        return pool.map(verify_worker, [(k, tier, seed) for k in keys], chunksize=1)


# --------------------------------------------------------------------------------------
# known findings
# --------------------------------------------------------------------------------------
def load_known():
    p = os.path.join(VERIF, 'known_findings.json')
    if not os.path.exists(p):
        return []
    return json.load(open(p))


def replay_known(entry, timeout=120):
    """runs the committed demonstration of a known finding against the real code.
    exit 0 = the defect is still there; exit 1 = it no longer reproduces"""
    script = entry.get('replay')
    if not script:
        return None, 'no replay script'
    cmd = ['/venv/bin/python', os.path.join(VERIF, script)] + list(entry.get('args', []))
    env = dict(os.environ, PYTHONPATH=f'{repo_mod.REPO_ROOT}:{VERIF}', PYTHONDONTWRITEBYTECODE='1')
    # a demonstration that does not reproduce turns a listed finding into a reported violation: never let a stalled machine
    # decide that -- three attempts, the finding counts as still there when any of them reproduces it
    rc, out = 2, 'not run'
    for _attempt in range(3):
        try:
            p = subprocess.run(cmd, capture_output=True, text=True, timeout=timeout, env=env, cwd=VERIF)
            rc, out = p.returncode, (p.stdout + p.stderr)[-1500:]
        except subprocess.TimeoutExpired:
            rc, out = 2, 'replay timed out'
        if rc == 0:
            break
    return rc, out


def main(argv=None):
    argv = argv or sys.argv[1:]
    prop = argv[0]
    tier = argv[1] if len(argv) > 1 else os.environ.get('VERIF_TIER', 'quick')
    seed = int(os.environ.get('VERIF_SEED', '0'))
    from pyvc.report import check_property
    return check_property(prop, tier, seed)


if __name__ == '__main__':
    try:
        code = main()
    except SystemExit:
        raise
    except BaseException as e:      # a crash of the checker is never a verdict about /repo (exit 1 is reserved for violations)
        import traceback
        traceback.print_exc()
        print(f'CHECKER-ERROR {type(e).__name__}: {e}')
        code = 3
    sys.exit(code)
