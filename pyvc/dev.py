"""developer helper: python3-vt -m pyvc.dev <substring> [tier] — verify matching contracts in-process"""
import sys
import time

from pyvc.run import Repo, prepare_lattice, load_contracts, models_factory, LATTICE


def main():
    pat = sys.argv[1] if len(sys.argv) > 1 else ''
    tier = sys.argv[2] if len(sys.argv) > 2 else 'quick'
    verbose = '-v' in sys.argv
    repo = Repo()
    prepare_lattice(repo)
    reg = load_contracts()
    from pyvc.contract import verify_function
    from pyvc.solve import discharge, merge_verdicts
    axioms = LATTICE.axioms()
    for c in reg:
        if pat not in c.key or getattr(c, 'assumed', False):
            continue
        t0 = time.time()
        rep = verify_function(repo, reg, models_factory, c, axioms, options=dict(tier=tier))
        t1 = time.time()
        seen = set()
        vs = []
        for ob in rep.obligations:
            sig = (ob.name, tuple(f.get_id() for f in ob.pc), ob.formula.get_id())
            if sig in seen:
                continue
            seen.add(sig)
            if any(v.name == ob.name and v.status == 'refuted' for v in vs):
                continue
            if '--dump' in sys.argv and sys.argv[sys.argv.index('--dump') + 1] in ob.name:
                import z3
                sv = z3.Solver()
                for ax in axioms:
                    sv.add(ax)
                for f in ob.pc:
                    sv.add(f)
                sv.add(z3.Not(ob.formula))
                fn = f'/tmp/dump_{len(vs)}.smt2'
                open(fn, 'w').write(sv.to_smt2())
                print('dumped', ob.name, fn, 'pc', len(ob.pc))
            vs.append(discharge(ob, axioms, timeout_s=int(__import__('os').environ.get('PYVC_TIMEOUT', '20'))))
        merged = merge_verdicts(vs)
        bad = [v for v in merged if v.status != 'discharged']
        print(f'{c.name}: paths={rep.paths} {rep.outcomes} obligations={len(merged)} queries={len(vs)} '
              f'bad={len(bad)} exec={t1 - t0:.1f}s solve={time.time() - t1:.1f}s'
              + (' MISSING' if rep.missing else ''))
        for u in sorted(set(rep.unsupported)):
            print('   UNSUPPORTED:', u)
        for v in merged:
            if v.status != 'discharged' or verbose:
                print(f'   {v.status:10s} {v.name} [{v.backend} {v.time_s:.2f}s] {v.reason} {v.info if v.status != "discharged" else ""}')
                if v.status == 'refuted' and v.model and '-m' in sys.argv:
                    for k, val in v.model.items():
                        print('        ', k, '=', val)


if __name__ == '__main__':
    main()
