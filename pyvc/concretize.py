"""
Counter-model concretisation: z3 model values of sort PyV <-> JSON <-> z3 ground terms.
The JSON form is what replay/realize.py (running under /venv's interpreter) turns into real Python objects.
"""
import z3

from .state import SymMap, SymSet, SymSeq
from .values import PyV, NONE, LATTICE, mk_int, mk_str


def to_json(t):
    """ground PyV term (a model value) -> JSON-able dict"""
    t = z3.simplify(t)
    d = t.decl()
    if d.eq(PyV.none):
        return {'t': 'none'}
    if d.eq(PyV.bool_):
        return {'t': 'bool', 'v': z3.is_true(t.arg(0))}
    if d.eq(PyV.int_):
        return {'t': 'int', 'v': t.arg(0).as_long() if z3.is_int_value(t.arg(0)) else 0}
    if d.eq(PyV.str_):
        return {'t': 'str', 'v': t.arg(0).as_string() if z3.is_string_value(t.arg(0)) else ''}
    if d.eq(PyV.tup2):
        return {'t': 'tup2', 'a': to_json(t.arg(0)), 'b': to_json(t.arg(1))}
    if d.eq(PyV.rec):
        return {'t': 'rec', 'd': to_json(t.arg(0))}
    if d.eq(PyV.exc):
        code = t.arg(0).as_long() if z3.is_int_value(t.arg(0)) else -1
        return {'t': 'exc', 'cls': LATTICE.name_of(code), 'code': code, 'id': t.arg(1).as_long() if z3.is_int_value(t.arg(1)) else 0}
    if d.eq(PyV.case):
        return {'t': 'case', 'label': to_json(t.arg(0)), 'node': to_json(t.arg(1))}
    for ctor, tag in ((PyV.opq, 'opq'), (PyV.ref, 'ref'), (PyV.task, 'task')):
        if d.eq(ctor):
            return {'t': tag, 'id': t.arg(0).as_long() if z3.is_int_value(t.arg(0)) else 0}
    return {'t': 'opq', 'id': abs(hash(t.sexpr())) % 100000}


def from_json(j):
    """JSON -> ground PyV term"""
    k = j['t']
    if k == 'none':
        return NONE
    if k == 'bool':
        return PyV.bool_(z3.BoolVal(bool(j['v'])))
    if k == 'int':
        return mk_int(int(j['v']))
    if k == 'str':
        return mk_str(j['v'])
    if k == 'tup2':
        return PyV.tup2(from_json(j['a']), from_json(j['b']))
    if k == 'rec':
        return PyV.rec(from_json(j['d']))
    if k == 'exc':
        code = LATTICE.codes.get(j['cls'], j.get('code', 1))
        return PyV.exc(z3.IntVal(code), z3.IntVal(int(j.get('id', 0))))
    if k == 'case':
        return PyV.case(from_json(j['label']), from_json(j['node']))
    if k == 'opq':
        return PyV.opq(z3.IntVal(int(j['id'])))
    if k == 'ref':
        return PyV.ref(z3.IntVal(int(j['id'])))
    if k == 'task':
        return PyV.task(z3.IntVal(int(j['id'])))
    raise ValueError(j)


def ev(model, t):
    return model.eval(t, model_completion=True)


def universe(model, extra=()):
    """candidate keys: every PyV-sorted constant of the model plus the given terms, evaluated and de-duplicated"""
    seen, out = set(), []
    terms = list(extra)
    for d in model.decls():
        if d.arity() == 0 and d.range() == PyV:
            terms.append(d())
        elif d.arity() == 0 and d.range().kind() == z3.Z3_ARRAY_SORT and d.range().domain() == z3.IntSort() and d.range().range() == PyV:
            # sequences (index arrays): their first few elements are candidate keys too
            for i in range(4):
                terms.append(z3.Select(d(), z3.IntVal(i)))
    for t in terms:
        v = ev(model, t)
        key = v.sexpr()
        if key not in seen:
            seen.add(key)
            out.append(v)
    return out


def map_to_json(model, m, keys):
    """SymMap under the model restricted to the given (ground) keys"""
    out = []
    for k in keys:
        if z3.is_true(ev(model, m.has(k))):
            out.append([to_json(k), to_json(ev(model, m.at(k)))])
    return out


def set_to_json(model, s, keys):
    return [to_json(k) for k in keys if z3.is_true(ev(model, s.contains(k)))]


def map_from_json(pairs):
    m = SymMap.empty()
    for k, v in pairs:
        m = m.store(from_json(k), from_json(v))
    return m


def set_from_json(items):
    s = SymSet.empty()
    for k in items:
        s = s.add(from_json(k))
    return s


def seq_from_json(items):
    s = SymSeq.empty()
    for x in items:
        s = s.append(from_json(x))
    return s


def seq_to_json(model, seq, limit=6):
    n = ev(model, seq.len)
    n = n.as_long() if z3.is_int_value(n) else 0
    n = max(0, min(n, limit))
    return [to_json(ev(model, seq.at(z3.IntVal(i)))) for i in range(n)]
