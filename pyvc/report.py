"""
Per-property check: run the contracts, classify verdicts, handle known findings, write evidence,
print HELD / KNOWN-FINDING / VIOLATION / UNDECIDED and return the exit code.
"""
import json
import re
import os
import sys
import time

from pyvc.run import (VERIF, Repo, prepare_lattice, load_contracts, run_contracts, load_known, replay_known,
                      clause_props)

DROPPED = [
    'docstrings; type annotations other than the marks the builder reads; comments',
    'calls on the loggers of ml_pipeline_engine/logs.py are skipped (arguments assumed pure and non-raising)',
    '@dataclass is modelled as its generated __init__ (field defaults / default_factory / init=False / __post_init__)',
    '@staticmethod/@classmethod/@property by their language meaning; name mangling of self.__x applied as CPython does',
]

GLOBAL_ASSUMPTIONS = [
    'Python integers are mathematical integers (no overflow exists in Python)',
    'equality of opaque user values is structural identity of the value term (user __eq__/__hash__ not modelled)',
    'truthiness of user values is uninterpreted',
    'user code (node bodies, get_default, event managers, artifact stores) is an arbitrary havoc that does not touch engine state',
    'set/dict iteration order is an arbitrary duplicate-free enumeration',
    'library models listed under trusted_base are assumed contracts on dependencies',
]


# bounded stand-ins (DESIGN 9.8): harnesses that run the real code on a stated, bounded family of inputs.  They are used only
# for functions the verifier could not decide (contract no longer fits the code, unsupported construct, solver timeout) and
# in the thorough tier as an extra exploration; what they cover is reported as *bounded*, never as proved.
BOUNDED = [
    dict(prefix=('ml_pipeline_engine/dag_builders/annotation/builder.py::',), script='bounded/builder.py', props=('C09', 'C15', 'C16', 'C17', 'C03', 'C05', 'C10', 'C11')),
    dict(prefix=('ml_pipeline_engine/artifact_store/',), script='bounded/fsstore.py', props=('C18',)),
    dict(prefix=('ml_pipeline_viewer/',), script='bounded/viewer.py', props=('C20',)),
    dict(prefix=('ml_pipeline_engine/dag/manager.py::', 'ml_pipeline_engine/dag/storage.py::', 'ml_pipeline_engine/dag/dag.py::',
                 'ml_pipeline_engine/dag/retrying.py::', 'ml_pipeline_engine/context/dag.py::', 'ml_pipeline_engine/node/node.py::',
                 'ml_pipeline_engine/chart.py::', 'ml_pipeline_engine/dag/graph.py::', 'ml_pipeline_engine/events.py::',
                 'ml_pipeline_engine/parallelism/', 'ml_pipeline_engine/module_loading.py::', 'ml_pipeline_engine/node/retrying.py::'),
         script='bounded/engine.py',
         props=('C01', 'C02', 'C03', 'C04', 'C05', 'C06', 'C07', 'C08', 'C09', 'C10', 'C11', 'C12', 'C13', 'C14', 'C17', 'C19')),
]
VENV_PY = '/venv/bin/python'


def run_bounded(h, prop, out_dir):
    import subprocess
    from pyvc import repo as repo_mod
    os.makedirs(out_dir, exist_ok=True)
    jpath = os.path.join(out_dir, 'bounded_' + os.path.basename(h['script'])[:-3] + '.json')
    env = dict(os.environ, PYTHONPATH=f'{repo_mod.REPO_ROOT}:{VERIF}')
    try:
        r = subprocess.run([VENV_PY, os.path.join(VERIF, h['script']), '--json', jpath], capture_output=True, text=True,
                           env=env, cwd=VERIF, timeout=1800)
        res = json.load(open(jpath))
    except Exception as e:   # noqa: BLE001
        return dict(ok=None, error=f'{type(e).__name__}: {e}', path=jpath)
    fails = [f for f in res.get('failures', []) if f.get('property') == prop]
    return dict(ok=not fails, failures=fails, cases=res.get('cases'), bound=res.get('bound'), path=jpath, rc=r.returncode,
                script=h['script'])


def fuzz_function(contract_key, seed=0, n=40):
    import subprocess
    import tempfile
    from pyvc import repo as repo_mod
    with tempfile.NamedTemporaryFile('w', suffix='.json', delete=False) as f:
        jpath = f.name
    try:
        subprocess.run(['python3-vt', os.path.join(VERIF, 'tools', 'conformance.py'), str(n), str(seed), '--only', contract_key, '--json', jpath],
                       capture_output=True, text=True, cwd=VERIF, timeout=900, env=dict(os.environ, PYVC_REPO=repo_mod.REPO_ROOT))
        return json.load(open(jpath))
    except Exception as e:   # noqa: BLE001
        return dict(error=f'{type(e).__name__}: {e}', executions=0, disagreements=[])
    finally:
        try:
            os.unlink(jpath)
        except OSError:
            pass


def obligation_props(name, props):
    return clause_props(name, props)


def write_replay(prop, verdict, extra=None):
    d = os.path.join(VERIF, 'out' if not os.environ.get('PYVC_NO_EVIDENCE') else 'out/_selftest', prop)
    os.makedirs(d, exist_ok=True)
    safe = ''.join(ch if ch.isalnum() or ch in '._-' else '_' for ch in verdict['name'])[:150]
    path = os.path.join(d, f'{safe}.json')
    payload = dict(property=prop, obligation=verdict['name'], status=verdict['status'], backend=verdict['backend'],
                   solver_reason=verdict.get('reason', ''), model=verdict.get('model'), info=verdict.get('info'),
                   replay=extra or {'replayed': False, 'why': 'no concrete input could be produced from the model'})
    with open(path, 'w') as f:
        json.dump(payload, f, indent=1, default=str)
    return path


def check_property(prop, tier='quick', seed=0):
    t0 = time.time()
    repo = Repo()
    prepare_lattice(repo)
    reg = load_contracts()
    contracts = [c for c in reg if prop in c.props]
    lemma_objs = [l for l in reg.lemmas if prop in l.props]
    if not contracts and not lemma_objs:
        print(f'UNDECIDED property={prop} no contracts registered')
        return 3
    keys = [c.key for c in contracts]
    results = run_contracts(keys, tier, seed)
    lemma_results = []
    if lemma_objs:
        from pyvc.lemmas import run_lemmas
        lemma_results = run_lemmas(lemma_objs, tier, seed)

    known = [k for k in load_known() if k.get('property') == prop]
    open_known = {k['obligation']: k for k in known if k.get('status', 'open') == 'open'}

    functions = []
    all_verdicts = []
    undecided = []
    undecided_keys = {}      # function key -> messages (what the bounded stand-ins may take over)
    crashed = []
    trusted_base = set()
    assumed_contracts = []
    for r in results + lemma_results:
        if r.get('assumed'):
            assumed_contracts.append(f"ASSUMED CONTRACT (not verified) on {r['key']}: {r.get('doc', '')}")
            continue
        if r.get('error'):
            crashed.append((r['key'], r['error']))
            continue
        fn = r['key'].split('::')[1] if '::' in r['key'] else r['key']
        functions.append(dict(function=r['key'], lines=r.get('lines'), paths=r.get('paths'), outcomes=r.get('outcomes'),
                              wall_s=round(r.get('wall_s', 0), 2)))
        if r.get('missing'):
            undecided_keys.setdefault(r['key'], []).append(f'{fn}: function under contract not found in /repo')
        for u in r.get('unsupported', []):
            undecided_keys.setdefault(r['key'], []).append(f'{fn}: {u}')
        if not r.get('verdicts') and not r.get('unsupported') and not r.get('missing'):
            undecided_keys.setdefault(r['key'], []).append(f'{fn}: the contract generated no obligations (vacuity guard)')
        for a in r.get('assumptions', []):
            trusted_base.add(a)
        for v in r.get('verdicts', []):
            if prop in obligation_props(v['name'], r.get('props', [prop])):
                all_verdicts.append(v)
                if v['status'] == 'unknown':
                    undecided_keys.setdefault(r['key'], []).append(
                        f"{v['name']}: solver gave no answer ({v.get('reason', '')})")

    lines = []
    not_violations = []
    violations = []
    known_hits = []
    n_discharged = 0
    n_obl = 0
    samples = []
    for v in all_verdicts:
        if v['status'] == 'discharged':
            n_obl += 1
            n_discharged += 1
            if len(samples) < 12:
                samples.append(dict(obligation=v['name'], backend=v['backend'], solver_s=v['time_s'], paths=v['paths']))
        elif v['status'] == 'unknown':
            n_obl += 1
        else:
            k = open_known.get(v['name'])
            if k is not None:
                rc, out = replay_known(k)
                if rc == 0:
                    known_hits.append((k, v))
                    continue
                n_obl += 1
                path = write_replay(prop, v, dict(replayed=True, reproduced=False, output=out,
                                                  note='listed known finding no longer reproduces with its recorded input, '
                                                       'but the obligation is still refuted'))
                violations.append((v, path, False))
            else:
                n_obl += 1
                rep = try_replay(prop, v)
                w = v.get('witness') or {}
                if rep and rep.get('replayed') and not rep.get('reproduced') and w.get('contract'):
                    # the function has a realiser and the solver's (candidate) counter-model, run on the REAL code, satisfies the
                    # contract: a failed proof, not yet a violation.  Look for a real failing input among random real executions
                    # of this function (tools/conformance.py); only such an input makes it a violation.
                    fz = fuzz_function(w['contract'], seed)
                    if fz.get('disagreements'):
                        rep = dict(replayed=True, reproduced=True, how='random real executions of the function (tools/conformance.py); '
                                   'the solver\'s own counter-model did not fail on the real code',
                                   failing_inputs=fz['disagreements'][:3])
                    else:
                        undecided_keys.setdefault(w['contract'], []).append(
                            f"{v['name']}: no proof, but the solver's counter-model does not fail on the real code and "
                            f"{fz.get('executions', 0)} random real executions of the function satisfy its contract")
                        not_violations.append(dict(obligation=v['name'], counter_model_replay=rep, random_real_executions=fz.get('executions')))
                        continue
                path = write_replay(prop, v, rep)
                violations.append((v, path, bool(rep and rep.get('reproduced'))))

    # functions the verifier left undecided: a registered bounded stand-in may take over (labelled bounded, not proved)
    bounded_runs = []
    out_dir = os.path.join(VERIF, 'out' if not os.environ.get('PYVC_NO_EVIDENCE') else 'out/_selftest', prop)
    for h in BOUNDED:
        if prop not in h['props']:
            continue
        mine = [k for k in undecided_keys if k.startswith(tuple(h['prefix']))]
        if not mine and tier != 'thorough':
            continue
        b = run_bounded(h, prop, out_dir)
        b['stands_in_for'] = mine
        bounded_runs.append(b)
        if b['ok'] is None:
            undecided.append(f"bounded stand-in {h['script']} could not run: {b.get('error')}")
            continue
        if b['ok']:
            for k in mine:
                undecided_keys.pop(k)
        else:
            f0 = b['failures'][0]
            violations.append((dict(name=f"bounded:{h['script']}: {f0.get('template')} / {f0.get('case')}", backend='real code',
                                    reason=f"observed {f0.get('observed')}; expected {f0.get('expected')} "
                                           f"({len(b['failures'])} failing cases of {b['cases']})", info=None), b['path'], True))
            for k in mine:
                undecided_keys.pop(k)
    for msgs in undecided_keys.values():
        undecided.extend(msgs)

    # refuted obligations for which the verifier produced no input that fails on the real code (all coroutine-level
    # clauses): search the bounded family for one.  A hit is a real failing input for this property on this tree; it goes
    # into the replay file and the VIOLATION line then carries no `no-failing-input-found`.
    if any(not rep_ for _v, _p, rep_ in violations):
        name_to_key = {c.name: c.key for c in contracts}
        for h in BOUNDED:
            if prop not in h['props']:
                continue
            todo = [i for i, (v, _p, rep_) in enumerate(violations) if not rep_
                    and name_to_key.get(v['name'].split('#')[0], '').startswith(tuple(h['prefix']))]
            if not todo:
                continue
            b = next((b_ for b_ in bounded_runs if b_.get('script') == h['script']), None) or run_bounded(h, prop, out_dir)
            if b not in bounded_runs:
                b['stands_in_for'] = []
                bounded_runs.append(b)
            if b.get('ok') is False:
                for i in todo:
                    v, path, _r = violations[i]
                    try:
                        payload = json.load(open(path))
                        payload['replay'] = dict(replayed=True, reproduced=True, how='bounded search for a failing input on the real code '
                                                 f"({h['script']}, {b['cases']} cases): not the solver's model, but an input of the "
                                                 'same tree that violates the same property', failing_inputs=b['failures'][:5],
                                                 all_failures=b['path'])
                        json.dump(payload, open(path, 'w'), indent=1, default=str)
                    except Exception:   # noqa: BLE001
                        continue
                    violations[i] = (v, path, True)

    # thorough tier: CPython cross-check of the storage contracts (run-time contract checking on the real methods)
    conformance = None
    if tier == 'thorough' and any(c.path == 'ml_pipeline_engine/dag/storage.py' for c in contracts) \
            and not os.environ.get('PYVC_NO_EVIDENCE'):
        import subprocess
        from pyvc import repo as repo_mod
        os.makedirs(out_dir, exist_ok=True)
        jpath = os.path.join(out_dir, 'conformance_storage.json')
        try:
            subprocess.run(['python3-vt', os.path.join(VERIF, 'tools', 'conformance.py'), '30', str(seed), '--json', jpath],
                           capture_output=True, text=True, cwd=VERIF, timeout=1800, env=dict(os.environ, PYVC_REPO=repo_mod.REPO_ROOT))
            conformance = json.load(open(jpath))
        except Exception as e:   # noqa: BLE001
            conformance = dict(error=f'{type(e).__name__}: {e}')
        for d in (conformance.get('disagreements') or [])[:3]:
            violations.append((dict(name=f"conformance:{d['function']}: {d['failed']}", backend='real code',
                                    reason='the contract is false on a real execution of the method (input in the replay file)', info=None),
                               jpath, True))

    # a listed open finding whose obligation is now discharged: report it (stale entry), not an error
    stale = [k for name, k in open_known.items() if name not in {v['name'] for _k, v in known_hits}
             and name in {v['name'] for v in all_verdicts if v['status'] == 'discharged'}]

    for k, v in known_hits:
        lines.append(f"KNOWN-FINDING: property={prop} {k['what']} [obligation {v['name']}]")
    for v, path, reproduced in violations:
        suffix = '' if reproduced else ' no-failing-input-found'
        lines.append(f"VIOLATION property={prop} replay={path}{suffix}")
        lines.append(f"  failed obligation: {v['name']} ({v['backend']}; {v.get('reason', '')}) {v.get('info') or ''}")

    exit_code = 0
    if crashed:
        for key, err in crashed:
            lines.append(f'CHECKER-ERROR {key}\n{err}')
        exit_code = 3
    if violations:
        exit_code = 1
    elif undecided and exit_code == 0:
        for u in undecided[:40]:
            lines.append(f'UNDECIDED property={prop} obligation={u}')
        exit_code = 2
    if exit_code == 0:
        stood_in = sorted({k.split('::')[-1] for b in bounded_runs if b.get('ok') for k in b.get('stands_in_for', [])})
        for b in bounded_runs:
            if b.get('ok') and b.get('stands_in_for'):
                lines.append(f"BOUNDED property={prop} {', '.join(k.split('::')[-1] for k in b['stands_in_for'])}: not decided by the "
                             f"verifier; bounded stand-in {b['script']} found no failing input in {b['cases']} cases (not a proof)")
        lines.append(f'HELD property={prop} obligations={n_obl} discharged={n_discharged} '
                     f'known_findings={len(known_hits)} functions={len(functions)} tier={tier}'
                     + (f' bounded_stand_ins={len(stood_in)}' if stood_in else ''))
    for s in stale:
        lines.append(f"NOTE: known finding '{s['obligation']}' is listed open but its obligation is discharged")

    self_test = []
    if tier == 'thorough' and not os.environ.get('PYVC_NO_EVIDENCE'):
        self_test = seeded_self_test(prop)
        for t in self_test:
            if not t['ok']:
                lines.append(f"CHECKER-ERROR self-test: seeded change {t['seed']} (recorded as caught by {prop}) gave exit {t['exit']}")
                exit_code = 3 if exit_code == 0 else exit_code
    wall = time.time() - t0
    backends = sorted({v['backend'] for v in all_verdicts})
    evidence = dict(
        property_id=prop, tier=tier, seed=seed, level='proof',
        coverage=dict(
            obligations=n_obl, discharged=n_discharged,
            refuted_known=len(known_hits),
            refuted_known_obligations=[v['name'] for _k, v in known_hits],
            undecided=len([1 for v in all_verdicts if v['status'] == 'unknown']),
            checker_cmd=f'./check {prop} {tier}',
            trusted_base=sorted(a for a in trusted_base if not a.startswith(('UNCHECKED', 'REQUIRES '))),
            back_ends=backends,
            solver_time_s=round(sum(v['time_s'] for v in all_verdicts), 2),
            functions_under_contract=functions,
            samples=samples,
            dropped_by_extraction=DROPPED,
            repo_digest=repo.digest.hexdigest(),
            seeded_self_test=self_test,
            failed_proofs_not_reproduced_on_real_code=not_violations,
            conformance_storage=(dict(executions=conformance.get('executions'), disagreements=len(conformance.get('disagreements') or []),
                                      error=conformance.get('error'),
                                      note='bounded CPython cross-check: random small states and arguments run on the real storage '
                                           'methods, the proved contract clauses evaluated on the observed pre/post states')
                                 if conformance else None),
            bounded_stand_ins=[dict(script=b.get('script'), bound=b.get('bound'), cases=b.get('cases'), ok=b.get('ok'),
                                    stands_in_for=b.get('stands_in_for'), failures=(b.get('failures') or [])[:5],
                                    note='bounded: real code run on a stated finite family of inputs; never counted as proved')
                               for b in bounded_runs],
            explanation='every named obligation is generated from the ast of /repo\'s current source by symbolic '
                        'execution against sidecar contracts and discharged by z3/cvc5 (unsat of pc ∧ ¬clause)',
        ),
        assumptions=GLOBAL_ASSUMPTIONS + prop_assumptions(prop) + assumed_contracts
        + [a for a in sorted(trusted_base) if a.startswith('UNCHECKED')]
        + entry_preconditions(trusted_base, results),
        wall_s=round(wall, 2),
        violations=len(violations),
    )
    if not os.environ.get('PYVC_NO_EVIDENCE'):
        os.makedirs(os.path.join(VERIF, 'evidence'), exist_ok=True)
        with open(os.path.join(VERIF, 'evidence', f'{prop}.json'), 'w') as f:
            json.dump(evidence, f, indent=1, default=str)
    print('\n'.join(lines))
    return exit_code


def seeded_self_test(prop):
    """thorough tier: every committed seeded change recorded as caught by this property's check must still be caught
    (on a scratch copy of /repo's current tree, removed afterwards)"""
    import glob
    import shutil
    import subprocess
    import tempfile
    from pyvc import repo as repo_mod
    out = []
    for meta_path in sorted(glob.glob(os.path.join(VERIF, 'seeded', '*', 'meta.json'))):
        meta = json.load(open(meta_path))
        if prop not in meta.get('checks', {}).get('violation_reported_by', []):
            continue
        scratch = tempfile.mkdtemp(prefix='pyvc_selftest_')
        try:
            for pkg in repo_mod.PACKAGES:
                shutil.copytree(os.path.join(repo_mod.REPO_ROOT, pkg), os.path.join(scratch, pkg))
            patch = os.path.join(os.path.dirname(meta_path), 'patch.diff')
            ap = subprocess.run(['patch', '-p1', '-s', '-d', scratch, '-i', patch], capture_output=True, text=True)
            if ap.returncode != 0:
                out.append(dict(seed=meta['id'], ok=True, exit=None, note='patch no longer applies to the current tree: skipped'))
                continue
            env = dict(os.environ, PYVC_REPO=scratch, PYVC_NO_EVIDENCE='1', VERIF_TIER='quick')
            r = subprocess.run([os.path.join(VERIF, 'check'), prop, 'quick'], capture_output=True, text=True, env=env, cwd=VERIF)
            out.append(dict(seed=meta['id'], ok=(r.returncode == 1), exit=r.returncode,
                            reported=[ln for ln in r.stdout.splitlines() if ln.startswith('VIOLATION')][:3]))
        finally:
            shutil.rmtree(scratch, ignore_errors=True)
    return out


def entry_preconditions(trusted_base, results):
    """preconditions that no call site under contract discharged in this run: they restrict the domain of the proof (public
    entry points, and helpers whose callers are outside this property's functions)"""
    checked = set()
    for r in results:
        for v in r.get('verdicts', []):
            m = re.search(r'#call:(.+?)\.pre\[(.*)\]$', v['name'])
            if m:
                checked.add((m.group(1).split('.')[-1], m.group(2)))
            m = re.search(r'spawn:(.+?)\.pre\[(.*?)\]\]?$', v['name'])
            if m:
                checked.add((m.group(1).split('.')[-1], m.group(2)))
    out = []
    for a in sorted(trusted_base):
        if a.startswith('REQUIRES '):
            fn, name = a[len('REQUIRES '):].split(': ', 1)
            if (fn.split('.')[-1], name) not in checked:
                out.append(f'ENTRY PRECONDITION of {fn} (domain of the proof: discharged at no call site under contract in this run): {name}')
    return out


def prop_assumptions(prop):
    p = os.path.join(VERIF, 'contracts', 'assumptions.json')
    if os.path.exists(p):
        return json.load(open(p)).get(prop, [])
    return []


def try_replay(prop, verdict):
    """concretise the counter-model and run it on the real code, when the contract has a realiser"""
    w = verdict.get('witness')
    if not w:
        return None
    try:
        from replay.oracle import replay_witness
        return replay_witness(w)
    except Exception as e:  # pragma: no cover
        return dict(replayed=False, why=f'replayer failed: {type(e).__name__}: {e}')
